"""C12 -- Worklist, union-find and scoped dictionary follow their abstract models.

Tie: hand-written Coq model (coq/C12/Model.v) vs xdsl.utils.{worklist,disjoint_set,scoped_dict},
compared on (a) an exhaustive sweep of all operation sequences of a fixed length over a small
universe (the Coq side enumerates the sequences itself, in itertools.product order), and
(b) seeded random long histories.  Every return value AND the private state (_stack/_map,
_parent/_count) are compared.  Oracle: independent python abstract models (LIFO list without
duplicates, naive partition, innermost-scope search).
A case is non-trivial when its output differs from that of the all-default sequence (at least
one pop/lookup returned a value or raised); distinct = distinct op sequence.
"""
from __future__ import annotations

import itertools

from harness.common import (Ctx, DiffSpec, coq_list, coq_nat, coq_nats, coq_Z, differential, exc_code, replay_findings,
                            sweep_differential)

META = {
    "id": "C12",
    "title": "Worklist, union-find and scoped dictionary follow their abstract models",
    "design_ref": "DESIGN.md section 8.C12",
    "technique": "Coq refinement proofs (every history) + exhaustive/random model-vs-code correspondence",
    "level_text": (
        "Theorems in coq/Props/C12.v: for EVERY operation history the tombstone worklist returns what a "
        "duplicate-free LIFO stack returns (refinement by a representation invariant), every ScopedDict "
        "lookup form equals the innermost-defining-scope lookup, and the union-find model represents "
        "exactly the partition induced by the unions (see the theorem list in evidence). The model is tied "
        "to the code by an exhaustive sweep of all call sequences up to a bound plus random long histories, "
        "comparing return values and private fields."),
    "level_note": (
        "Trusted: Coq kernel; hand-written model of the three classes (Python dict modelled as association "
        "list, hashing of items not modelled: items are small ints); correspondence harness. Not covered: "
        "DisjointSet constructed with duplicate values (hypothesis NoDup values; reported in evidence)."),
}
COQ_TARGETS = ["C12/Enc.vo", "C12/ProofsWorklist.vo", "C12/ProofsScoped.vo", "C12/ProofsUF.vo", "Props/C12.vo"]
REQ = ["C12.Model", "C12.Enc"]
ASSUMPTIONS = ["items are hashable with value equality (ints used)", "single-threaded use"]

# ---------------------------------------------------------------------------- worklist
WL_UNIV = [0, 1, 2]


def wl_ops():
    return [("push", x) for x in WL_UNIV] + [("pop",)] + [("remove", x) for x in WL_UNIV] + [("bool",)]


def coq_wl_op(o):
    return {"push": lambda: f"WPush {coq_nat(o[1])}", "pop": lambda: "WPop",
            "remove": lambda: f"WRemove {coq_nat(o[1])}", "bool": lambda: "WBool"}[o[0]]()


def wl_impl(case):
    from xdsl.utils.worklist import Worklist
    univ, ops = case["univ"], case["ops"]
    w = Worklist()
    outs = []
    for o in ops:
        if o[0] in ("push", "remove", "bool"):
            try:
                if o[0] == "push":
                    w.push(o[1]); outs.append(-1)
                elif o[0] == "remove":
                    w.remove(o[1]); outs.append(-1)
                else:
                    outs.append(11 if bool(w) else 10)
            except Exception as e:  # noqa: BLE001  (these calls never raise in the abstract model)
                outs.append(-90 - exc_code(e))
        else:
            try:
                outs.append(w.pop())
            except IndexError:
                outs.append(-2)
            except Exception as e:  # noqa: BLE001  (any other escape is an observable misbehaviour)
                outs.append(-90 - exc_code(e))
    stack = [x if isinstance(x, int) else -1 for x in w._stack]
    mp = [w._map.get(x, -1) for x in univ]
    return [outs, stack, mp]


def wl_holds(case, res):
    """abstract LIFO stack without duplicates"""
    l, exp = [], []
    for o in case["ops"]:
        if o[0] == "push":
            if o[1] not in l:
                l.append(o[1])
            exp.append(-1)
        elif o[0] == "remove":
            if o[1] in l:
                l.remove(o[1])
            exp.append(-1)
        elif o[0] == "bool":
            exp.append(11 if l else 10)
        else:
            exp.append(l.pop() if l else -2)
    live = [x for x in res[1] if x != -1]
    if res[0] != exp:
        return False, f"outputs {res[0]} but a LIFO set gives {exp}"
    if live != l:
        return False, f"live contents {live} but a LIFO set holds {l}"
    return True, ""


def wl_nontrivial(case, res):
    return tuple(map(tuple, case["ops"])) if any(x >= 0 and x < 10 or x == -2 for x in res[0]) else None


# ---------------------------------------------------------------------------- scoped dict
SD_KEYS = [0, 1]
SD_VALS = [None, 5]
SD_DFS = [None, 9]


def sd_ops():
    ops = [("enter",), ("exit",)]
    ops += [("set", k, v) for k in SD_KEYS for v in SD_VALS]
    ops += [("get", k, d) for k in SD_KEYS for d in SD_DFS]
    ops += [("getitem", k) for k in SD_KEYS] + [("contains", k) for k in SD_KEYS]
    return ops


def coq_pyval(v):
    return "None" if v is None else f"(Some {coq_Z(v)})"


def coq_sd_op(o):
    t = o[0]
    if t == "enter":
        return "SEnter"
    if t == "exit":
        return "SExit"
    if t == "set":
        return f"SSet {coq_nat(o[1])} {coq_pyval(o[2])}"
    if t == "get":
        return f"SGet {coq_nat(o[1])} {coq_pyval(o[2])}"
    if t == "getitem":
        return f"SGetItem {coq_nat(o[1])}"
    return f"SContains {coq_nat(o[1])}"


def enc_pyval(v):
    return [] if v is None else [v]


def sd_impl(case):
    from xdsl.utils.scoped_dict import ScopedDict
    cur = ScopedDict()
    outs = []
    for o in case["ops"]:
        t = o[0]
        if t == "enter":
            cur = ScopedDict(cur); outs.append(-1)
        elif t == "exit":
            if cur.parent is not None:
                cur = cur.parent
            outs.append(-1)
        elif t == "set":
            cur[o[1]] = o[2]; outs.append(-1)
        elif t == "get":
            outs.append(enc_pyval(cur.get(o[1], o[2])))
        elif t == "getitem":
            try:
                outs.append(enc_pyval(cur[o[1]]))
            except KeyError:
                outs.append(-2)
        else:
            outs.append(11 if o[1] in cur else 10)
    return outs


def sd_holds(case, res):
    scopes = [{}]
    exp = []
    for o in case["ops"]:
        t = o[0]
        if t == "enter":
            scopes.append({}); exp.append(-1)
        elif t == "exit":
            if len(scopes) > 1:
                scopes.pop()
            exp.append(-1)
        elif t == "set":
            scopes[-1][o[1]] = o[2]; exp.append(-1)
        else:
            found = None
            for sc in reversed(scopes):
                if o[1] in sc:
                    found = (sc[o[1]],)
                    break
            if t == "get":
                exp.append(enc_pyval(found[0] if found else o[2]))
            elif t == "getitem":
                exp.append(enc_pyval(found[0]) if found else -2)
            else:
                exp.append(11 if found else 10)
    if res != exp:
        return False, f"lookups {res} but innermost-defining-scope gives {exp}"
    return True, ""


def sd_nontrivial(case, res):
    return tuple(map(tuple, case["ops"])) if any(x not in (-1, -2, 10, []) for x in res) else None



# ---------------------------------------------------------------------------- forest of live scopes
SF_SCOPES = [0, 1]
SF_KEYS = [0]
SF_VALS = [None, 5]
SF_DFS = [9]


def sf_ops(scopes=SF_SCOPES, keys=SF_KEYS, vals=SF_VALS, dfs=SF_DFS):
    ops = [("new", 0)]
    ops += [("set", s, k, v) for s in scopes for k in keys for v in vals]
    ops += [("get", s, k, d) for s in scopes for k in keys for d in dfs]
    ops += [("getitem", s, k) for s in scopes for k in keys]
    ops += [("contains", s, k) for s in scopes for k in keys]
    return ops


def coq_sf_op(o):
    t = o[0]
    if t == "new":
        return f"FNew {coq_nat(o[1])}"
    if t == "set":
        return f"FSet {coq_nat(o[1])} {coq_nat(o[2])} {coq_pyval(o[3])}"
    if t == "get":
        return f"FGet {coq_nat(o[1])} {coq_nat(o[2])} {coq_pyval(o[3])}"
    if t == "getitem":
        return f"FGetItem {coq_nat(o[1])} {coq_nat(o[2])}"
    return f"FContains {coq_nat(o[1])} {coq_nat(o[2])}"


def sf_impl(case):
    """several ScopedDict objects alive at once; scope indices are clamped to the newest scope"""
    from xdsl.utils.scoped_dict import ScopedDict
    scopes = [ScopedDict()]
    outs = []
    for o in case["ops"]:
        t = o[0]
        s = scopes[min(o[1], len(scopes) - 1)]
        try:
            if t == "new":
                scopes.append(ScopedDict(s)); outs.append(-1)
            elif t == "set":
                s[o[2]] = o[3]; outs.append(-1)
            elif t == "get":
                outs.append(enc_pyval(s.get(o[2], o[3])))
            elif t == "getitem":
                try:
                    outs.append(enc_pyval(s[o[2]]))
                except KeyError:
                    outs.append(-2)
            else:
                outs.append(11 if o[2] in s else 10)
        except Exception as e:  # noqa: BLE001
            outs.append(-90 - exc_code(e))
    return outs


def sf_holds(case, res):
    parent, binds, exp = [None], [{}], []
    for o in case["ops"]:
        t = o[0]
        i = min(o[1], len(binds) - 1)
        if t == "new":
            parent.append(i); binds.append({}); exp.append(-1)
        elif t == "set":
            binds[i][o[2]] = o[3]; exp.append(-1)
        else:
            found, j = None, i
            while j is not None:
                if o[2] in binds[j]:
                    found = (binds[j][o[2]],)
                    break
                j = parent[j]
            if t == "get":
                exp.append(enc_pyval(found[0] if found else o[3]))
            elif t == "getitem":
                exp.append(enc_pyval(found[0]) if found else -2)
            else:
                exp.append(11 if found else 10)
    if res != exp:
        return False, f"lookups {res} but innermost-defining-scope (along each scope's parent chain) gives {exp}"
    return True, ""

# ---------------------------------------------------------------------------- union-find
def uf_ops(args):
    prs = [(a, b) for a in args for b in args]
    return ([("add",)] + [("find", x) for x in args] + [("union", a, b) for a, b in prs]
            + [("union_left", a, b) for a, b in prs]
            + [("connected", a, b) for a, b in prs if a <= b] + [("roots",)])


def coq_uf_op(o):
    t = o[0]
    if t == "add":
        return "UAdd"
    if t == "roots":
        return "URoots"
    if t == "find":
        return f"UFind {coq_nat(o[1])}"
    nm = {"union": "UUnion", "union_left": "UUnionLeft", "connected": "UConnected"}[t]
    return f"{nm} {coq_nat(o[1])} {coq_nat(o[2])}"


def uf_impl(case):
    from xdsl.utils.disjoint_set import IntDisjointSet
    u = IntDisjointSet(size=case["n0"])
    outs = []
    for o in case["ops"]:
        t = o[0]
        try:
            if t == "add":
                outs.append(u.add())
            elif t == "find":
                outs.append(u[o[1]])
            elif t == "union":
                outs.append(11 if u.union(o[1], o[2]) else 10)
            elif t == "union_left":
                outs.append(11 if u.union_left(o[1], o[2]) else 10)
            elif t == "connected":
                outs.append(11 if u.connected(o[1], o[2]) else 10)
            else:
                outs.append(list(u.roots()))
        except KeyError:
            outs.append(-2)
        except Exception as e:  # noqa: BLE001
            outs.append(-90 - exc_code(e))
    return [outs, list(u._parent), list(u._count)]


def uf_holds(case, res):
    """naive partition: list of sets with an explicit representative per class"""
    n = case["n0"]
    cls = {i: {i} for i in range(n)}      # element -> its class (shared set objects)
    for o, out in zip(case["ops"], res[0]):
        t = o[0]
        if t == "add":
            if out != n:
                return False, f"add returned {out}, expected {n}"
            cls[n] = {n}; n += 1
            continue
        if t == "roots":
            classes = {id(s): s for s in cls.values()}
            if len(out) != len(classes) or len(set(out)) != len(out):
                return False, f"roots {out}: expected one per class ({len(classes)} classes)"
            if {id(cls[r]) for r in out if r in cls} != set(classes):
                return False, f"roots {out} do not cover every class exactly once"
            continue
        args = o[1:]
        if any(a < 0 or a >= n for a in args):
            if out != -2:
                return False, f"{o}: out-of-range argument must raise KeyError, got {out}"
            continue
        if t == "find":
            if out not in cls[o[1]]:
                return False, f"find({o[1]}) = {out} is not a member of its class {sorted(cls[o[1]])}"
        elif t == "connected":
            exp = cls[o[1]] is cls[o[2]]
            if out != (11 if exp else 10):
                return False, f"connected{args} = {out}, partition says {exp}"
        else:
            a, b = args
            same = cls[a] is cls[b]
            if out != (10 if same else 11):
                return False, f"{t}{args} returned {out}, partition says already-same={same}"
            if not same:
                merged = cls[a] | cls[b]
                for x in merged:
                    cls[x] = merged
    # the left-representative clause is checked separately (uf_left_rep_check)
    if len(res[1]) != n:
        return False, "length of _parent differs from the number of elements"
    return True, ""


def uf_left_rep_check(case):
    """union_left keeps the left representative: checked directly on the implementation."""
    from xdsl.utils.disjoint_set import IntDisjointSet
    u = IntDisjointSet(size=case["n0"])
    for o in case["ops"]:
        t = o[0]
        try:
            if t == "add":
                u.add()
            elif t == "find":
                u[o[1]]
            elif t == "union":
                u.union(o[1], o[2])
            elif t == "connected":
                u.connected(o[1], o[2])
            elif t == "union_left":
                n = u.value_count()
                if 0 <= o[1] < n and 0 <= o[2] < n:
                    r = u[o[1]]
                    u.union_left(o[1], o[2])
                    if u[o[1]] != r or u[o[2]] != r:
                        return False, f"after union_left{o[1:]} representative is {u[o[1]]}/{u[o[2]]}, left one was {r}"
                else:
                    u.union_left(o[1], o[2])
        except KeyError:
            pass
    return True, ""


def uf_holds_all(case, res):
    ok, why = uf_holds(case, res)
    if not ok:
        return ok, why
    return uf_left_rep_check(case)


def uf_nontrivial(case, res):
    return tuple(map(tuple, case["ops"])) if 11 in res[0] else None


# ---------------------------------------------------------------------------- driver
def product_shards(ops, prefix_len, tail_len, mk_case, coq_op, coq_sweep):
    shards = []
    for pre in itertools.product(ops, repeat=prefix_len):
        cases = [mk_case(list(pre) + list(tl)) for tl in itertools.product(ops, repeat=tail_len)]
        expr = coq_sweep(coq_list(coq_op(o) for o in pre), tail_len)
        shards.append((expr, cases))
    return shards


def random_ops(rng, ops, n):
    return [rng.choice(ops) for _ in range(n)]


def run(ctx: Ctx):
    thorough = ctx.tier == "thorough"
    rng = ctx.rng
    replay_findings(ctx, "scoped", sd_impl, sd_holds)
    # ---- exhaustive sweeps
    wl_pre, wl_tail = (2, 4) if thorough else (1, 4)
    sweep_differential(
        ctx, f"worklist-exhaustive-len{wl_pre + wl_tail}", REQ,
        product_shards(wl_ops(), wl_pre, wl_tail, lambda ops: {"univ": WL_UNIV, "ops": ops}, coq_wl_op,
                       lambda pre, n: f"wl_sweep {coq_nats(WL_UNIV)} {pre} {n}%nat"),
        wl_impl, wl_holds, None, wl_nontrivial)
    sd_pre, sd_tail = (1, 4) if thorough else (1, 3)
    sweep_differential(
        ctx, f"scoped-exhaustive-len{sd_pre + sd_tail}", REQ,
        product_shards(sd_ops(), sd_pre, sd_tail, lambda ops: {"ops": ops}, coq_sd_op,
                       lambda pre, n: "sd_sweep {} {} {} {} {}%nat".format(
                           coq_nats(SD_KEYS), coq_list(coq_pyval(v) for v in SD_VALS),
                           coq_list(coq_pyval(v) for v in SD_DFS), pre, n)),
        sd_impl, sd_holds, None, sd_nontrivial)
    # several scopes alive at once (a child reads, an ancestor is assigned later, the child reads again)
    sf_tail = 5 if thorough else 4
    sf_pre = [("set", 0, 0, 5), ("new", 0)]
    sweep_differential(
        ctx, f"scoped-forest-exhaustive-prefix2-len{sf_tail}", REQ,
        product_shards(sf_ops(), 1, sf_tail - 1, lambda ops: {"ops": sf_pre + ops}, coq_sf_op,
                       lambda pre, n: "sf_sweep {} {} {} {} ({} ++ {}) {}%nat".format(
                           coq_nats(SF_SCOPES), coq_nats(SF_KEYS), coq_list(coq_pyval(v) for v in SF_VALS),
                           coq_list(coq_pyval(v) for v in SF_DFS), coq_list(coq_sf_op(o) for o in sf_pre), pre, n)),
        sf_impl, sf_holds, None, sd_nontrivial)
    uf_args, uf_n0 = [0, 1, 2], 2          # element 2 is out of range until the first add()
    uf_pre, uf_tail = (1, 2)
    if thorough:
        uf_args, uf_n0 = [0, 1, 2, 3], 3
    sweep_differential(
        ctx, f"unionfind-exhaustive-len{uf_pre + uf_tail}-args{len(uf_args)}", REQ,
        product_shards(uf_ops(uf_args), uf_pre, uf_tail, lambda ops: {"n0": uf_n0, "ops": ops}, coq_uf_op,
                       lambda pre, n: f"uf_sweep {coq_nat(uf_n0)} {coq_nats(uf_args)} {pre} {n}%nat"),
        uf_impl, uf_holds_all, None, uf_nontrivial)
    # ---- random long histories
    nrand = 3000 if thorough else 300
    big = list(range(6))
    wops = [("push", x) for x in big] * 2 + [("pop",)] * 5 + [("remove", x) for x in big] + [("bool",)] * 2
    differential(ctx, DiffSpec(
        "worklist-random", REQ,
        [{"univ": big, "ops": random_ops(rng, wops, rng.randint(5, 60))} for _ in range(nrand)],
        wl_impl, lambda c: f"wl_case {coq_nats(c['univ'])} {coq_list(coq_wl_op(o) for o in c['ops'])}",
        wl_holds, None, wl_nontrivial))
    differential(ctx, DiffSpec(
        "scoped-random", REQ,
        [{"ops": random_ops(rng, sd_ops(), rng.randint(5, 50))} for _ in range(nrand)],
        sd_impl, lambda c: f"sd_case {coq_list(coq_sd_op(o) for o in c['ops'])}",
        sd_holds, None, sd_nontrivial))
    big_sf = sf_ops(scopes=[0, 1, 2, 3], keys=[0, 1], vals=[None, 5, 7], dfs=[None, 9]) + [("new", 1), ("new", 2)]
    differential(ctx, DiffSpec(
        "scoped-forest-random", REQ,
        [{"ops": random_ops(rng, big_sf, rng.randint(5, 40))} for _ in range(nrand * 2)],
        sf_impl, lambda c: f"sf_case {coq_list(coq_sf_op(o) for o in c['ops'])}",
        sf_holds, None, sd_nontrivial))
    cases = []
    for _ in range(nrand):
        n0 = rng.randint(0, 8)
        args = list(range(0, n0 + 3))
        ops = uf_ops(args)
        # bias towards unions on valid elements
        cases.append({"n0": n0, "ops": random_ops(rng, ops, rng.randint(5, 50))})
    differential(ctx, DiffSpec(
        "unionfind-random", REQ, cases, uf_impl,
        lambda c: f"uf_case {coq_nat(c['n0'])} {coq_list(coq_uf_op(o) for o in c['ops'])}",
        uf_holds_all, None, uf_nontrivial))
    # ---- DisjointSet wrapper (values <-> indices) on the implementation vs IntDisjointSet
    wrapper_check(ctx, nrand // 3)
    ctx.coverage["rule"] = __doc__.split("\n\n", 1)[1][:900]
    ctx.coverage["exhaustive"] = True
    ctx.coverage["explanation"] = ("exhaustive = every call sequence of the stated length over the stated universe; "
                                   "prefixes are covered because outputs of every call in the sequence are compared")


def wrapper_check(ctx, n):
    """DisjointSet[T] must behave as IntDisjointSet on indices (NoDup values)."""
    from xdsl.utils.disjoint_set import DisjointSet, IntDisjointSet
    rng = ctx.rng
    bad = None
    for _ in range(n):
        k = rng.randint(1, 7)
        vals = [f"v{i}" for i in range(k)]
        d, u = DisjointSet(vals), IntDisjointSet(size=k)
        for _ in range(rng.randint(3, 30)):
            t = rng.choice(["union", "union_left", "connected", "find", "add", "roots"])
            a, b = rng.randrange(len(vals)), rng.randrange(len(vals))
            if t == "add":
                vals.append(f"v{len(vals)}"); d.add(vals[-1]); u.add(); continue
            if t == "roots":
                x, y = list(d.roots()), [vals[i] for i in u.roots()]
            elif t == "find":
                x, y = d.find(vals[a]), vals[u[a]]
            else:
                x, y = getattr(d, t)(vals[a], vals[b]), getattr(u, t)(a, b)
            if x != y and bad is None:
                bad = {"op": t, "args": [a, b], "wrapper": x, "int": y}
        ctx.evaluations += 1
    ctx.coverage.setdefault("families", {})["disjointset-wrapper-vs-int"] = {"cases": n, "oracle_failures": int(bad is not None)}
    if bad:
        ctx.violation({"family": "disjointset-wrapper", "case": bad,
                       "oracle": "DisjointSet must agree with IntDisjointSet on the indices of its values"})
