"""C22 -- PIPELINE ORACLE (testing support, NOT proved): generated func/arith/scf programs are lowered with the
documented RISC-V pipeline and the emitted assembly is executed by the independent interpreter of c22_rv.py.

Program (a JSON-able dict):
  {"nargs": k, "body": [stmt...], "ret": [value, ...]}           values are names: "a0".. args, "v3".. results
  stmt = ["const", dst, c] | ["bin", dst, op, x, y] | ["cmp", dst, pred, x, y]
       | ["for", dst, lb, ub, step, init, ivname, accname, [stmt...], yielded]      lb/ub/step: ints (index consts)
       | ["forv", dst, ubvalue, step, init, ivname, accname, [stmt...], yielded]     ub = (ubvalue & 7) at run time
  `ret` has one i32 value and optionally one i1 value (a cmp result).
Source semantics (`evaluate`): MLIR arith on i32 with wrap-around; shift amounts are always in [0,31] and divisors
non-zero by construction (the generator masks them), so no poison / undefined behaviour is involved.
Pipeline (docs/Toy/toy/compiler.py order, + tests/filecheck/backend/riscv/func_and_arith_to_riscv_asm_flow.mlir):
  convert-func-to-riscv-func, convert-scf-to-riscv-scf, convert-arith-to-riscv, reconcile-unrealized-casts,
  canonicalize, riscv-allocate-registers, riscv-lower-parallel-mov, canonicalize,
  riscv-prologue-epilogue-insertion, convert-riscv-scf-to-riscv-cf, canonicalize, -t riscv-asm
"""
from __future__ import annotations

import random

from harness.common import exc_code
from harness.props import c22_rv as rv
from harness.props.c22_snip import PATTERNS, raising_pattern

BINOPS = ["addi", "subi", "muli", "andi", "ori", "xori", "shli", "shrsi", "shrui", "divui", "remui", "divsi", "remsi"]
PREDS = ["eq", "ne", "slt", "sle", "sgt", "sge", "ult", "ule", "ugt", "uge"]
M32 = 1 << 32


def s32(x):
    return rv.s32(x)


# ---------------------------------------------------------------------------------------------------- source semantics
def eval_bin(op, x, y):
    x &= 0xFFFFFFFF
    y &= 0xFFFFFFFF
    if op == "addi":
        return (x + y) % M32
    if op == "subi":
        return (x - y) % M32
    if op == "muli":
        return (x * y) % M32
    if op == "andi":
        return x & y
    if op == "ori":
        return x | y
    if op == "xori":
        return x ^ y
    if op == "shli":
        assert y < 32
        return (x << y) % M32
    if op == "shrui":
        assert y < 32
        return x >> y
    if op == "shrsi":
        assert y < 32
        return (s32(x) >> y) % M32
    if op == "divui":
        assert y != 0
        return x // y
    if op == "remui":
        assert y != 0
        return x % y
    if op in ("divsi", "remsi"):
        a, b = s32(x), s32(y)
        assert b != 0 and not (a == -(1 << 31) and b == -1)
        q = abs(a) // abs(b)
        q = q if (a < 0) == (b < 0) else -q
        return (q if op == "divsi" else a - q * b) % M32
    raise KeyError(op)


def eval_cmp(pred, x, y):
    x &= 0xFFFFFFFF
    y &= 0xFFFFFFFF
    sx, sy = s32(x), s32(y)
    return int({"eq": x == y, "ne": x != y, "slt": sx < sy, "sle": sx <= sy, "sgt": sx > sy, "sge": sx >= sy,
                "ult": x < y, "ule": x <= y, "ugt": x > y, "uge": x >= y}[pred])


def run_stmts(stmts, env):
    for s in stmts:
        k = s[0]
        if k == "const":
            env[s[1]] = s[2] % M32
        elif k == "bin":
            env[s[1]] = eval_bin(s[2], env[s[3]], env[s[4]])
        elif k == "cmp":
            env[s[1]] = eval_cmp(s[2], env[s[3]], env[s[4]])
        elif k in ("for", "forv"):
            if k == "for":
                _, dst, lb, ub, step, init, iv, acc, body, yielded = s
            else:
                _, dst, ubv, step, init, iv, acc, body, yielded = s
                lb, ub = 0, env[ubv] & 7
            a = env[init]
            i = lb
            while i < ub:
                e2 = dict(env)
                e2[iv] = i % M32
                e2[acc] = a
                run_stmts(body, e2)
                a = e2[yielded]
                i += step
            env[dst] = a
        else:
            raise KeyError(k)


def evaluate(prog, args):
    env = {f"a{i}": v % M32 for i, v in enumerate(args)}
    run_stmts(prog["body"], env)
    return [env[r] for r in prog["ret"]]


# ---------------------------------------------------------------------------------------------------- MLIR text
def _is_i1(prog, name):
    def find(stmts):
        for s in stmts:
            if s[1] == name:
                return s[0] == "cmp"
            if s[0] in ("for", "forv"):
                r = find(s[-2])
                if r is not None:
                    return r
        return None
    return bool(find(prog["body"]))


def to_mlir(prog):
    out = []
    n = prog["nargs"]
    rtys = ["i1" if _is_i1(prog, r) else "i32" for r in prog["ret"]]
    out.append("func.func @f(" + ", ".join(f"%a{i}: i32" for i in range(n)) + ") -> (" + ", ".join(rtys) + ") {")
    cnt = [0]

    def fresh():
        cnt[0] += 1
        return f"%t{cnt[0]}"

    def emit(stmts, ind):
        p = "  " * ind
        for s in stmts:
            k = s[0]
            if k == "const":
                out.append(f"{p}%{s[1]} = arith.constant {rv.s32(s[2])} : i32")
            elif k == "bin":
                out.append(f"{p}%{s[1]} = arith.{s[2]} %{s[3]}, %{s[4]} : i32")
            elif k == "cmp":
                out.append(f"{p}%{s[1]} = arith.cmpi {s[2]}, %{s[3]}, %{s[4]} : i32")
            else:
                if k == "for":
                    _, dst, lb, ub, step, init, iv, acc, body, yielded = s
                    l, u = fresh(), fresh()
                    out.append(f"{p}{l} = arith.constant {lb} : index")
                    out.append(f"{p}{u} = arith.constant {ub} : index")
                else:
                    _, dst, ubv, step, init, iv, acc, body, yielded = s
                    l, u, c7, m = fresh(), fresh(), fresh(), fresh()
                    out.append(f"{p}{l} = arith.constant 0 : index")
                    out.append(f"{p}{c7} = arith.constant 7 : i32")
                    out.append(f"{p}{m} = arith.andi %{ubv}, {c7} : i32")
                    out.append(f"{p}{u} = arith.index_cast {m} : i32 to index")
                st = fresh()
                out.append(f"{p}{st} = arith.constant {step} : index")
                ivx = fresh()
                out.append(f"{p}%{dst} = scf.for {ivx} = {l} to {u} step {st} iter_args(%{acc} = %{init}) -> (i32) {{")
                out.append(f"{p}  %{iv} = arith.index_cast {ivx} : index to i32")
                emit(body, ind + 1)
                out.append(f"{p}  scf.yield %{yielded} : i32")
                out.append(f"{p}}}")
    emit(prog["body"], 1)
    out.append("  func.return " + ", ".join(f"%{r}" for r in prog["ret"]) + " : " + ", ".join(rtys))
    out.append("}")
    return "\n".join(out) + "\n"


# ---------------------------------------------------------------------------------------------------- generator
CONSTS = [0, 1, 2, 3, 5, 7, 8, 31, 100, 255, 2047, -1, -2, -7, -2048, 1000, 1234]
BIGCONSTS = [2048, 5000, 65535, 65536, 0x7FFFFFFF, -0x80000000, 0x12345678, -5000, 46341]


class Gen:
    def __init__(self, rng, big):
        self.rng = rng
        self.big = big
        self.n = 0
        self.kinds = set()

    def name(self):
        self.n += 1
        return f"v{self.n}"

    def const(self, stmts, c=None):
        rng = self.rng
        if c is None:
            c = rng.choice(BIGCONSTS) if (self.big and rng.random() < 0.3) else rng.choice(CONSTS)
        v = self.name()
        stmts.append(["const", v, c % M32])
        return v

    def operand(self, stmts, vals):
        return self.const(stmts) if self.rng.random() < 0.25 else self.rng.choice(vals)

    def binop(self, stmts, vals):
        rng = self.rng
        op = rng.choice(BINOPS if rng.random() < 0.8 else ["addi", "subi", "muli", "xori"])
        x = self.operand(stmts, vals)
        if op in ("shli", "shrsi", "shrui"):
            if rng.random() < 0.5:
                y = self.const(stmts, rng.choice([0, 1, 2, 5, 16, 30, 31]))
            else:
                m = self.const(stmts, 31)
                y = self.name()
                stmts.append(["bin", y, "andi", rng.choice(vals), m])
        elif op in ("divui", "remui"):
            o = self.const(stmts, 1)
            y = self.name()
            stmts.append(["bin", y, "ori", rng.choice(vals), o])
        elif op in ("divsi", "remsi"):
            y = self.const(stmts, rng.choice([1, 2, 3, 7, 10, 1000]))
        else:
            y = self.operand(stmts, vals)
        v = self.name()
        stmts.append(["bin", v, op, x, y])
        self.kinds.add(op)
        return v

    def block(self, stmts, vals, depth, nops):
        rng = self.rng
        vals = list(vals)
        for _ in range(nops):
            r = rng.random()
            if r < 0.18 and depth < 2:
                vals.append(self.loop(stmts, vals, depth))
            else:
                vals.append(self.binop(stmts, vals))
        return vals

    def loop(self, stmts, vals, depth):
        rng = self.rng
        init = rng.choice(vals)
        iv, acc, dst = self.name(), self.name(), self.name()
        body = []
        inner = self.block(body, vals + [iv, acc], depth + 1, rng.randint(1, 3))
        yielded = inner[-1] if rng.random() < 0.8 else rng.choice(inner)
        if rng.random() < 0.7:
            lb = rng.choice([0, 0, 1, 2, 3])
            ub = rng.choice([0, 1, 2, 3, 4, 5, 6])
            step = rng.choice([1, 1, 2, 3])
            stmts.append(["for", dst, lb, ub, step, init, iv, acc, body, yielded])
            self.kinds.add("for")
        else:
            stmts.append(["forv", dst, rng.choice(vals), rng.choice([1, 1, 2]), init, iv, acc, body, yielded])
            self.kinds.add("forv")
        return dst


def gen_program(rng: random.Random, big=False, with_cmp=True):
    g = Gen(rng, big)
    nargs = rng.randint(1, 4) if rng.random() < 0.85 else rng.randint(5, 8)
    vals = [f"a{i}" for i in range(nargs)]
    body = []
    vals = g.block(body, vals, 0, rng.randint(1, 7))
    top = [v for v in vals]
    ret = [top[-1] if rng.random() < 0.7 else rng.choice(top)]
    if with_cmp and rng.random() < 0.45:
        c = g.name()
        pred = rng.choice(PREDS)
        body.append(["cmp", c, pred, rng.choice(top), g.operand(body, top)])
        ret.append(c)
        g.kinds.add("cmpi-" + pred)
    return {"nargs": nargs, "body": body, "ret": ret, "kinds": sorted(g.kinds), "big": big}


def preds_used(prog):
    out = set()

    def go(stmts):
        for s in stmts:
            if s[0] == "cmp":
                out.add(s[2])
            elif s[0] in ("for", "forv"):
                go(s[-2])
    go(prog["body"])
    return out


# ---------------------------------------------------------------------------------------------------- lowering
def pipeline_passes():
    from xdsl.backend.riscv.lowering.convert_arith_to_riscv import ConvertArithToRiscvPass
    from xdsl.backend.riscv.lowering.convert_func_to_riscv_func import ConvertFuncToRiscvFuncPass
    from xdsl.backend.riscv.lowering.convert_riscv_scf_to_riscv_cf import ConvertRiscvScfToRiscvCfPass
    from xdsl.backend.riscv.lowering.convert_scf_to_riscv_scf import ConvertScfToRiscvPass
    from xdsl.backend.riscv.prologue_epilogue_insertion import PrologueEpilogueInsertion
    from xdsl.transforms.canonicalize import CanonicalizePass
    from xdsl.transforms.reconcile_unrealized_casts import ReconcileUnrealizedCastsPass
    from xdsl.transforms.riscv_allocate_registers import RISCVAllocateRegistersPass
    from xdsl.transforms.riscv_lower_parallel_mov import RISCVLowerParallelMovPass
    return [ConvertFuncToRiscvFuncPass(), ConvertScfToRiscvPass(), ConvertArithToRiscvPass(),
            ReconcileUnrealizedCastsPass(), CanonicalizePass(), RISCVAllocateRegistersPass(),
            RISCVLowerParallelMovPass(), CanonicalizePass(), PrologueEpilogueInsertion(),
            ConvertRiscvScfToRiscvCfPass(), CanonicalizePass()]


_CTX = None


def _ctx():
    from xdsl.context import Context
    from xdsl.dialects import arith, builtin, func, riscv, riscv_cf, riscv_func, riscv_scf, rv32, scf
    c = Context()
    for d in (builtin.Builtin, arith.Arith, func.Func, scf.Scf, riscv.RISCV, riscv_func.RISCV_Func,
              riscv_scf.RISCV_Scf, riscv_cf.RISCV_Cf, rv32.RV32):
        c.load_dialect(d)
    return c


def lower(prog, passes=None):
    """-> ("asm", text) | ("unsupported", what) | ("raise", exception code, pass name, raising pattern, message)"""
    from xdsl.dialects.riscv import riscv_code
    from xdsl.parser import Parser
    ctx = _ctx()
    module = Parser(ctx, to_mlir(prog)).parse_module()
    module.verify()
    for p in (passes or pipeline_passes()):
        try:
            p.apply(ctx, module)
            module.verify()
        except NotImplementedError as e:
            return ("unsupported", f"{p.name}: {e}"[:120])
        except BaseException as e:
            return ("raise", exc_code(e), p.name, raising_pattern(e), f"{type(e).__name__}: {e}"[:160])
    try:
        return ("asm", riscv_code(module))
    except BaseException as e:
        return ("raise", exc_code(e), "riscv-asm", -1, f"{type(e).__name__}: {e}"[:160])


# ---------------------------------------------------------------------------------------------------- execution
STACK_TOP = 0x7FFF0000
RA_SENTINEL = 0xDEAD0000


def run_compiled(asm, args, seed):
    r = random.Random(seed)
    x = [r.getrandbits(32) for _ in range(32)]
    f = [r.getrandbits(64) for _ in range(32)]
    x[0] = 0
    x[2] = STACK_TOP - 16 * r.randint(0, 64)
    x[1] = RA_SENTINEL
    for i, a in enumerate(args):
        x[10 + i] = a % M32
    m = rv.Machine(x, f, {})
    before = (list(m.x), list(m.f))
    rv.run_asm(asm, "f", m)
    return before, m


def check_program(prog, asm, trials, seed):
    """-> (ok, why).  Raises rv.AsmError if the reference machine lacks an instruction."""
    r = random.Random(seed)
    edge = [0, 1, 2, 7, 0xFFFFFFFF, 0x7FFFFFFF, 0x80000000, 31, 32, 0xFFFFFFF8]
    for t in range(trials):
        args = [r.choice(edge) if r.random() < 0.4 else r.getrandbits(32) for _ in range(prog["nargs"])]
        want = evaluate(prog, args)
        (x0, f0), m = run_compiled(asm, args, r.getrandbits(32))
        got = [m.x[10 + i] for i in range(len(want))]
        if got != want:
            return False, f"f({', '.join(hex(a) for a in args)}) returns {[hex(g) for g in got]}, the source computes {[hex(w) for w in want]}"
        if m.x[2] != x0[2]:
            return False, f"sp is {m.x[2]:#x} at the return, {x0[2]:#x} on entry"
        for i in rv.CALLEE_SAVED_X:
            if m.x[i] != x0[i]:
                return False, f"callee-saved x{i} changed from {x0[i]:#x} to {m.x[i]:#x}"
        for i in rv.CALLEE_SAVED_F:
            if m.f[i] != f0[i]:
                return False, f"callee-saved f{i} changed"
        if m.x[1] != x0[1]:
            return False, "ra changed in a leaf function"
        for (addr, n) in m.trace:
            if not (m.x[2] - 4096 <= addr < m.x[2]):
                return False, f"store outside the function's own frame at {addr:#x}"
    return True, ""


# ---------------------------------------------------------------------------------------------------- float constants
# Case {"ty": "f64"|"f32", "consts": [bit patterns], "arg": bits | None}:  f(arg?) = (arg +) c0 + c1 + ...
# (one constant and no arg: the constant is returned as is).  Oracle: the bit pattern in fa0.
F64_BOUNDARY = [0x0, 0x8000000000000000, 0x3FF0000000000000, 0xBFF0000000000000, 0x3FF8000000000000,
                0x41E0000000000000,            # 2^31
                0x41DFFFFFFFC00000,            # 2^31 - 1
                0xC1E0000000000000,            # -2^31
                0xC1E0000000200000,            # -2^31 - 1
                0x41E0000000100000,            # 2^31 + 0.5
                0x41E65A0BC0000000,            # 3000000000
                0x41EFFFFFFFE00000,            # 2^32 - 1
                0x41F0000000000000,            # 2^32
                0x4340000000000000,            # 2^53
                0x4340000000000001,            # 2^53 + 2
                0x7E37E43C8800759C,            # 1e300
                0x0000000000000001,            # smallest denormal
                0x7FF0000000000000, 0xFFF0000000000000,      # +-inf
                0x7FF8000000000000, 0x7FF8000000000001, 0xFFF8000000000000]   # quiet NaNs (payload, sign)
F32_BOUNDARY = [0x0, 0x80000000, 0x3F800000, 0xBF800000, 0x3FC00000, 0x4B800000, 0x4B7FFFFF, 0x4F000000, 0xCF000000,
                0x4F800000, 0x7F7FFFFF, 0x00000001, 0x7F800000, 0xFF800000, 0x7FC00000, 0x7FC00001, 0xFFC00000]


def _is_nan(ty, b):
    if ty == "f64":
        return (b >> 52) & 0x7FF == 0x7FF and b & ((1 << 52) - 1) != 0
    return (b >> 23) & 0xFF == 0xFF and b & ((1 << 23) - 1) != 0


def gen_float_case(rng):
    ty = rng.choice(["f64", "f64", "f32"])
    pool = F64_BOUNDARY if ty == "f64" else F32_BOUNDARY

    def val(allow_nan):
        if rng.random() < 0.75:
            b = rng.choice(pool)
        elif ty == "f64":
            b = rv.d2bits(float(rng.randint(-(1 << 33), 1 << 33)) + rng.choice([0.0, 0.0, 0.5, 0.25]))
        else:
            b = rv.round_s(float(rng.randint(-(1 << 26), 1 << 26)) / rng.choice([1, 2, 8]))
        if not allow_nan and _is_nan(ty, b):
            b = pool[2]
        return b
    shape = rng.random()
    if shape < 0.55:
        return {"ty": ty, "consts": [val(True)], "arg": None}
    if shape < 0.8:
        return {"ty": ty, "consts": [val(False), val(False)], "arg": None}
    return {"ty": ty, "consts": [val(False)], "arg": val(False)}


def float_expected(case):
    """bit pattern of the result by IEEE-754 arithmetic, None if it is a NaN produced by an addition
    (inf + -inf: the payload is not specified by the source semantics)"""
    ty, cs = case["ty"], case["consts"]
    if len(cs) == 1 and case["arg"] is None:
        return cs[0]
    if ty == "f64":
        acc = rv.bits2d(cs[0])
        for c in cs[1:]:
            acc = acc + rv.bits2d(c)
        if case["arg"] is not None:
            acc = rv.bits2d(case["arg"]) + acc
        return None if acc != acc else rv.d2bits(acc)
    acc = rv.bits2s(cs[0])
    for c in cs[1:]:
        acc = rv.bits2s(rv.round_s(acc + rv.bits2s(c)))
    if case["arg"] is not None:
        acc = rv.bits2s(rv.round_s(rv.bits2s(case["arg"]) + acc))
    return None if acc != acc else rv.round_s(acc)


def build_float_module(case):
    from xdsl.dialects import arith, builtin, func
    from xdsl.dialects.builtin import FloatAttr, f32, f64
    from xdsl.ir import Block, Region
    ty = f64 if case["ty"] == "f64" else f32
    tof = rv.bits2d if case["ty"] == "f64" else rv.bits2s
    blk = Block(arg_types=[ty] if case["arg"] is not None else [])
    cs = [arith.ConstantOp(FloatAttr(tof(b), ty)) for b in case["consts"]]
    for c in cs:
        blk.add_op(c)
    cur = cs[0].result
    for c in cs[1:]:
        a = arith.AddfOp(cur, c.result)
        blk.add_op(a)
        cur = a.result
    if case["arg"] is not None:
        a = arith.AddfOp(blk.args[0], cur)
        blk.add_op(a)
        cur = a.result
    blk.add_op(func.ReturnOp(cur))
    f = func.FuncOp("f", ((ty,) if case["arg"] is not None else (), (ty,)), Region(blk))
    return builtin.ModuleOp([f])


def run_float_case(case, passes=None):
    """-> ["ok"] | ["skip", why] | ["fail", why] | ["raise", code, pass, message]"""
    from xdsl.dialects.riscv import riscv_code
    want = float_expected(case)
    if want is None:
        return ["skip", "NaN produced by an addition"]
    ctx = _ctx()
    module = build_float_module(case)
    module.verify()
    for p in (passes or pipeline_passes()):
        try:
            p.apply(ctx, module)
            module.verify()
        except NotImplementedError as e:
            return ["skip", f"unsupported: {p.name}: {e}"[:100]]
        except BaseException as e:
            return ["raise", exc_code(e), p.name, f"{type(e).__name__}: {e}"[:160]]
    asm = riscv_code(module)
    for seed in range(2):
        r = random.Random(seed)
        x = [r.getrandbits(32) for _ in range(32)]
        f = [r.getrandbits(64) for _ in range(32)]
        x[0], x[1], x[2] = 0, RA_SENTINEL, STACK_TOP - 16 * r.randint(0, 64)
        if case["arg"] is not None:
            f[10] = case["arg"] if case["ty"] == "f64" else (rv.BOX | case["arg"])
        m = rv.Machine(x, f, {})
        x0, f0 = list(m.x), list(m.f)
        try:
            rv.run_asm(asm, "f", m)
        except rv.AsmError as e:
            return ["skip", f"reference machine: {e}"]
        except rv.AsmInvalid as e:
            return ["fail", f"emitted assembly is not encodable: {e}"]
        got = m.f[10] if case["ty"] == "f64" else rv.unbox(m.f[10])
        if got != want:
            return ["fail", f"{case['ty']} result has bits {got:#x}, the source denotes {want:#x} "
                            f"(constants {[hex(c) for c in case['consts']]}, argument {case['arg']})"]
        if m.x[2] != x0[2] or any(m.x[i] != x0[i] for i in rv.CALLEE_SAVED_X) or \
                any(m.f[i] != f0[i] for i in rv.CALLEE_SAVED_F):
            return ["fail", "sp or a callee-saved register is not restored"]
    return ["ok"]
