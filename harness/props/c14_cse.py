"""C14, kernel (c): generated nested programs for the real `cse` pass vs coq/C14/ModelCSE.v.

A program is a python tree mirroring the model's syntax:
  op     = {"kind", "key", "rtys", "args", "res", "regions"}      kind in KINDS below
  region = None (empty region) | {"bargs": [ids], "ops": [op, ...]}
SSA values are numbered (block arguments and results, in creation order); i1 values are those in
prog["i1"] (needed as scf.if conditions), every other value is i32.
Op kinds and the xDSL op they become:
  pure  test.pureop (Pure)                 read  test.op_with_memread (MemoryReadEffect)
  write test.op_with_memwrite (MemoryWrite) unk   test.op (no MemoryEffect trait)
  if    scf.if (RecursiveMemoryEffect)      yield scf.yield (terminator, Pure)
  term  test.termop (terminator)            ret   func.return (terminator)
`key` becomes the property prop1 (an i32 IntegerAttr), so ops of one kind with equal key, equal result
types, equal operands (and equivalent regions) are the CSE candidates.
"""
from __future__ import annotations

from harness.common import coq_bool, coq_list, coq_nat, coq_nats

EFF = {"pure": 0, "read": 1, "write": 2, "if": 3, "unk": 4, "term": 4, "ret": 4, "yield": 0}
TERMS = ("term", "ret", "yield")


# ---------------------------------------------------------------------------- generation
class Gen:
    def __init__(self, rng):
        self.rng = rng
        self.next = 0
        self.i1 = set()
        self.templates = []

    def fresh(self, is_i1=False):
        v = self.next
        self.next += 1
        if is_i1:
            self.i1.add(v)
        return v

    def pick(self, scope, n):
        return [self.rng.choice(scope) for _ in range(n)] if scope else []

    def leaf(self, scope, kind=None):
        rng = self.rng
        kind = kind or rng.choices(["pure", "read", "write", "unk"], [8, 5, 2, 1])[0]
        nres = rng.choices([0, 1, 2], [1, 8, 2])[0]
        rtys = [rng.random() < 0.25 for _ in range(nres)]       # True = i1
        # few distinct keys and few distinct operands: duplicates are likely
        narg = rng.choices([0, 1, 2], [2, 5, 3])[0]
        pool = scope[-4:] if rng.random() < 0.7 else scope
        return {"kind": kind, "key": rng.randrange(2), "rtys": rtys, "args": self.pick(pool, narg),
                "res": [self.fresh(t) for t in rtys], "regions": []}

    def block(self, scope, depth, n, term_kind, nyield):
        rng = self.rng
        scope = list(scope)
        ops = []
        outer_templates, self.templates = self.templates, []      # templates are per block (operands in scope)
        for _ in range(n):
            r = rng.random()
            conds = [v for v in scope if v in self.i1]
            if depth > 0 and r < 0.14 and conds:
                ny = rng.choice([0, 1, 1, 2])
                rtys = [False] * ny
                has_else = ny > 0 or rng.random() < 0.6
                cond = rng.choice(conds)
                # a duplicate scf.if (same condition) is made likely by reusing the last condition
                regs = [self.region(scope, depth - 1, [], "yield", ny),
                        self.region(scope, depth - 1, [], "yield", ny) if has_else else None]
                op = {"kind": "if", "key": 0, "rtys": rtys, "args": [cond], "res": [self.fresh() for _ in rtys],
                      "regions": regs}
            elif depth > 0 and r < 0.24:
                kind = rng.choice(["pure", "pure", "read", "unk", "write"])
                op = self.leaf(scope, kind)
                # region-carrying test ops get their own keys: OperationInfo.__eq__ zips the region lists
                # with strict=True and raises ValueError when two otherwise equal ops differ in their NUMBER
                # of regions -- impossible for func/arith/scf/cf ops (fixed region counts), so kept out of
                # the generated programs (reported as an observation, outside the property's quantifier)
                op["key"] += 2
                nb = rng.choice([0, 1])
                op["regions"] = [self.region(scope, depth - 1, [self.fresh() for _ in range(nb)], "term",
                                             rng.choice([0, 1]))]
            elif depth > 0 and r < 0.30:
                # a PURE multi-region op (scf.if on an i1 in scope, or a test.pureop / test.op_with_memread with two
                # regions) followed later by near-copies of it: same name / operands / properties / result types,
                # regions copied with fresh values and then left identical, or changed in exactly ONE region
                # (first, or a later one) -- CSE must merge the identical copy and only that one
                op = self.multi_region_pure(scope, depth, conds)
                self.templates.append(op)
            elif r < 0.42 and self.templates and rng.random() < 0.9:
                op = self.near_copy(rng.choice(self.templates), scope)
                op["_watch"] = True
            elif r < 0.50 and ops and rng.random() < 0.9:
                # an exact duplicate of an earlier op of this block (same kind/key/types/operands)
                src = rng.choice([o for o in ops if not o["regions"]] or [None])
                if src is None:
                    op = self.leaf(scope)
                else:
                    op = {"kind": src["kind"], "key": src["key"], "rtys": list(src["rtys"]), "args": list(src["args"]),
                          "res": [self.fresh(t) for t in src["rtys"]], "regions": []}
            else:
                op = self.leaf(scope)
            ops.append(op)
            scope += op["res"]
        ops.append({"kind": term_kind, "key": 0, "rtys": [], "args": self.pick_typed(scope, nyield), "res": [],
                    "regions": []})
        self.templates = outer_templates
        return ops

    # ---- pure multi-region ops and their near-copies
    def pure_region(self, scope, bargs, term_kind, nyield):
        rng = self.rng
        sc = list(scope) + bargs
        ops = []
        for _ in range(rng.randint(1, 3)):
            o = self.leaf(sc, "pure")
            if not o["rtys"]:
                o["rtys"], o["res"] = [False], [self.fresh()]
            ops.append(o)
            sc += o["res"]
        ys = self.pick_typed(sc, nyield)
        ops.append({"kind": term_kind, "key": 0, "rtys": [], "args": ys, "res": [], "regions": []})
        return {"bargs": bargs, "ops": ops}

    def multi_region_pure(self, scope, depth, conds):
        rng = self.rng
        if conds and rng.random() < 0.65:
            ny = rng.choice([1, 1, 2])
            return {"kind": "if", "key": 0, "rtys": [False] * ny, "args": [rng.choice(conds)],
                    "res": [self.fresh() for _ in range(ny)],
                    "regions": [self.pure_region(scope, [], "yield", ny), self.pure_region(scope, [], "yield", ny)]}
        op = self.leaf(scope, rng.choice(["pure", "pure", "read"]))
        if not op["rtys"]:
            op["rtys"], op["res"] = [False], [self.fresh()]
        op["key"] += 4                      # two-region test ops have their own keys (see the note above)
        op["regions"] = [self.pure_region(scope, [], "term", 1), self.pure_region(scope, [], "term", 1)]
        return op

    def clone_op(self, o, m):
        new = {"kind": o["kind"], "key": o["key"], "rtys": list(o["rtys"]), "args": [m.get(a, a) for a in o["args"]],
               "res": [], "regions": []}
        for r in o["regions"]:
            if r is None:
                new["regions"].append(None)
                continue
            bargs = []
            for b in r["bargs"]:
                m[b] = self.fresh(b in self.i1)
                bargs.append(m[b])
            new["regions"].append({"bargs": bargs, "ops": [self.clone_op(x, m) for x in r["ops"]]})
        for v, t in zip(o["res"], o["rtys"]):
            m[v] = self.fresh(t)
            new["res"].append(m[v])
        return new

    def near_copy(self, tmpl, scope):
        rng = self.rng
        op = self.clone_op(tmpl, {})
        how = rng.choice(["same", "first", "later", "later"])
        if how == "same":
            return op
        j = 0 if how == "first" else rng.randrange(1, len(op["regions"]))
        reg = op["regions"][j]
        leaves = [x for x in reg["ops"][:-1] if not x["regions"]]
        outer = [v for v in scope if v not in self.i1]
        if leaves and rng.random() < 0.6:
            x = rng.choice(leaves)
            x["key"] = 1 - x["key"] if x["key"] in (0, 1) else x["key"] + 1       # a different constant / op
        elif reg["ops"][-1]["args"] and outer:
            t = reg["ops"][-1]
            i = rng.randrange(len(t["args"]))
            cand = [v for v in outer if v != t["args"][i]]
            if cand:
                t["args"][i] = rng.choice(cand)                                # yields another value
        return op

    def pick_typed(self, scope, n):
        i32s = [v for v in scope if v not in self.i1]
        if not i32s:
            return []
        return [self.rng.choice(i32s) for _ in range(n)]

    def region(self, scope, depth, bargs, term_kind, nyield):
        ops = self.block(list(scope) + bargs, depth, self.rng.randint(1, 5), term_kind, nyield)
        if len(ops[-1]["args"]) != nyield:
            # not enough i32 values in scope: add a pure producer
            p = {"kind": "pure", "key": 7, "rtys": [False], "args": [], "res": [self.fresh()], "regions": []}
            ops.insert(len(ops) - 1, p)
            ops[-1]["args"] = [p["res"][0]] * nyield
        return {"bargs": bargs, "ops": ops}


def gen_program(rng, size=None):
    g = Gen(rng)
    a, b = g.fresh(), g.fresh(True)
    n = size or rng.randint(4, 14)
    ops = g.block([a, b], 2, n, "ret", rng.randint(1, 3))
    if not ops[-1]["args"]:
        ops[-1]["args"] = [a]
    # the results of the near-copies (and of what they copy) are returned, so a wrong merge is observable
    for o in ops[:-1]:
        if o.get("_watch") or (o["regions"] and o["kind"] in ("if", "pure", "read") and len(o["regions"]) > 1):
            ops[-1]["args"] += [v for v in o["res"] if v not in g.i1][:2]
    return {"bargs": [a, b], "ops": ops, "i1": sorted(g.i1)}


# ---------------------------------------------------------------------------- to xDSL
def build(prog):
    """-> (module, func op, {SSAValue: id})"""
    from xdsl.dialects import func, scf, test
    from xdsl.dialects.builtin import IntegerAttr, IntegerType, ModuleOp
    from xdsl.ir import Block, Region
    i32, i1 = IntegerType(32), IntegerType(1)
    i1s = set(prog["i1"])
    ids = {}
    vals = {}

    def ty(v):
        return i1 if v in i1s else i32

    def mk_block(bargs, ops):
        blk = Block(arg_types=[ty(v) for v in bargs])
        for v, ba in zip(bargs, blk.args):
            vals[v] = ba
            ids[ba] = v
        for o in ops:
            regions = []
            for r in o["regions"]:
                regions.append(Region() if r is None else Region(mk_block(r["bargs"], r["ops"])))
            args = [vals[a] for a in o["args"]]
            rt = [i1 if t else i32 for t in o["rtys"]]
            k = o["kind"]
            props = {"prop1": IntegerAttr(o["key"], 32)}
            if k == "pure":
                x = test.TestPureOp(args, rt, properties=props, regions=regions)
            elif k == "read":
                x = test.TestReadOp(args, rt, properties=props, regions=regions)
            elif k == "write":
                x = test.TestWriteOp(args, rt, properties=props, regions=regions)
            elif k == "unk":
                x = test.TestOp(args, rt, properties=props, regions=regions)
            elif k == "if":
                x = scf.IfOp(args[0], rt, regions[0], regions[1])
            elif k == "yield":
                x = scf.YieldOp(*args)
            elif k == "term":
                x = test.TestTermOp(args)
            elif k == "ret":
                x = func.ReturnOp(*args)
            else:
                raise ValueError(k)
            blk.add_op(x)
            for v, r in zip(o["res"], x.results):
                vals[v] = r
                ids[r] = v
        return blk

    body = mk_block(prog["bargs"], prog["ops"])
    ret = prog["ops"][-1]
    f = func.FuncOp("f", ([ty(v) for v in prog["bargs"]], [ty(v) for v in ret["args"]]), Region(body))
    m = ModuleOp([f])
    m.verify()
    return m, f, ids


class Keys:
    """interning of (name, attributes, properties, result types) -> k // 8"""

    def __init__(self):
        self.tab = {}

    def key(self, kind, key, rtys):
        t = (kind, key if kind in ("pure", "read", "write", "unk") else 0, tuple(bool(x) for x in rtys))
        if t not in self.tab:
            self.tab[t] = len(self.tab)
        return self.tab[t] * 8 + EFF[kind]


def intern_prog(prog):
    keys = Keys()

    def walk(ops):
        for o in ops:
            o["k"] = keys.key(o["kind"], o["key"], o["rtys"])
            for r in o["regions"]:
                if r is not None:
                    walk(r["ops"])
    walk(prog["ops"])
    return keys


def coq_region(r):
    if r is None:
        return "REmpty"
    return f"(RSingle {coq_nats(r['bargs'])} (ops_of {coq_list(coq_op(o) for o in r['ops'])}))"


def coq_op(o):
    return (f"Op {coq_nat(o['k'])} false {coq_bool(o['kind'] in TERMS)} false {coq_nats(o['args'])} "
            f"{coq_nats(o['res'])} (regions_of {coq_list(coq_region(r) for r in o['regions'])})")


def tokens(r):
    """flat token list of coq/C14/Enc.v dec_program"""
    if r is None:
        return [0]
    out = [1, len(r["bargs"]), *r["bargs"], len(r["ops"])]
    for o in r["ops"]:
        out += [o["k"], int(o["kind"] in TERMS), len(o["args"]), *o["args"], len(o["res"]), *o["res"],
                len(o["regions"])]
        for x in o["regions"]:
            out += tokens(x)
    return out


def coq_expr(prog, full=False):
    intern_prog(prog)
    return f"c14_cse_tok{'_full' if full else ''} [" + "; ".join(map(str, tokens(prog))) + "]"


KIND_OF_NAME = {"test.pureop": "pure", "test.op_with_memread": "read", "test.op_with_memwrite": "write",
                "test.op": "unk", "scf.if": "if", "scf.yield": "yield", "test.termop": "term", "func.return": "ret"}


def dump_region(region, ids, keys):
    if not region.blocks:
        return 0
    blk = region.blocks[0]
    out = []
    for x in blk.ops:
        kind = KIND_OF_NAME[x.name]
        key = x.properties["prop1"].value.data if "prop1" in x.properties else 0
        rtys = [r.type.width.data == 1 for r in x.results]
        out.append([keys.key(kind, key, rtys), 0, [ids[a] for a in x.operands], [ids[r] for r in x.results],
                    [dump_region(r, ids, keys) for r in x.regions]])
    return [[ids[a] for a in blk.args], out]


def impl(prog):
    from xdsl.transforms.common_subexpression_elimination import CommonSubexpressionElimination
    keys = intern_prog(prog)
    m, f, ids = build(prog)
    try:
        CommonSubexpressionElimination().apply(None, m)
        m.verify()
    except Exception:
        return [1, []]
    return [1, [digest(dump_region(f.body, ids, keys))]]


HP = (1 << 61) - 1


def digest(x, acc=0):
    """the same digest as coq/C14/Enc.v hash_sx"""
    if isinstance(x, int):
        return (acc * 1000003 + x + 7) % HP
    a = (acc * 1000003 + 3) % HP
    for y in x:
        a = digest(y, a)
    return (a * 1000003 + 5) % HP


def impl_full(prog):
    from xdsl.transforms.common_subexpression_elimination import CommonSubexpressionElimination
    keys = intern_prog(prog)
    m, f, ids = build(prog)
    try:
        CommonSubexpressionElimination().apply(None, m)
        m.verify()
    except Exception:
        return None
    return dump_region(f.body, ids, keys)


# ---------------------------------------------------------------------------- independent semantics
M64 = (1 << 61) - 1


def H(*xs):
    h = 1469598103934665603
    for x in xs:
        h = ((h ^ (x + 0x9E3779B97F4A7C15)) * 1099511628211) % M64
    return h


class Sem:
    """uninterpreted-but-concrete semantics of the test ops respecting their declared memory effects"""

    def __init__(self, eff_of_k, force=None):
        self.eff = eff_of_k
        self.force = force          # None: scf.if follows its condition; 0 / 1: every scf.if takes else / then

    def region(self, r, env, bvals, mem):
        if r == 0 or r is None:
            return [], mem
        bargs, ops = r
        env = dict(env)
        for a, v in zip(bargs, bvals):
            env[a] = v
        for i, o in enumerate(ops):
            k, _, args, res, regions = o
            av = [env[a] for a in args]
            if i == len(ops) - 1:
                return av, mem
            e = self.eff(k)
            if e == 3:      # scf.if: run the selected region, results = yielded values, memory from the region
                take = (av[0] & 1) if self.force is None else self.force
                which = regions[0] if take else regions[1]
                ys, mem = self.region(which, env, [], mem)
                vals = ys
            else:
                seed = H(k, 77, *av)
                if e == 0:      # pure (even when it has regions): a function of the operands and of what the
                    ys = []     # regions compute from memory-independent inputs
                    for r2 in regions:
                        y, _ = self.region(r2, env, [H(seed, 5)] * 4, 0)
                        ys += y
                    vals = [H(seed, i2, *ys) for i2 in range(len(res))]
                elif e == 1:    # read-only
                    ys = []
                    for r2 in regions:
                        y, _ = self.region(r2, env, [H(seed, 5)] * 4, mem)
                        ys += y
                    vals = [H(seed, i2, mem, *ys) for i2 in range(len(res))]
                else:           # write / unknown: regions run in sequence, memory advances
                    ys = []
                    for r2 in regions:
                        y, mem = self.region(r2, env, [H(seed, 5)] * 4, mem)
                        ys += y
                    mem = H(mem, seed, *ys)
                    vals = [H(seed, i2, mem) for i2 in range(len(res))]
            for r_, v in zip(res, vals):
                env[r_] = v
        return [], mem


def to_dump(prog):
    """the input program in the dump format (for evaluating it before the pass)"""
    def reg(r):
        if r is None:
            return 0
        return [r["bargs"], [[o["k"], 0, o["args"], o["res"], [reg(x) for x in o["regions"]]] for o in r["ops"]]]
    return reg(prog)


def holds(prog, res):
    if not res[1]:
        return False, "cse raised / left unverifiable IR on a valid program"
    intern_prog(prog)
    before, after = to_dump(prog), impl_full(prog)
    for force in (None, 0, 1):          # both branches of every scf.if are exercised
        sem = Sem(lambda k: k % 8, force)
        for inputs in ([0, 0], [1, 1], [12345, 0], [7, 1]):
            r1 = sem.region(before, {}, inputs, 99)
            r2 = sem.region(after, {}, inputs, 99)
            if r1 != r2:
                return False, (f"on inputs {inputs} (scf.if branches forced: {force}) the function returned/left "
                               f"memory {r1} before cse and {r2} after")
    return True, ""


def count_ops(r):
    if r == 0 or r is None:
        return 0
    return sum(1 + sum(count_ops(x) for x in o[4]) for o in r[1])


def nontrivial(prog, res):
    if res[1] and res[1][0] != digest(to_dump(prog)):
        return res[1][0]
    return None
