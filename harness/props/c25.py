"""C25 -- Liveness data-flow analysis computes its specified fixpoint under any schedule.

Tie: hand-written Coq model (coq/C25/Model.v) of DataFlowSolver + DeadCodeAnalysis + the sparse backward
LivenessAnalysis vs the REAL classes.  The real solver is run unmodified except that (a) `solver._worklist`
is replaced (from the harness, no edit of /repo) by a container whose popleft() removes the member chosen by
the case's pop policy (FIFO = the real deque, LIFO, or an explicit seeded random choice sequence) and (b)
logging subclasses record every analysis.visit, solver.enqueue and state flip.  The model is run with the
same load order and the same choice sequence.  Compared: the whole event log (visits, enqueues, flips, in
order), the final lattice of every value (no state / dead / live), every lattice's `dependents`, the
Executable state, the final worklist.
Programs: generated single-block functions (func.func public/private, detached or inside a module, run on the
func) and bare module bodies, with arith/memref/func/test ops: pure ops, read-only ops, ops with write or
unknown effects (memref.store, func.call, test.op, test.op_with_memwrite), dead chains, multi-result ops,
func.return of 0..3 values, plus a stream with forward/self references (graph-like use-before-def).
Each program is run under both load orders and several pop policies.
Oracle (independent of model and of would_be_trivially_dead): backward reachability in python from the
operands of the ops whose KIND is effectful / terminator (a fixed table in this file); the real solver's
final `is_live` of every value must equal it for every schedule and load order of the same program.
Non-trivial: the program has a value that is live only through a chain (not a direct operand of a root op)
and a dead value that has a user; distinct = distinct (program, load order, pop sequence).
"""
from __future__ import annotations

from harness.common import Ctx, DiffSpec, coq_bool, coq_list, coq_nat, coq_nats, differential, replay_findings

META = {
    "id": "C25",
    "title": "Liveness data-flow analysis computes its specified fixpoint under any schedule",
    "design_ref": "DESIGN.md section 8.C25",
    "technique": "Coq proof of a chaotic-iteration worklist solver against a backward-reachability spec (any pop choice) + instrumented model-vs-code correspondence with randomized pops",
    "level_text": (
        "Theorems in coq/Props/C25.v, for EVERY program of the fragment (any list of region-free, successor-free ops "
        "in one block, any operand/result structure incl. cycles), BOTH load orders of DeadCodeAnalysis and "
        "LivenessAnalysis and EVERY pop choice function (the worklist member removed at each step is arbitrary): "
        "the modelled solver terminates within length(ops) + number-of-results pops; on termination a value's lattice "
        "is live exactly when it is an operand of a not-trivially-dead op or an operand of an op one of whose results "
        "is live (least fixpoint = backward reachability); hence the result is independent of schedule and load "
        "order; each lattice flips at most once. The model is tied to xdsl/analysis/{dataflow,sparse_analysis,"
        "dead_code_analysis,liveness_analysis}.py by running the real solver with a substituted random-pop worklist "
        "and comparing full event logs, final lattices, dependents and Executable state."),
    "level_note": (
        "Trusted: Coq kernel; hand-written model; correspondence harness; `would_be_trivially_dead` enters the model "
        "as the per-op flag `removable` (the harness passes its own kind table, the oracle uses the same table, so a "
        "change of would_be_trivially_dead on these op kinds is caught by oracle and correspondence). Not covered: ops "
        "with regions or successors (the code raises NotImplementedError / asserts there), values inside nested "
        "regions (only the entry block of the top-level op's first region is ever marked executable, so running the "
        "solver on a module that CONTAINS a function leaves every value of the function without a lattice -- outside "
        "the fragment, reported in evidence as an observation), pre-seeded lattices, set_to_exit_state (never called "
        "by the framework), forward analyses."),
}
COQ_TARGETS = ["C25/Enc.vo", "C25/Proofs.vo", "Props/C25.vo"]
REQ = ["C25.Model", "C25.Enc"]
ASSUMPTIONS = [
    "the solver is run on a top-level op without operands whose first region has a single block; block ops have no regions/successors",
    "both DeadCodeAnalysis and LivenessAnalysis are loaded exactly once, in either order, on a fresh solver",
]
TRUSTED = []

# kind -> trivially removable when its results are unused (independent table, used by oracle and model input)
REMOVABLE = {"const": True, "addi": True, "pure": True, "read": True, "load": True,
             "write": False, "testop": False, "call": False, "store": False, "return": False}


# ----------------------------------------------------------------------------- building real IR
def build(case):
    """-> (top op the solver runs on, block, ops, values) ; values[i] is the SSA value numbered i."""
    from xdsl.dialects import arith, func, memref, test
    from xdsl.dialects.builtin import IndexType, IntegerAttr, MemRefType, ModuleOp
    from xdsl.ir import Block, Region
    idx = IndexType()
    mem_t = MemRefType(idx, [4])
    nargs, has_mem = case["nargs"], case["mem"]
    arg_types = [mem_t if (has_mem and i == 0) else idx for i in range(nargs)]
    block = Block(arg_types=arg_types if case["top"] != "module" else [])
    values = list(block.args)
    ph = test.TestPureOp(result_types=[idx]).results[0]       # placeholder operand, replaced below
    mph = test.TestPureOp(result_types=[mem_t]).results[0]
    ops = []
    for kind, res, opnds in case["ops"]:
        k, r = len(opnds), len(res)
        if kind == "const":
            o = arith.ConstantOp(IntegerAttr(len(ops), idx))
        elif kind == "addi":
            o = arith.AddiOp(ph, ph)
        elif kind == "pure":
            o = test.TestPureOp(operands=[ph] * k, result_types=[idx] * r)
        elif kind == "read":
            o = test.TestReadOp(operands=[ph] * k, result_types=[idx] * r)
        elif kind == "write":
            o = test.TestWriteOp(operands=[ph] * k, result_types=[idx] * r)
        elif kind == "testop":
            o = test.TestOp(operands=[ph] * k, result_types=[idx] * r)
        elif kind == "call":
            o = func.CallOp("ext", [ph] * k, [idx] * r)
        elif kind == "store":
            o = memref.StoreOp.get(ph, mph, [ph])
        elif kind == "load":
            o = memref.LoadOp.get(mph, [ph])
        elif kind == "return":
            o = func.ReturnOp(*([ph] * k))
        else:
            raise ValueError(kind)
        assert len(o.results) == r and len(o.operands) == k, (kind, res, opnds)
        ops.append(o)
        values.extend(o.results)
    block.add_ops(ops)
    for o, (_, res, opnds) in zip(ops, case["ops"]):
        for j, v in enumerate(opnds):
            o.operands[j] = values[v]
    assert ph.first_use is None and mph.first_use is None
    for (_, res, _), o in zip(case["ops"], ops):
        assert [values.index(x) for x in o.results] == res
    if case["top"] == "module":
        return ModuleOp(Region([block])), block, ops, values
    nret = len(case["ops"][-1][2]) if case["ops"] and case["ops"][-1][0] == "return" else 0
    f = func.FuncOp("f", (arg_types, [idx] * nret), Region([block]), visibility=case["vis"])
    if case["top"] == "func_in_module":
        decl = func.FuncOp.external("ext", [], [])
        ModuleOp([decl, f])      # f.parent is now the module's block; the solver still runs on f
    return f, block, ops, values


class PickWorklist:
    """Stands in for the deque in DataFlowSolver._worklist; popleft() removes the member selected by the policy."""

    def __init__(self, mode, sched, trace=None):
        self.items, self.mode, self.sched, self.k, self.trace = [], mode, sched, 0, trace

    def append(self, x):
        self.items.append(x)

    def __len__(self):
        return len(self.items)

    def __bool__(self):
        return bool(self.items)

    def popleft(self):
        n = len(self.items)
        if self.mode == 0:
            i = 0
        elif self.mode == 1:
            i = n - 1
        else:
            i = (self.sched[self.k] if self.k < len(self.sched) else 0) % n
        self.k += 1
        if self.trace is not None:
            self.trace.append((i, n))
        return self.items.pop(i)


def run_real(case, trace=None):
    """Run the real solver (instrumented from outside) on the case; `trace` collects (index popped, worklist length)."""
    from xdsl.analysis import dataflow, dead_code_analysis, liveness_analysis
    from xdsl.context import Context
    DataFlowSolver, ProgramPoint, ChangeResult = dataflow.DataFlowSolver, dataflow.ProgramPoint, dataflow.ChangeResult
    DeadCodeAnalysis, Executable = dead_code_analysis.DeadCodeAnalysis, dead_code_analysis.Executable
    Liveness, LivenessAnalysis = liveness_analysis.Liveness, liveness_analysis.LivenessAnalysis

    top, block, ops, values = build(case)
    opidx = {id(o): i for i, o in enumerate(ops)}
    validx = {id(v): i for i, v in enumerate(values)}
    log = []

    def acode(a):
        return 0 if isinstance(a, DeadCodeAnalysis) else 1

    def pcode(point):
        e = point.entity
        return opidx[id(e)]      # KeyError for any point that is not "before op i" -> caught below

    class LogSolver(DataFlowSolver):
        def enqueue(self, item):
            log.append([2, acode(item[1]), pcode(item[0])])
            super().enqueue(item)

        def propagate_if_changed(self, state, changed):
            if changed == ChangeResult.CHANGE:
                if isinstance(state, Executable):
                    log.append([4])
                else:
                    log.append([3, validx[id(state.anchor)]])
            super().propagate_if_changed(state, changed)

    def logged(cls):
        class Logged(cls):
            def visit(self, point):
                if point.entity is top:
                    log.append([0, acode(self)])
                else:
                    log.append([1, acode(self), pcode(point)])
                super().visit(point)
        return Logged

    solver = LogSolver(Context())
    solver._worklist = PickWorklist(case["mode"], case.get("sched") or [], trace)
    for cls in ([DeadCodeAnalysis, LivenessAnalysis] if case["dca_first"] else [LivenessAnalysis, DeadCodeAnalysis]):
        solver.load(logged(cls))
    solver.initialize_and_run(top)

    def enc_deps(st):
        return sorted([pcode(p), acode(a)] for p, a in st.dependents)

    lat, deps = [], []
    for v in values:
        st = solver.lookup_state(v, Liveness)
        lat.append(0 if st is None else (2 if st.is_live else 1))
        deps.append([] if st is None else enc_deps(st))
        if st is not None and st.use_def_subscribers:
            raise AssertionError("use_def_subscribers non-empty")
    ex = solver.lookup_state(ProgramPoint.at_start_of_block(block), Executable)
    exs = [0, 0, [], []] if ex is None else [1, int(ex.live), enc_deps(ex),
                                             sorted(acode(a) for a in ex.block_content_subscribers)]
    rest = [[pcode(p), acode(a)] for p, a in solver._worklist.items]
    return [log, lat, deps, exs, rest]


def impl(case):
    from harness.common import exc_code
    try:
        return run_real(case)
    except Exception as e:  # noqa: BLE001 - any exception of the code under test is an observable
        return [-1, exc_code(e)]


# ----------------------------------------------------------------------------- model side
def coq_prog(case):
    return coq_list(f"mk_op {coq_nats(res)} {coq_nats(opnds)} {coq_bool(REMOVABLE[kind])}"
                    for kind, res, opnds in case["ops"])


def nvalues(case):
    n = case["nargs"] if case["top"] != "module" else 0
    return n + sum(len(res) for _, res, _ in case["ops"])


def coq_expr(case):
    return (f"c25_case {coq_prog(case)} {coq_nat(nvalues(case))} {coq_bool(case['dca_first'])} "
            f"{coq_nat(case['mode'])} {coq_list(f'{n}%N' for n in (case.get('sched') or []))}")


# ----------------------------------------------------------------------------- oracle
def expected_live(case):
    """Backward reachability: operands of non-removable ops (incl. func.return of public AND private functions:
    a terminator is not removable) are live; if any result of an op is live, all its operands are live."""
    ops = case["ops"]
    live = set()
    todo = [v for kind, _, opnds in ops if not REMOVABLE[kind] for v in opnds]
    producers = {}
    for kind, res, opnds in ops:
        for r in res:
            producers.setdefault(r, []).append(opnds)
    while todo:
        v = todo.pop()
        if v in live:
            continue
        live.add(v)
        for opnds in producers.get(v, ()):
            todo.extend(opnds)
    return live


def holds(case, res):
    if res and res[0] == -1:
        return False, f"solver raised exception code {res[1]} on supported branch-free IR"
    _, lat, _, _, rest = res
    if rest:
        return False, f"solver stopped with a non-empty worklist {rest}"
    exp = expected_live(case)
    for v, code in enumerate(lat):
        if (code == 2) != (v in exp):
            how = "is marked live but reaches no effectful op / return" if code == 2 else \
                "is used (through a chain of operands) by a not-trivially-removable op but is not marked live"
            return False, (f"value #{v} {how} (load order {'DCA,Liveness' if case['dca_first'] else 'Liveness,DCA'}, "
                           f"pop policy {case['mode']})")
    return True, ""


def nontrivial(case, res):
    if res and res[0] == -1:
        return None
    exp = expected_live(case)
    roots = {v for kind, _, opnds in case["ops"] if not REMOVABLE[kind] for v in opnds}
    used = {v for _, _, opnds in case["ops"] for v in opnds}
    if (exp - roots) and (used - exp):
        return (tuple((k, tuple(r), tuple(o)) for k, r, o in case["ops"]), case["dca_first"], case["mode"],
                tuple(case.get("sched") or ()))
    return None


def replay_case(ctx, witness):
    """./check C25 --replay file: re-run the recorded case on implementation and model."""
    case = witness.get("case") or witness.get("first_diverging_case")
    if not case:
        print("no case in witness")
        return 0
    r = impl(case)
    ok, why = holds(case, r)
    print("implementation:", r)
    print("oracle:", "holds" if ok else "VIOLATED: " + why)
    try:
        m = ctx.coq_eval(REQ, [coq_expr(case)])[0]
        print("model:         ", m)
        print("model == implementation:", m == r)
    except Exception as e:  # noqa: BLE001
        print("model unavailable:", e)
    return 0 if ok else 1


# ----------------------------------------------------------------------------- generators
def gen_program(rng, graph=False):
    top = rng.choices(["func", "func_in_module", "module"], [6, 2, 2])[0]
    mem = top != "module" and rng.random() < 0.6
    nargs = 0 if top == "module" else rng.randint(1 if mem else 0, 3)
    nops = rng.randint(0, 2) if rng.random() < 0.08 else rng.randint(3, 12)
    nvals = nargs
    plain = [i for i in range(nargs) if not (mem and i == 0)]   # values of type index
    shapes = []   # (kind, nres, nopnds)
    for _ in range(nops):
        kinds = ["const", "addi", "pure", "read", "write", "testop", "call"] + (["store", "load"] if mem else [])
        w = [2, 4, 4, 2, 1, 1, 1] + ([1.5, 1.5] if mem else [])
        kind = rng.choices(kinds, w)[0]
        if kind == "const":
            shape = (kind, 1, 0)
        elif kind == "addi":
            shape = (kind, 1, 2)
        elif kind == "store":
            shape = (kind, 0, 3)
        elif kind == "load":
            shape = (kind, 1, 2)
        elif kind == "write":
            shape = (kind, rng.choice([0, 0, 1]), rng.randint(0, 2))
        else:
            shape = (kind, rng.choice([0, 1, 1, 1, 2, 3]), rng.randint(0, 3))
        shapes.append(shape)
    if top != "module":
        shapes.append(("return", 0, rng.choice([0, 1, 1, 2, 3])))
    ops = []
    total_plain = list(plain)
    # pre-compute all result ids so that the graph stream can reference later values
    nxt, all_res = nargs, []
    for kind, r, k in shapes:
        all_res.append(list(range(nxt, nxt + r)))
        nxt += r
    every = plain + [v for rs in all_res for v in rs]
    for (kind, r, k), res in zip(shapes, all_res):
        def pick():
            pool = every if (graph and rng.random() < 0.35) else total_plain
            if not pool:
                return None
            if rng.random() < 0.55:      # bias to recent values: chains
                return pool[max(0, len(pool) - 1 - rng.randint(0, 2))]
            return rng.choice(pool)
        if kind == "store":
            opnds = [pick(), 0, pick()]
        elif kind == "load":
            opnds = [0, pick()]
        else:
            opnds = [pick() for _ in range(k)]
        if any(o is None for o in opnds):     # nothing to use yet: degrade to an op without operands
            kind, opnds = ("const", []) if r == 1 else ("pure", [])
        ops.append([kind, res, opnds])
        total_plain.extend(res)
    return {"top": top, "vis": rng.choice(["public", "private"]), "mem": mem, "nargs": nargs, "ops": ops}


def fuel_bound(prog):
    return len(prog["ops"]) + sum(len(r) for _, r, _ in prog["ops"])


def schedules(rng, prog, nrand):
    out = []
    for dca_first in (True, False):
        out.append({"dca_first": dca_first, "mode": 0})
        out.append({"dca_first": dca_first, "mode": 1})
        for _ in range(nrand):
            out.append({"dca_first": dca_first, "mode": 2,
                        "sched": [rng.randrange(0, 1000) for _ in range(fuel_bound(prog))]})
    return out


def all_schedules(prog, dca_first, cap):
    """Every pop sequence of the real solver on `prog` (depth-first over the choice tree; the worklist length at
    each step is observed on the implementation), as cases with explicit index lists; stops after `cap`."""
    out, sched = [], []
    while len(out) < cap:
        trace = []
        case = {**prog, "dca_first": dca_first, "mode": 2, "sched": list(sched)}
        run_real(case, trace)
        idx = [i for i, _ in trace]
        out.append({**case, "sched": idx})
        k = len(trace) - 1
        while k >= 0 and trace[k][0] + 1 >= trace[k][1]:
            k -= 1
        if k < 0:
            return out, True
        sched = idx[:k] + [idx[k] + 1]
    return out, False


def small(ops):
    return {"top": "module", "vis": "public", "mem": False, "nargs": 0, "ops": ops}


SWEEP = [
    small([["const", [0], []], ["pure", [1], [0]], ["write", [], [1]]]),
    small([["pure", [0, 1], []], ["pure", [2], [1]], ["read", [3], [0]], ["testop", [], [2]]]),
    small([["pure", [0], [1]], ["pure", [1], [0]], ["write", [], [0]]]),
    small([["const", [0], []], ["addi", [1], [0, 0]], ["pure", [2], [1]], ["call", [], [2]]]),
    small([["const", [0], []], ["pure", [1, 2], [0]], ["pure", [3], [2]], ["pure", [4], [1, 3]], ["testop", [5], [3]]]),
]

HAND = [
    # dead chain + store + private return (the example of the module docstring)
    {"top": "func", "vis": "private", "mem": True, "nargs": 2, "ops": [
        ["const", [2], []], ["addi", [3], [1, 2]], ["addi", [4], [3, 3]], ["store", [], [3, 0, 2]],
        ["load", [5], [0, 2]], ["call", [6], [5]], ["pure", [7, 8], [6]], ["read", [9], [8]],
        ["write", [], [9]], ["pure", [10], [4]], ["return", [], [7]]]},
    # everything dead except the public return
    {"top": "func", "vis": "public", "mem": False, "nargs": 1, "ops": [
        ["addi", [1], [0, 0]], ["addi", [2], [1, 0]], ["pure", [3], [2]], ["return", [], [1]]]},
    # empty function body without terminator, and a body with only a return
    {"top": "func", "vis": "public", "mem": False, "nargs": 1, "ops": []},
    {"top": "func", "vis": "private", "mem": False, "nargs": 2, "ops": [["return", [], [1, 1]]]},
    # module body; self-referential and mutually referential ops (graph region style)
    {"top": "module", "vis": "public", "mem": False, "nargs": 0, "ops": [
        ["pure", [0], [0]], ["pure", [1], [2]], ["pure", [2], [1]], ["write", [], [2]], ["read", [3, 4], [0]]]},
]


def run(ctx: Ctx):
    thorough = ctx.tier == "thorough"
    rng = ctx.rng
    replay_findings(ctx, "solver", impl, holds)
    cases = []
    for prog in HAND:
        for s in schedules(rng, prog, 3):
            cases.append({**prog, **s})
    stats = {"programs": 0, "graph_programs": 0, "ops": 0, "kinds": {}, "top": {}}
    for k in range(250 if thorough else 45):
        graph = k % 5 == 4
        prog = gen_program(rng, graph)
        stats["programs"] += 1
        stats["graph_programs"] += int(graph)
        stats["ops"] += len(prog["ops"])
        stats["top"][prog["top"]] = stats["top"].get(prog["top"], 0) + 1
        for kind, _, _ in prog["ops"]:
            stats["kinds"][kind] = stats["kinds"].get(kind, 0) + 1
        for s in schedules(rng, prog, 4 if thorough else 3):
            cases.append({**prog, **s})
    differential(ctx, DiffSpec("solver", REQ, cases, impl, coq_expr, holds, None, nontrivial, shard=60))
    # every pop sequence of small programs (the choice tree is enumerated on the implementation)
    big = [
        small([["const", [0], []], ["pure", [1], [0]], ["read", [2], [1]], ["addi", [3], [2, 0]], ["pure", [4], [1]],
               ["write", [], [3]]]),
        small([["pure", [0], [3]], ["pure", [1, 2], [0]], ["pure", [3], [2]], ["read", [4], [1]], ["testop", [], [4]],
               ["pure", [5], [4]]]),
    ]
    groups = [("all-pop-sequences-of-small-programs", SWEEP if thorough else SWEEP[:4], 5000)]
    if thorough:
        groups.append(("first-800-pop-sequences-of-6-op-programs", big, 800))
    for name, progs, cap in groups:
        sweep, complete, counts = [], True, []
        for prog in progs:
            for dca_first in (True, False):
                cs, done = all_schedules(prog, dca_first, cap)
                sweep += cs
                complete = complete and done
                counts.append(len(cs))
        differential(ctx, DiffSpec(name, REQ, sweep, impl, coq_expr, holds, None, nontrivial, shard=60,
                                   exhaustive=complete))
        ctx.coverage.setdefault("pop_sequence_sweeps", {})[name] = {
            "programs": len(progs), "sequences_per_program_and_order": counts, "complete": complete}
    ctx.coverage["generated"] = stats
    ctx.coverage["schedules_per_program"] = "both load orders x (FIFO, LIFO, %d seeded random pop sequences)" % (4 if thorough else 3)
    ctx.coverage["rule"] = __doc__.split("\n\n", 1)[1][:1800]
    ctx.coverage["observation_outside_fragment"] = observe_nested()


def observe_nested():
    """Outside the fragment (recorded, not judged): the solver run on a module that CONTAINS the function."""
    from xdsl.analysis.dataflow import DataFlowSolver
    from xdsl.analysis.dead_code_analysis import DeadCodeAnalysis
    from xdsl.analysis.liveness_analysis import Liveness, LivenessAnalysis
    from xdsl.context import Context
    case = {**HAND[0], "top": "func_in_module"}
    f, _, _, values = build(case)
    module = f.parent_op()
    solver = DataFlowSolver(Context())
    solver.load(DeadCodeAnalysis)
    solver.load(LivenessAnalysis)
    try:
        solver.initialize_and_run(module)
        states = [solver.lookup_state(v, Liveness) for v in values]
        seen = "values with a Liveness state: %d of %d, live: %d" % (
            sum(s is not None for s in states), len(values), sum(bool(s and s.is_live) for s in states))
    except Exception as e:  # noqa: BLE001
        seen = "raised " + type(e).__name__
    return ("running the solver on a builtin.module that contains the func.func (nested region): " + seen +
            " -- DeadCodeAnalysis only marks the entry block of the top-level op's first region executable "
            "(its docstring says so), so values of nested regions, incl. operands of memref.store/func.return, get "
            "no lattice; nested regions are not part of the supported fragment of this property")
