"""C24 -- Dominance and post-order traversal match their graph definitions.

Tie: hand-written Coq model (coq/C24/Model.v) of DominanceInfo.__init__/dominates and
PostOrderIterator.__next__ vs the real classes on the same CFGs: exhaustive over all CFGs with
n blocks and out-degree <= 2 including self-loops and multi-edges (n <= 3 quick, n <= 4 thorough;
the Coq side enumerates the graphs itself), plus seeded random CFGs up to 10 blocks with out-degree
<= 4, blocks without terminator and unreachable parts.  Compared: the whole dominates() matrix and the
post-order sequence.  Oracle (independent of the model): a dominates reachable b iff b is unreachable
from the entry once a is removed; post-order = each reachable block once, entry last.
Non-trivial: the CFG has a reachable block with two or more distinct predecessors, or an unreachable
block; distinct = distinct successor-list vector.
"""
from __future__ import annotations

import itertools

from harness.common import (Ctx, DiffSpec, coq_list, coq_nat, coq_nats, differential, replay_findings,
                            sweep_differential)

META = {
    "id": "C24",
    "title": "Dominance and post-order traversal match their graph definitions",
    "design_ref": "DESIGN.md section 8.C24",
    "technique": "Coq proof of the iterative dominator algorithm and DFS post-order against path-based specs + exhaustive/random model-vs-code correspondence",
    "level_text": (
        "Theorems in coq/Props/C24.v, for EVERY well-formed CFG (any size, self-loops, multi-edges, unreachable "
        "blocks): the modelled DominanceInfo iteration terminates within its fuel, dominates(a,b) for reachable b "
        "holds exactly when every entry->b path contains a, strict dominance excludes equality, and the modelled "
        "PostOrderIterator yields every reachable block exactly once, nothing else, entry last. The model is tied "
        "to xdsl/irdl/dominance.py and xdsl/ir/post_order.py by an exhaustive sweep over all small CFGs plus random "
        "larger ones, comparing full dominance matrices and traversal sequences."),
    "level_note": (
        "Trusted: Coq kernel; hand-written model (Python sets modelled as bit-vectors, blocks as indices); "
        "correspondence harness. Not covered: `strictly_dominates` module-level wrappers' ValueError paths "
        "(exercised by the harness only)."),
}
COQ_TARGETS = ["C24/Enc.vo", "C24/ProofsDom.vo", "C24/ProofsPO.vo", "Props/C24.vo"]
REQ = ["C24.Model", "C24.Enc"]
ASSUMPTIONS = ["successors of a block's last operation are blocks of the same region (IR well-formedness, C01)"]


def succ_lists(n):
    return [[]] + [[a] for a in range(n)] + [[a, b] for a in range(n) for b in range(n)]


def build(case):
    from xdsl.dialects import test
    from xdsl.ir import Block, Region
    g = case["g"]
    kinds = case.get("kinds") or ["term"] * len(g)
    bs = [Block() for _ in g]
    for b, ss, k in zip(bs, g, kinds):
        if k == "term":
            b.add_op(test.TestTermOp(successors=[bs[s] for s in ss]))
        elif k == "unreg":    # unregistered branch-like last op: counts as a terminator (has_trait default)
            from xdsl.dialects.builtin import UnregisteredOp
            b.add_op(UnregisteredOp.with_name("foo.br").create(successors=[bs[s] for s in ss]))
        elif k == "op":       # last op is not a terminator (and has no successors)
            b.add_op(test.TestOp())
        # "empty": no op at all
    return Region(bs), bs


def impl(case):
    from xdsl.ir.post_order import PostOrderIterator
    from xdsl.irdl.dominance import DominanceInfo
    r, bs = build(case)
    n = len(bs)
    d = DominanceInfo(r)
    dom = [[1 if d.dominates(bs[a], bs[b]) else 0 for a in range(n)] for b in range(n)]
    for a in range(n):
        for b in range(n):
            if d.strictly_dominates(bs[a], bs[b]) != (a != b and bool(dom[b][a])):
                dom[b][a] += 2  # makes the mismatch visible to oracle and correspondence
    idx = {id(b): i for i, b in enumerate(bs)}
    po = [idx[id(b)] for b in PostOrderIterator(bs[0])]
    return [dom, po]


def eff_succ(case):
    g = case["g"]
    kinds = case.get("kinds") or ["term"] * len(g)
    return [ss if k in ("term", "unreg") else [] for ss, k in zip(g, kinds)]


def reach_from(g, start, removed=None):
    if start == removed:
        return set()
    seen, todo = {start}, [start]
    while todo:
        x = todo.pop()
        for s in g[x]:
            if s != removed and s not in seen:
                seen.add(s); todo.append(s)
    return seen


def holds(case, res):
    g = eff_succ(case)
    n = len(g)
    dom, po = res
    reach = reach_from(g, 0)
    for b in sorted(reach):
        for a in range(n):
            exp = 1 if (a == b or b not in reach_from(g, 0, removed=a)) else 0
            if dom[b][a] != exp:
                return False, (f"dominates(block{a}, block{b}) = {dom[b][a] & 1} (strict-consistency flag {dom[b][a] >> 1}) "
                               f"but {'every' if exp else 'not every'} entry->block{b} path contains block{a}")
    if sorted(po) != sorted(reach):
        return False, f"post-order {po} is not exactly the reachable blocks {sorted(reach)} once each"
    if po[-1] != 0:
        return False, f"post-order {po} does not end with the entry block"
    return True, ""


def nontrivial(case, res):
    g = eff_succ(case)
    reach = reach_from(g, 0)
    preds = {b: {p for p in range(len(g)) if b in g[p]} for b in range(len(g))}
    if len(reach) < len(g) or any(len(preds[b]) >= 2 for b in reach):
        return (tuple(map(tuple, case["g"])), tuple(case.get("kinds") or ()))
    return None


def coq_cfg(g):
    return coq_list(coq_nats(ss) for ss in g)


def run(ctx: Ctx):
    thorough = ctx.tier == "thorough"
    replay_findings(ctx, "cfg", impl, holds)
    for n in ([1, 2, 3, 4] if thorough else [1, 2, 3]):
        shards = []
        for first in succ_lists(n):
            cases = [{"g": [first] + [list(x) for x in rest]}
                     for rest in itertools.product(succ_lists(n), repeat=n - 1)]
            shards.append((f"c24_sweep {coq_nat(n)} {coq_nats(first)}", cases))
        sweep_differential(ctx, f"all-cfgs-{n}-blocks-outdeg<=2", REQ, shards, impl, holds, None, nontrivial)
    rng = ctx.rng
    cases = []
    for _ in range(6000 if thorough else 1500):
        n = rng.randint(2, 10)
        g, kinds = [], []
        for b in range(n):
            k = rng.choices(["term", "unreg", "op", "empty"], [8, 3, 1, 1])[0]
            deg = rng.choices([0, 1, 2, 3, 4], [2, 4, 5, 2, 1])[0] if k in ("term", "unreg") else 0
            # bias towards forward edges so that large reachable sub-graphs with joins appear
            ss = [rng.randrange(n) if rng.random() < 0.4 else min(n - 1, b + rng.randint(0, 2)) for _ in range(deg)]
            if deg >= 3 and rng.random() < 0.5:
                ss[-1] = ss[0]          # non-adjacent repeated successor [a, b, a]
            g.append(ss)
            kinds.append(k)
        cases.append({"g": g, "kinds": kinds})
    differential(ctx, DiffSpec("random-cfgs-2..10-blocks", REQ, cases, impl,
                               lambda c: f"c24_case {coq_cfg(eff_succ(c))}", holds, None, nontrivial))
    # layered DAGs with joins and a few back edges whose blocks are listed in a random (non-topological)
    # order: the fixpoint then needs several sweeps, which is where a premature exit shows
    cases = []
    for _ in range(3000 if thorough else 800):
        n = rng.randint(4, 8)
        g = [[] for _ in range(n)]
        for b in range(n - 1):
            outs = {rng.randint(b + 1, n - 1) for _ in range(rng.randint(1, 2))}
            if rng.random() < 0.15:
                outs.add(rng.randint(0, b))
            g[b] = sorted(outs)
        perm = list(range(1, n))
        rng.shuffle(perm)
        perm = [0] + perm                       # new index of old block i is perm.index(i); entry stays first
        pos = {old: new for new, old in enumerate(perm)}
        cases.append({"g": [[pos[s] for s in g[old]] for old in perm]})
    differential(ctx, DiffSpec("permuted-layered-dags-4..8-blocks", REQ, cases, impl,
                               lambda c: f"c24_case {coq_cfg(eff_succ(c))}", holds, None, nontrivial))
    ctx.coverage["rule"] = __doc__.split("\n\n", 1)[1][:900]
    ctx.coverage["exhaustive"] = True
    ctx.coverage["explanation"] = "exhaustive over every CFG with the stated number of blocks and out-degree <= 2 (self-loops and multi-edges included)"
