"""C04 -- Generic textual form round-trips every valid IR.

Tie: (M2) the name patterns of xdsl/ir/core.py and the lexer's identifier patterns are re-translated on
every run (harness/translate/regex2coq.py -> coq/Gen/C04_current.v) and the inclusion theorem is
re-checked against them; the four printer/ir-core code switches of the model are read from the behaviour
of five one-line probes (fail-closed: an answer that is neither the pinned nor the repaired one stops the
check).  (M1) hand-written Coq model (coq/C04/Model.v) of the printer's name allocation and of the
parser's name resolution, compared with the real Printer / Parser on generated IR skeletons built with the
real API (test.op, test.termop, builtin.module, func.func and two IsolatedFromAbove operations registered
by the harness; nested isolated / non-isolated regions, multi-block regions with forward successor
references, forward value references, operands of isolated operations) with ADVERSARIAL name hints
(duplicates, `_N` suffixes, several suffixes, digits, `bbN`, empty after stripping, non-ASCII, long):
compared are the sequence of names the real printer returns from print_ssa_value / print_block_name
(cross-checked against the real lexer's %ident / ^ident tokens of the text), the real parser's outcome
on that text (ParseError, or the wiring and the recovered hints of the parsed IR with object identities
renumbered by first appearance), and whether the parsed IR prints the same names.  (M1b) the name
functions extract_valid_name / is_valid_name / is_default_block_name / lexability on adversarial strings.
(M3) the token-level model of print_op_with_default_format / _parse_generic_operation: the real lexer's
token stream of the generic text of generated operations with single-token attributes, properties, types,
successors and regions against the model's tokens, and the real parser's acceptance of mutated streams.
Oracle `holds` (independent of the model): real Printer (generic format) -> fresh Context with every
dialect -> Parser.parse_module -> is_structurally_equivalent AND an own canonical dump (operation names,
wiring, types, attributes, properties with declared defaults dropped, block structure) -> the parsed IR
prints the same text; printing twice and printing a clone give the same text.  Oracle-only families:
every parseable chunk of the .mlir corpus under /repo/tests and the output of registered passes on them.
Non-trivial: a skeleton case whose hints force a uniquifying suffix, a forward reference, an isolated
scope or a multi-block region; a corpus chunk with at least one operation; distinct = distinct text.
"""
from __future__ import annotations

import io
import json
import re
import time

from harness import common
from harness.common import (COQ, REPO, Ctx, DiffSpec, Untranslatable, coq_Z, differential, exc_code,
                            replay_findings, write_if_changed)

META = {
    "id": "C04",
    "title": "Generic textual form round-trips every valid IR",
    "design_ref": "DESIGN.md section 8.C04",
    "technique": "Coq proofs about an executable model of printer name allocation / parser name resolution and of the generic operation syntax + regex translation + model-vs-code correspondence + print/parse/print oracle on generated IR, the .mlir corpus and pass outputs",
    "level_text": (
        "Theorems in coq/Props/C04.v, for EVERY IR skeleton (operations with results, operands, successors, nested "
        "isolated / non-isolated regions, multi-block regions, forward value and block references, name hints; "
        "attributes, properties and types opaque) and for each of the 16 configurations of four code switches "
        "(pinned ... repaired): (M1) C04_names_unique / C04_block_labels_unique: the names of the values of the "
        "open printer scopes and the labels of one region are pairwise distinct at every moment; C04_roundtrip: "
        "parsing the printed names succeeds, yields the same skeleton over new object identities with the hints the "
        "printer acted on, and the parsed skeleton prints the same names; C04_deterministic: a copy over other "
        "identities prints the same names; (M3) C04_syntax_roundtrip / C04_text_roundtrip: the generic token stream "
        "(results, operands, successors, properties, regions with omitted entry label, attribute dictionary, function "
        "type) parses back to the tree; (M2) C04_hint_lexable: a name accepted by a checked name pattern is one token "
        "of a checked lexer pattern (the lexer pattern of the current source and the proposed re.ASCII name pattern "
        "pass the check). The hypotheses are hints_ok (valid ASCII hints without trailing _<digits>; for switches that "
        "are off: no bb<digits> block hint, no hint on an entry block whose label is omitted) and well_scoped. The "
        "pinned tree REFUTES the unconditional statements (C04_names_unique_refuted, C04_default_block_hint_refuted, "
        "C04_entry_hint_refuted, C04_iso_operand_refuted, C04_hint_lexable_refuted); with the proposed repairs the "
        "hint hypothesis reduces to 'hints the API stores' (C04_roundtrip_repaired). The model is tied to "
        "xdsl/printer.py, xdsl/parser/core.py, xdsl/ir/core.py, xdsl/utils/mlir_lexer.py by regex translation on every "
        "run, by probes that read the four switches off the current code, and by seven correspondence / oracle families."),
    "level_note": (
        "Trusted: Coq kernel; hand-written model (Python dicts as association lists, object identity as integers, the "
        "traversal order of printer and parser as one schedule); regex2coq translator and the Unicode tables sampled "
        "from CPython; correspondence harness. Not covered by the proof: character-level layout / indentation, "
        "dialect-specific attribute and type syntax (opaque tokens; property C06), FunctionType parenthesisation of a "
        "single function-typed result, resources / metadata, print_debuginfo, custom assembly formats (C05), tuple "
        "results (%x:2, %x#1), type agreement between uses and definitions; 'property equal to its declared default "
        "counts as absent' and 'inherent attribute in the attribute dictionary counts as the property' are handled in "
        "the harness comparison, not in Coq. xDSL's verifier does not check SSA visibility (a use after the region "
        "that defines the value verifies but cannot round-trip): well_scoped is an assumption of the theorems and of "
        "the generators."),
}
COQ_TARGETS = ["Gen/C04_current.vo", "C04/Enc.vo", "C04/EncRx.vo", "C04/ProofsStr.vo", "C04/ProofsGhost.vo", "C04/ProofsPrint.vo",
               "C04/ProofsParse.vo", "C04/ProofsRound.vo", "C04/ProofsTree.vo", "C04/ProofsLex.vo", "C04/ProofsSyntax.vo",
               "C04/ProofsWit.vo",
               "Props/C04.vo"]
REQ = ["C04.Model", "C04.Enc", "Gen.C04_current"]
REQ_RX = ["C04.Model", "C04.EncRx"]
ASSUMPTIONS = [
    "SSA visibility by region nesting (a value is used only inside the region that defines it or a region nested in it; xDSL's verifier does not check this, MLIR's does)",
    "a successor is a labelled block of the enclosing region (not an entry block whose label the printer omits)",
    "uses and definitions of a value agree on its type (the model's name resolution does not track types)",
]
TRUSTED = [
    "harness/translate/regex2coq.py (pattern -> Regex.v AST) and the Unicode \\w / \\d tables sampled from CPython's re on every run (family name-pattern-unicode compares them with the real is_valid_name / lexer)",
    "behaviour probes that select the model configuration (cur_cfg) from the current printer / ir.core code; a wrong selection shows as a divergence of family m1-skeletons",
    "C07/Regex.v: CPython's backtracking matcher as modelled for property C07",
]

_STATE: dict = {}

# ------------------------------------------------------------------------------------------------
# real-code plumbing


def new_context():
    from xdsl.context import Context
    from xdsl.dialects import get_all_dialects
    if "dialects" not in _STATE:
        _STATE["dialects"] = get_all_dialects()
    c = Context()
    for n, f in _STATE["dialects"].items():
        c.register_dialect(n, f)
    c.register_dialect("c04", lambda: c04_dialect())
    return c


def c04_dialect():
    """two IsolatedFromAbove operations with arbitrary operands/results/regions/successors"""
    if "dialect" in _STATE:
        return _STATE["dialect"]
    from xdsl.ir import Dialect
    from xdsl.irdl import (IRDLOperation, irdl_op_definition, opt_prop_def, traits_def, var_operand_def,
                           var_region_def, var_result_def, var_successor_def)
    from xdsl.traits import IsolatedFromAbove, IsTerminator

    @irdl_op_definition
    class IsoOp(IRDLOperation):
        name = "c04.iso"
        res = var_result_def()
        ops = var_operand_def()
        regs = var_region_def()
        prop1 = opt_prop_def()
        traits = traits_def(IsolatedFromAbove())

    @irdl_op_definition
    class IsoTermOp(IRDLOperation):
        name = "c04.isoterm"
        res = var_result_def()
        ops = var_operand_def()
        regs = var_region_def()
        successor = var_successor_def()
        prop1 = opt_prop_def()
        traits = traits_def(IsolatedFromAbove(), IsTerminator())

    _STATE["IsoOp"], _STATE["IsoTermOp"] = IsoOp, IsoTermOp
    _STATE["dialect"] = Dialect("c04", [IsoOp, IsoTermOp], [])
    return _STATE["dialect"]


def generic_text(op, recorder=None) -> str:
    from xdsl.printer import Printer
    s = io.StringIO()
    if recorder is None:
        Printer(stream=s, print_generic_format=True).print_op(op)
    else:
        recorder(stream=s, print_generic_format=True).print_op(op)
    return s.getvalue()


def rec_printer():
    """Printer that records the names print_ssa_value / print_block_name return (behaviour unchanged)"""
    if "RecPrinter" in _STATE:
        return _STATE["RecPrinter"]
    from xdsl.printer import Printer

    class RecPrinter(Printer):
        def print_ssa_value(self, value):
            n = super().print_ssa_value(value)
            _STATE["rec"].append([0, [ord(ch) for ch in n]])
            return n

        def print_block_name(self, block):
            n = super().print_block_name(block)
            _STATE["rec"].append([1, [ord(ch) for ch in n]])
            return n

    _STATE["RecPrinter"] = RecPrinter
    return RecPrinter


# ------------------------------------------------------------------------------------------------
# skeleton cases
#
# case = {"ops": [op...]}  (the operations of the module body)
# op   = {"k": kind, "res": [raw hint|None...], "args": [value id...], "succ": [block id...],
#         "regs": [[block...]...], "rid": [value id...]}
# block = {"id": block id, "h": raw hint|None, "args": [[value id, raw hint|None]...], "ops": [op...]}
# kinds: "op" test.op | "term" test.termop | "iso" c04.iso | "isoterm" c04.isoterm | "module" builtin.module
#        | "func" func.func

KIND_CODE = {"op": 2, "term": 4, "iso": 3, "isoterm": 5, "module": 7, "func": 9, "top": 1}


def build_module(case):
    """-> (module, values: id -> SSAValue, blocks: id -> Block, stored: dict of stored hints,
           rejected: list of raw hints the API refused)"""
    from xdsl.dialects import builtin, func, test
    from xdsl.dialects.builtin import FunctionType, ModuleOp, StringAttr, i32
    from xdsl.ir import Block, Region
    c04_dialect()
    values, blocks, rejected = {}, {}, []
    patches = []
    dummy = test.TestOp(result_types=[i32])

    def set_hint(obj, raw):
        if raw is None:
            return
        try:
            obj.name_hint = raw
        except ValueError:
            rejected.append(raw)

    def mk_block(b):
        blk = Block(arg_types=[i32] * len(b["args"]))
        blocks[b["id"]] = blk
        set_hint(blk, b["h"])
        for a, (vid, raw) in zip(blk.args, b["args"]):
            values[vid] = a
            set_hint(a, raw)
        return blk

    def pre_blocks(op):
        for r in op["regs"]:
            for b in r:
                mk_block(b)
                for o in b["ops"]:
                    pre_blocks(o)

    def mk_op(op):
        regions = []
        for r in op["regs"]:
            blks = []
            for b in r:
                blk = blocks[b["id"]]
                for o in b["ops"]:
                    blk.add_op(mk_op(o))
                blks.append(blk)
            regions.append(Region(blks))
        k = op["k"]
        operands = [dummy.results[0]] * len(op["args"])
        rtypes = [i32] * len(op["res"])
        succ = [blocks[s] for s in op["succ"]]
        if k == "op":
            o = test.TestOp(operands=operands, result_types=rtypes, regions=regions)
        elif k == "term":
            o = test.TestTermOp(operands=operands, result_types=rtypes, regions=regions, successors=succ)
        elif k == "iso":
            o = _STATE["IsoOp"].create(operands=operands, result_types=rtypes, regions=regions)
        elif k == "isoterm":
            o = _STATE["IsoTermOp"].create(operands=operands, result_types=rtypes, regions=regions, successors=succ)
        elif k == "module":
            o = ModuleOp.create(regions=regions)
        elif k == "func":
            o = func.FuncOp.create(regions=regions, properties={
                "sym_name": StringAttr("f"), "function_type": FunctionType.from_lists(
                    [i32] * len(op["regs"][0][0]["args"]) if op["regs"] and op["regs"][0] else [], [])})
        else:
            raise ValueError(k)
        for vid, raw, r in zip(op["rid"], op["res"], o.results):
            values[vid] = r
            set_hint(r, raw)
        for i, a in enumerate(op["args"]):
            patches.append((o, i, a))
        return o

    top = {"k": "top", "regs": [[{"id": -1, "h": None, "args": [], "ops": case["ops"]}]]}
    pre_blocks(top)
    body = blocks[-1]
    for o in case["ops"]:
        body.add_op(mk_op(o))
    for o, i, a in patches:
        o.operands[i] = values[a]
    m = ModuleOp.create(regions=[Region([body])])
    return m, values, blocks, rejected


def stored_hint(obj):
    h = obj.name_hint
    return None if h is None else [ord(c) for c in h]


def canon_leaves(module):
    """leaves of a real IR in text order, identities renumbered by first appearance (= Enc.text_leaves)"""
    ids = {}

    def cid(o):
        return ids.setdefault(id(o), len(ids))

    def eff(h):
        return [ord(c) for c in h] if h else -1

    out = []

    def walk_op(op):
        for r in op.results:
            out.append([0, cid(r), eff(r.name_hint)])
        for a in op.operands:
            out.append([2, cid(a)])
        for s in op.successors:
            out.append([3, cid(s)])
        for reg in op.regions:
            for b in reg.blocks:
                out.append([4, cid(b), eff(b.name_hint)])
                for a in b.args:
                    out.append([1, cid(a), eff(a.name_hint)])
                for o in b.ops:
                    walk_op(o)
    walk_op(module)
    return out


def lexed_idents(text):
    """[kind, code points] of the %ident / ^ident tokens of the real lexer, or None if lexing fails"""
    from xdsl.utils.exceptions import ParseError
    from xdsl.utils.lexer import Input
    from xdsl.utils.mlir_lexer import MLIRLexer, MLIRTokenKind
    lx = MLIRLexer(Input(text, "<c04>"))
    out = []
    try:
        while True:
            t = lx.lex()
            if t.kind is MLIRTokenKind.EOF:
                return out
            if t.kind is MLIRTokenKind.PERCENT_IDENT:
                out.append([0, [ord(c) for c in t.text[1:]]])
            elif t.kind is MLIRTokenKind.CARET_IDENT:
                out.append([1, [ord(c) for c in t.text[1:]]])
    except ParseError:
        return None


def m1_impl(case):
    from xdsl.parser import Parser
    from xdsl.utils.exceptions import ParseError
    m, values, blocks, rejected = build_module(case)
    _STATE["rec"] = []
    text = generic_text(m, rec_printer())
    names = _STATE["rec"]
    lexed = lexed_idents(text)
    flag = 1 if lexed == names else 0
    try:
        m2 = Parser(new_context(), text).parse_module()
    except ParseError:
        return [names, [-1, 1], flag]
    except Exception as e:   # noqa: BLE001 -- any other exception class is visible as a divergence from the model
        return [names, [-1, 100 + exc_code(e)], flag]
    _STATE["rec"] = []
    text2 = generic_text(m2, rec_printer())
    same = 1 if _STATE["rec"] == names else 0
    if (text2 == text) != bool(same):
        same = 2 + same       # names agree but the text does not (or vice versa): made visible
    return [names, [0, canon_leaves(m2), same], flag]


# -- Coq terms -----------------------------------------------------------------------------------
def coq_list_p(items):
    """prefix cons/nil (parses faster than nested [a; b] in big terms)"""
    out = "nil"
    for it in reversed(list(items)):
        out = f"(cons {it} {out})"
    return out


def coq_cps(cps):
    # long runs of one character (the very long hints) are written with Enc.rep
    if len(cps) > 40 and len(set(cps[:40])) == 1:
        k = 0
        while k < len(cps) and cps[k] == cps[0]:
            k += 1
        return f"(rep {cps[0]} {k} {coq_cps(cps[k:])})"
    return coq_list_p(str(c) for c in cps)


class HintTable:
    """stored hints are written once per case file (prelude) and referred to by index"""

    def __init__(self):
        self.idx = {None: 0}
        self.items = [None]

    def ref(self, h):
        key = None if h is None else tuple(h)
        if key not in self.idx:
            self.idx[key] = len(self.items)
            self.items.append(key)
        return self.idx[key]

    def prelude(self):
        rows = coq_list_p("hn" if h is None else f"(hs {coq_cps(list(h))})" for h in self.items)
        return f"Definition HT : list hint := {rows}.\nDefinition h (k : Z) : hint := nth (Z.to_nat k) HT None.\n"


def coq_skel(case, ht, built=None):
    """Coq term of type skel for the module of the case; hints are the STORED hints of the real objects"""
    m, values, blocks, rejected = built or build_module(case)

    def vh(vid):
        return f"(vh {vid} {ht.ref(stored_hint(values[vid]))})"

    def blk(b):
        args = coq_list_p(vh(v) for v, _ in b["args"])
        return f"(sk_bk {b['id']} {ht.ref(stored_hint(blocks[b['id']]))} {args} {coq_list_p(op(o) for o in b['ops'])})"

    def op(o):
        regs = coq_list_p(coq_list_p(blk(b) for b in r) for r in o["regs"])
        return (f"(sk_op {KIND_CODE[o['k']]} {coq_list_p(vh(v) for v in o['rid'])} {coq_list_p(vh(a) for a in o['args'])} "
                f"{coq_list_p(str(s) for s in o['succ'])} {regs})")

    body = f"(sk_bk (-1) 0 nil {coq_list_p(op(o) for o in case['ops'])})"
    return f"(sk_op 7 nil nil nil (cons (cons {body} nil) nil))"


def m1_expr(case, ht):
    return f"c04_m1 cur_cfg {coq_skel(case, ht)}"


# ------------------------------------------------------------------------------------------------
# translator step: regexes + code switches -> coq/Gen/C04_current.v

CORE_PY = REPO / "xdsl" / "ir" / "core.py"
LEXER_PY = REPO / "xdsl" / "utils" / "mlir_lexer.py"
PINNED_NAME = r"([A-Za-z_$.-][\w$.-]*)"
PINNED_SUFFIX = r"(_\d+)$"
PROPOSED_SUFFIX = r"(_\d+)+$"


def probe_switches() -> dict:
    """the four code switches of the model, read from the behaviour of the current source on the
    witnesses of the four defects; any third answer is Untranslatable (fail-closed)"""
    from xdsl.dialects import test
    from xdsl.dialects.builtin import ModuleOp, i32
    from xdsl.ir import Block, Region, SSAValue
    c04_dialect()
    sw = {}
    r = SSAValue.extract_valid_name("a_1_2")
    if r not in ("a_1", "a"):
        raise Untranslatable(f"extract_valid_name('a_1_2') = {r!r}: neither the pinned nor the repaired suffix rule")
    sw["strip_all"] = r == "a"

    def names_of(m):
        _STATE["rec"] = []
        generic_text(m, rec_printer())
        return ["".join(map(chr, n)) for _, n in _STATE["rec"]]
    # block hint bb7 on the second block of a region
    b0, b1 = Block(), Block()
    b1.name_hint = "bb7"
    b0.add_op(test.TestTermOp(successors=[b1]))
    b1.add_op(test.TestTermOp())
    ns = names_of(ModuleOp([test.TestOp(regions=[Region([b0, b1])])]))
    if ns not in (["bb7", "bb7"], ["bb1", "bb1"]):
        raise Untranslatable(f"block hint probe printed {ns}")
    sw["block_default"] = ns[0] == "bb1"
    # forward-referenced operand of an IsolatedFromAbove operation
    x, y = test.TestOp(result_types=[i32]), test.TestOp(result_types=[i32])
    iso = _STATE["IsoOp"].create(operands=[x.results[0]])
    ns = names_of(ModuleOp([iso, x, y]))
    if ns not in (["0", "0", "0"], ["0", "0", "1"]):
        raise Untranslatable(f"isolated-operand probe printed {ns}")
    sw["iso_operands"] = ns[2] == "1"
    # hinted entry block whose label is omitted
    b0, b1 = Block(), Block()
    b0.name_hint = "a"
    b1.name_hint = "a"
    b0.add_op(test.TestTermOp(successors=[b1]))
    b1.add_op(test.TestTermOp())
    ns = names_of(ModuleOp([test.TestOp(regions=[Region([b0, b1])])]))
    if ns not in (["a_1", "a_1"], ["a", "a"]):
        raise Untranslatable(f"entry-block hint probe printed {ns}")
    sw["entry_hint"] = ns[0] == "a"
    return sw


def unicode_word_table():
    """code points >= 128 matched by \\w / \\d of CPython's re (str patterns, no re.ASCII), as ranges"""
    def ranges(pat):
        rx = re.compile(pat)
        out, start = [], None
        for cp in range(128, 0x110000):
            hit = rx.fullmatch(chr(cp)) is not None
            if hit and start is None:
                start = cp
            elif not hit and start is not None:
                out.append((start, cp - 1))
                start = None
        if start is not None:
            out.append((start, 0x10FFFF))
        return out
    return {"word": ranges(r"\w"), "digit": ranges(r"\d")}


def _table(name, rs):
    body = "; ".join(f"({a}, {b})" for a, b in rs)
    return f"Definition {name} : list (Z * Z) := [{body}]%Z."


def generate(ctx: Ctx):
    from harness.translate import regex2coq as R
    core = R.extract(CORE_PY, ["_VALUE_NAME_PATTERN", "_VALUE_NAME_SUFFIX_PATTERN"])
    lex = R.extract(LEXER_PY, ["_suffix_id"])
    e_name, e_suf, e_sid = core["_VALUE_NAME_PATTERN"], core["_VALUE_NAME_SUFFIX_PATTERN"], lex["_suffix_id"]
    pin = R.Extracted("PINNED_NAME", PINNED_NAME, False, 0, 0)
    rep = R.Extracted("PROPOSED_NAME", PINNED_NAME, True, 0, 0)
    regs = {
        "pin_r_name": (pin, R.parse(PINNED_NAME, False, "c04.py:PINNED_NAME")),
        "rep_r_name": (rep, R.parse(PINNED_NAME, True, "c04.py:PROPOSED_NAME (re.ASCII)")),
        "cur_r_name": (e_name, R.parse(e_name.pattern, e_name.ascii, "ir/core.py:_VALUE_NAME_PATTERN")),
        "cur_r_name_suffix": (e_suf, R.parse(e_suf.pattern, e_suf.ascii, "ir/core.py:_VALUE_NAME_SUFFIX_PATTERN")),
        "cur_r_suffix_id": (e_sid, R.parse(e_sid.pattern, e_sid.ascii, "mlir_lexer.py:_suffix_id")),
    }
    if e_name.pattern != PINNED_NAME:
        raise Untranslatable(f"_VALUE_NAME_PATTERN = {e_name.pattern!r}: not the pattern the hand model of is_valid_name "
                             "(Model.valid_name) describes")
    if e_suf.pattern not in (PINNED_SUFFIX, PROPOSED_SUFFIX):
        raise Untranslatable(f"_VALUE_NAME_SUFFIX_PATTERN = {e_suf.pattern!r}: neither the pinned nor the proposed pattern; "
                             "the hand model of extract_valid_name (Model.strip) does not describe it")
    sw = probe_switches()
    if sw["strip_all"] != (e_suf.pattern == PROPOSED_SUFFIX):
        raise Untranslatable("extract_valid_name does not behave like its suffix pattern")
    if "tabs" not in _STATE:
        _STATE["tabs"] = unicode_word_table()
    tabs = _STATE["tabs"]
    out = ["(* GENERATED on every run by harness/props/c04.py::generate (regex2coq + behaviour probes) from",
           "   xdsl/ir/core.py, xdsl/utils/mlir_lexer.py, xdsl/printer.py -- do not edit. *)",
           "From Coq Require Import ZArith List.", "From XV Require Import C07.Regex C04.Model.",
           "Import ListNotations.", ""]
    for name, (e, node) in regs.items():
        shown = repr(e.pattern).replace("*)", "* )").replace("(*", "( *").replace('"', "<dq>")
        out.append(f"(* {e.name}  line {e.lineno}  ascii={e.ascii}  pattern {shown} *)")
        out.append(f"Definition {name} : regex :=\n  {R.to_coq(node)}.")
    out.append("")
    out.append(f"Definition cur_cfg : cfg := Cfg {' '.join('true' if sw[k] else 'false' for k in ('strip_all', 'block_default', 'iso_operands', 'entry_hint'))}.")
    out.append(_table("tbl_uword", tabs["word"]))
    out.append(_table("tbl_udigit", tabs["digit"]))
    write_if_changed(COQ / "Gen" / "C04_current.v", "\n".join(out) + "\n")
    _STATE.update(sw=sw, regs=regs)
    ctx.coverage["translator_functions"] = {
        name: {"source": e.name, "line": e.lineno, "pattern": e.pattern, "ascii": e.ascii}
        for name, (e, node) in regs.items()}
    ctx.coverage["code_switches_read_from_probes"] = sw
    ctx.coverage["name_pattern_ascii_flag"] = e_name.ascii


# ------------------------------------------------------------------------------------------------
# generators (every case a pure function of the rng)

HINT_POOL = [
    ("a", 8), ("a_1", 5), ("a_1_2", 4), ("a_2", 2), ("a_01", 1), ("b", 3), ("x_0", 1), ("x_00", 1), ("_1", 2),
    ("_", 1), ("__1", 1), ("a__1", 1), ("bb", 2), ("bb0", 3), ("bb1", 4), ("bb2", 3), ("bb10", 1), ("bb1_1", 2),
    ("bb01", 1), ("bb_1", 1), ("0", 1), ("1a", 1), ("", 1), ("aé", 2), ("x²", 2), ("é", 1),
    ("a_٣", 1), ("bb²", 0), ("$", 1), ("-", 1), ("a-", 1), ("a.b", 1), ("a$_1", 1), ("arg0", 2),
    ("arg1_2_3", 1), ("v" * 120, 1), ("v" * 120 + "_1", 1), ("A", 1), ("a b", 1), ("a_1_", 1), ("q_7_7", 1),
    ("r", 3), ("r_1", 2), (None, 30),
]
PLAIN_POOL = [("a", 4), ("b", 3), ("c", 2), ("arg", 2), ("x.y", 1), ("lhs", 1), ("$t", 1), (None, 12)]


def pick(rng, pool):
    return rng.choices([h for h, _ in pool], [w for _, w in pool])[0]


def gen_skeleton(rng, pool, budget=14, well_formed=True, p_iso=0.25, p_fwd=0.2, p_entry_succ=0.0):
    """a module body: structure first, then operands/successors chosen among what is visible"""
    cnt = {"v": 0, "b": 100, "n": budget}

    def new_v():
        cnt["v"] += 1
        return cnt["v"]

    def new_b():
        cnt["b"] += 1
        return cnt["b"]

    def g_op(depth, terminator, nsucc_blocks):
        cnt["n"] -= 1
        iso = rng.random() < p_iso
        k = ("isoterm" if iso else "term") if terminator else ("iso" if iso else "op")
        op = {"k": k, "res": [], "rid": [], "args": [], "succ": [], "regs": [],
              "nargs": rng.choices([0, 1, 2, 3], [4, 4, 2, 1])[0], "nsucc": 0}
        for _ in range(rng.choices([0, 1, 2, 3], [3, 5, 2, 1])[0]):
            op["res"].append(pick(rng, pool))
            op["rid"].append(new_v())
        if terminator and nsucc_blocks > 1:
            op["nsucc"] = rng.choices([0, 1, 2, 3], [2, 4, 3, 1])[0]
        if depth < 3 and cnt["n"] > 0 and rng.random() < 0.45:
            for _ in range(rng.choices([1, 2], [4, 1])[0]):
                op["regs"].append(g_region(depth + 1, rng.random() < 0.15 and not iso))
        return op

    def g_region(depth, allow_empty):
        if allow_empty and rng.random() < 0.5:
            return []
        nb = rng.choices([1, 2, 3, 4], [6, 3, 2, 1])[0]
        blocks = []
        for i in range(nb):
            b = {"id": new_b(), "h": pick(rng, pool), "args": [], "ops": []}
            for _ in range(rng.choices([0, 1, 2], [5, 3, 1])[0]):
                b["args"].append([new_v(), pick(rng, pool)])
            nops = rng.choices([0, 1, 2, 3], [1, 3, 3, 1])[0] if cnt["n"] > 0 else 0
            for _ in range(nops):
                b["ops"].append(g_op(depth, False, nb))
            b["ops"].append(g_op(depth, True, nb))
            blocks.append(b)
        return blocks

    ops = []
    for _ in range(rng.randint(1, 5)):
        ops.append(g_op(0, False, 1))

    # second pass: wiring
    def direct_defs(blocks):
        out = []
        for b in blocks:
            out += [v for v, _ in b["args"]]
            for o in b["ops"]:
                out += o["rid"]
        return out

    def wire_op(op, vis, region_blocks, entry_unlabeled):
        pool_v = [v for v in vis if v not in op["rid"] or op["k"] in ("op", "term")]
        if op["k"] in ("iso", "isoterm"):
            pool_v = [v for v in vis if v not in op["rid"]]
        for _ in range(op.pop("nargs")):
            if pool_v:
                op["args"].append(rng.choice(pool_v))
        ns = op.pop("nsucc")
        cands = [b["id"] for i, b in enumerate(region_blocks) if not (i == 0 and entry_unlabeled)]
        if rng.random() < p_entry_succ and region_blocks:
            cands = [b["id"] for b in region_blocks]
        for _ in range(ns):
            if cands:
                op["succ"].append(rng.choice(cands))
        inner_vis = [] if op["k"] in ("iso", "isoterm") else vis
        for r in op["regs"]:
            wire_region(r, inner_vis)

    def wire_region(blocks, vis):
        vis2 = vis + direct_defs(blocks)
        eu = bool(blocks) and not blocks[0]["args"] and bool(blocks[0]["ops"])
        for b in blocks:
            for o in b["ops"]:
                wire_op(o, vis2, blocks, eu)

    top_defs = [v for o in ops for v in o["rid"]]
    for o in ops:
        wire_op(o, top_defs, [], False)
    if well_formed and rng.random() > p_fwd:
        pass
    return {"ops": ops}


def walk_ops(case):
    def w(op):
        yield op
        for r in op["regs"]:
            for b in r:
                for o in b["ops"]:
                    yield from w(o)
    for o in case["ops"]:
        yield from w(o)


# ------------------------------------------------------------------------------------------------
# statement-level oracle (independent of the model): print -> parse -> compare -> print


def attr_text(a) -> str:
    from xdsl.printer import Printer
    s = io.StringIO()
    Printer(stream=s).print_attribute(a)
    return s.getvalue()


def canon_dump(op):
    """own canonical form of an IR: names, wiring, types, attribute / property values, block structure.
    A property equal to its declared default counts as absent; an inherent attribute given in the
    attribute dictionary counts as the property it denotes (the property's statement)."""
    from xdsl.irdl import IRDLOperation
    ids = {}

    def cid(o):
        return ids.setdefault(id(o), len(ids))

    def attrs_of(o):
        props = dict(o.properties)
        attrs = dict(o.attributes)
        if isinstance(o, IRDLOperation):
            d = type(o).get_irdl_definition()
            for name, pdef in d.properties.items():
                if name in attrs and name not in props:
                    props[name] = attrs.pop(name)
                dv = getattr(pdef, "default_value", None)
                if dv is not None and name in props and props[name] == dv:
                    del props[name]
            for name, adef in d.attributes.items():
                dv = getattr(adef, "default_value", None)
                if dv is not None and name in attrs and attrs[name] == dv:
                    del attrs[name]
        return (sorted((k, attr_text(v)) for k, v in props.items()),
                sorted((k, attr_text(v)) for k, v in attrs.items()))

    def w(o):
        p, a = attrs_of(o)
        return [o.name, [cid(r) for r in o.results], [attr_text(r.type) for r in o.results],
                [cid(x) for x in o.operands], [attr_text(x.type) for x in o.operands],
                [cid(s) for s in o.successors], p, a,
                [[[cid(b), [[cid(x), attr_text(x.type)] for x in b.args], [w(c) for c in b.ops]]
                  for b in r.blocks] for r in o.regions]]
    return w(op)


def verifies(m) -> bool:
    try:
        m.verify()
        return True
    except Exception:   # noqa: BLE001 -- any refusal means "not an IR that verifies"
        return False


def oracle_failures(m, allow_unregistered=False):
    """-> list of (kind, why); empty = the property's statement holds on this (verifying) IR.
    kinds: twice | clone | parse | differs | reprint"""
    from xdsl.parser import Parser
    from xdsl.utils.exceptions import ParseError
    out = []
    text = generic_text(m)
    if generic_text(m) != text:
        out.append(("twice", "printing the same IR twice gives different text"))
    try:
        cl = m.clone()
    except Exception:   # noqa: BLE001 -- cloning is property C02's business
        cl = None
    if cl is not None:
        t2 = generic_text(cl)
        if t2 != text:
            out.append(("clone", "printing a clone gives different text (" + first_line_diff(text, t2) + ")"))
    ctx = new_context()
    ctx.allow_unregistered = allow_unregistered
    try:
        m2 = Parser(ctx, text).parse_module()
    except Exception as e:   # noqa: BLE001 -- ParseError or worse: the text is not read back
        out.append(("parse", f"the generic text does not parse ({type(e).__name__}): " + str(e).strip().split("\n")[-1][:160]))
        return out
    d1, d2 = canon_dump(m), canon_dump(m2)
    if d1 != d2:
        out.append(("differs", "the parsed IR differs from the printed one (" + first_diff(d1, d2) + ")"))
    text2 = generic_text(m2)
    if text2 != text:
        # An inherent attribute written in the attribute dictionary is read back as the property it
        # denotes (the property's statement counts the two as the same IR): the text then changes once,
        # and must be reproduced from there on.
        if d1 == d2 and any(_inherent_in_dict(o) for o in m.walk()):
            try:
                ctx3 = new_context()
                ctx3.allow_unregistered = allow_unregistered
                text3 = generic_text(Parser(ctx3, text2).parse_module())
            except ParseError:
                text3 = None
            if text3 == text2:
                return out
        out.append(("reprint", "the parsed IR prints different text (" + first_line_diff(text, text2) + ")"))
    return out


def _inherent_in_dict(op) -> bool:
    from xdsl.irdl import IRDLOperation
    if not isinstance(op, IRDLOperation):
        return False
    props = type(op).get_irdl_definition().properties
    return any(k in props and k not in op.properties for k in op.attributes)


def roundtrip_oracle(m, allow_unregistered=False):
    fs = oracle_failures(m, allow_unregistered)
    return (not fs), "; ".join(w for _, w in fs)


EXPLAINS = {
    "clone": ["C04-kf-6", "C04-kf-1"],
    "parse": ["C04-kf-1", "C04-kf-2", "C04-kf-3", "C04-kf-5"],
    "differs": ["C04-kf-1", "C04-kf-2", "C04-kf-5", "C04-kf-7"],
    "reprint": ["C04-kf-1", "C04-kf-2", "C04-kf-4", "C04-kf-5", "C04-kf-7"],
    "twice": [],
}


def explain(m, failures, active=None):
    """the id of a listed defect class of `m` for EVERY failure kind, else None"""
    cls = defect_classes(m)
    if active is not None:
        cls = [k for k in cls if k in active]
    first = None
    for kind, _ in failures:
        hit = [k for k in EXPLAINS[kind] if k in cls]
        if not hit:
            return None
        first = first or hit[0]
    return first


def first_diff(a, b, path=""):
    if type(a) is not type(b):
        return f"{path}: {str(a)[:60]} vs {str(b)[:60]}"
    if isinstance(a, (list, tuple)):
        if len(a) != len(b):
            return f"{path}: length {len(a)} vs {len(b)}"
        for i, (x, y) in enumerate(zip(a, b)):
            if x != y:
                return first_diff(x, y, f"{path}/{i}")
        return path
    return f"{path}: {str(a)[:60]} vs {str(b)[:60]}"


def first_line_diff(a, b):
    for x, y in zip(a.split("\n"), b.split("\n")):
        if x != y:
            return f"{x.strip()[:70]!r} vs {y.strip()[:70]!r}"
    return "length"


# -- classes of the known defects, read off a real IR ---------------------------------------------
_SUFFIX = re.compile(r"_[0-9]+$")
_LEXABLE = re.compile(r"[a-zA-Z$._-][a-zA-Z0-9$._-]*")


def defect_classes(m) -> list:
    """which of the listed defect classes the module belongs to (specific predicates on the IR)"""
    from xdsl.ir import Block
    from xdsl.traits import IsolatedFromAbove
    out = set()
    printed = set()

    def hint_classes(h, is_block):
        if not h:
            return
        if _SUFFIX.search(h):
            out.add("C04-kf-1")
        if _LEXABLE.fullmatch(h) is None:
            out.add("C04-kf-3")
        if is_block and Block.is_default_block_name(h):
            out.add("C04-kf-2")

    def w(op):
        for r in op.results:
            hint_classes(r.name_hint, False)
            printed.add(id(r))
        if op.get_traits_of_type(IsolatedFromAbove) and any(id(x) not in printed for x in op.operands):
            out.add("C04-kf-5")
        for x in op.operands:
            hint_classes(x.name_hint, False)
            printed.add(id(x))
        for reg in op.regions:
            for i, b in enumerate(reg.blocks):
                hint_classes(b.name_hint, True)
                if i == 0 and not b.args and b.ops and b.name_hint:
                    out.add("C04-kf-4")
                if b.name_hint:
                    out.add("C04-kf-6")
                for a in b.args:
                    hint_classes(a.name_hint, False)
                    printed.add(id(a))
                for o in b.ops:
                    w(o)
    w(m)
    if any(_has_resource(o) for o in m.walk()):
        out.add("C04-kf-7")
    return sorted(out)


def _has_resource(op) -> bool:
    from xdsl.dialects.builtin import DenseResourceAttr
    return any(isinstance(a, DenseResourceAttr) for a in list(op.attributes.values()) + list(op.properties.values()))


# ------------------------------------------------------------------------------------------------
# hashed comparison (reading long strings back from coqc is slow)
HMOD = (1 << 61) - 1


def hstep(h, x):
    return (h * 1000003 + (x % HMOD) + 7) % HMOD


def hsx(s, h=0):
    if isinstance(s, int):
        return hstep(hstep(h, 1), s)
    h = hstep(h, 2)
    for x in s:
        h = hsx(x, h)
    return hstep(h, 3)


def m1_hashed(res):
    names, out, lex = res
    if out[0] == 0:
        return [hsx(names), 0, hsx(out[1]), out[2], lex]
    return [hsx(names), out, lex]


# ------------------------------------------------------------------------------------------------
# M1 family


def case_module(case):
    return build_module(case)[0]


def m1_impl_h(case):
    return m1_hashed(m1_impl(case))


def m1_holds(case, res):
    if case.get("illformed"):
        return True, ""
    m = case_module(case)
    if not verifies(m):
        return True, ""
    return roundtrip_oracle(m)


def m1_known(case, res):
    m = case_module(case)
    return explain(m, oracle_failures(m))


def m1_nontrivial(case, res):
    multi = any(len(r) > 1 for o in walk_ops(case) for r in o["regs"])
    iso = any(o["k"] in ("iso", "isoterm", "module", "func") for o in walk_ops(case))
    hinted = any(h for o in walk_ops(case) for h in o["res"]) or any(
        b["h"] or any(h for _, h in b["args"]) for o in walk_ops(case) for r in o["regs"] for b in r)
    if multi or iso or hinted:
        return json.dumps(case, sort_keys=True)
    return None


# ------------------------------------------------------------------------------------------------
# M1b: the name functions


def namefn_impl(case):
    from xdsl.ir import Block, SSAValue
    s = "".join(map(chr, case["s"]))
    try:
        st = [ord(c) for c in SSAValue.extract_valid_name(s)]
    except ValueError:
        st = -1
    lx = lexed_idents("%" + s + " ")
    return [st, 1 if SSAValue.is_valid_name(s) else 0, 1 if Block.is_default_block_name(s) else 0,
            1 if lx == [[0, case["s"]]] else 0]


def namefn_expr(case):
    return f"c04_namefns cur_cfg {coq_cps(case['s'])}"


def namefn_holds(case, res):
    # C04_hint_lexable on the real code: a name the API accepts is one lexer token
    if res[1] == 1 and res[3] == 0:
        return False, "is_valid_name accepts a name that the lexer does not read as one %name token"
    return True, ""


def namefn_known(case, res):
    return "C04-kf-3" if any(c > 127 for c in case["s"]) else None


NAME_ALPHABET = [ord(c) for c in "ab_019$.-bZ "] + [0xE9, 0xB2, 0x663]
UNI_ALPHABET = [ord(c) for c in "ab_09$.-Z"] + [0xE9, 0xB2, 0x663, 0xBD, 0x2167, 0x4E00, 0x301, 0x200B, 0xA0, 0xFF11, 0x1F600, 0x3A9,
                                                 0x5D0, 0x2160, 0x1D7D8, 0x17B5, 0xAA, 0x2118, 0x309B]


def rx_impl(case):
    from xdsl.ir import SSAValue
    s = "".join(map(chr, case["s"]))
    lx = lexed_idents("%" + s + " ")
    return [1 if SSAValue.is_valid_name(s) else 0, 1 if lx == [[0, case["s"]]] else 0]


def rx_holds(case, res):
    if res[0] == 1 and res[1] == 0:
        return False, "is_valid_name accepts a name that the lexer does not read as one %name token"
    return True, ""


def gen_rx_cases(rng, n):
    cases = [{"s": [ord(c) for c in s]} for s in ["a", "aé", "x²", "é", "a٣", "_", "a-b", "0a", "a½", "aⅧ", "a一", "aΩ", "$é"]]
    for _ in range(n):
        cases.append({"s": [rng.choice(UNI_ALPHABET) for _ in range(rng.choice([1, 2, 2, 3, 4]))]})
    return cases


def gen_name_cases(rng, n):
    fixed = ["a", "a_1", "a_1_2", "a_01", "_1", "_", "__1", "a__1", "bb", "bb0", "bb1", "bb10", "bb1_1", "bb01", "bb_1",
             "0", "1a", "", "$", "-", ".", "a-", "a.b", "a$_1", "a_1_", "_1_2", "a_", "b", "bbb1", "bb1a", "1_1", "a b",
             "a_1__2", "x_00", "-1", "$_9", "._", "a-_1", "bb-1", "B1", "bB1"]
    cases = [{"s": [ord(c) for c in s]} for s in fixed]
    for _ in range(n):
        k = rng.choices([1, 2, 3, 4, 5, 6, 8], [1, 2, 3, 3, 3, 2, 1])[0]
        s = [rng.choice(NAME_ALPHABET[:12]) for _ in range(k)]
        if rng.random() < 0.5:
            s += [95] + [rng.choice([48, 49, 57]) for _ in range(rng.randint(1, 2))]
        if rng.random() < 0.3:
            s += [95] + [rng.choice([48, 49, 57]) for _ in range(rng.randint(1, 2))]
        if rng.random() < 0.15:
            s = [98, 98] + [rng.choice([48, 49, 50, 97, 95]) for _ in range(rng.randint(0, 3))]
        cases.append({"s": s})
    return cases


# ------------------------------------------------------------------------------------------------
# oracle-only families: the .mlir corpus and pass outputs


def corpus_chunks():
    if "chunks" not in _STATE:
        chunks = []
        files = sorted((REPO / "tests").rglob("*.mlir"))
        for f in files:
            try:
                txt = f.read_text()
            except UnicodeDecodeError:
                continue
            for k, ch in enumerate(txt.split("// -----")):
                if ch.strip():
                    chunks.append((str(f.relative_to(REPO)), k, ch))
        _STATE["chunks"] = chunks
        _STATE["n_files"] = len(files)
    return _STATE["chunks"]


class _Timeout(Exception):
    pass


def time_limit(seconds):
    import contextlib
    import signal

    @contextlib.contextmanager
    def cm():
        def handler(signum, frame):
            raise _Timeout()
        old = signal.signal(signal.SIGALRM, handler)
        signal.setitimer(signal.ITIMER_REAL, seconds)
        try:
            yield
        finally:
            signal.setitimer(signal.ITIMER_REAL, 0)
            signal.signal(signal.SIGALRM, old)
    return cm()


def parse_chunk(text):
    """-> module or None (not parseable / does not verify)"""
    from xdsl.parser import Parser
    ctx = new_context()
    ctx.allow_unregistered = True
    try:
        with time_limit(5):
            m = Parser(ctx, text).parse_module()
            m.verify()
        return m
    except (_Timeout, Exception):   # noqa: BLE001 -- not a parseable, verifying chunk: not in the domain
        return None


def oracle_family(ctx, name, items, get_module):
    """items: list of descriptors; get_module(item) -> verified module or None.  Oracle only."""
    t = time.time()
    active = ctx.active_known_ids()
    n = ok = 0
    known_hits, fails = {}, []
    for it in items:
        m = get_module(it)
        if m is None:
            continue
        n += 1
        try:
            with time_limit(20):
                fs = oracle_failures(m, allow_unregistered=True)
        except _Timeout:
            continue
        ctx.evaluations += 1
        if not fs:
            ok += 1
            ctx.nontrivial.add((name, hash(generic_text(m))))
            continue
        kid = explain(m, fs, active)
        if kid:
            known_hits[kid] = known_hits.get(kid, 0) + 1
            for e in ctx.known_findings:
                if e.get("id") == kid:
                    ctx.known(kid, e["what"])
        else:
            fails.append((it, "; ".join(w for _, w in fs)))
    ctx.coverage.setdefault("families", {})[name] = {
        "cases": n, "oracle_failures": len(fails), "known_finding_hits": known_hits, "round_trips": ok,
        "exhaustive": False, "wall_s": round(time.time() - t, 2)}
    if fails:
        it, why = fails[0]
        ctx.violation({"family": name, "case": it if not isinstance(it, tuple) else list(it[:2]), "oracle": why,
                       "other_failing_cases": len(fails) - 1})


def run_passes_on(m, rng, max_passes=2):
    """apply up to max_passes registered passes that need no arguments; -> list of pass names applied"""
    from xdsl.transforms import get_all_passes
    if "passes" not in _STATE:
        ps = []
        for name, f in sorted(get_all_passes().items()):
            try:
                cls = f()
                cls()       # constructible without arguments
                ps.append((name, cls))
            except Exception:   # noqa: BLE001
                pass
        _STATE["passes"] = ps
    applied = []
    ctx = new_context()
    ctx.allow_unregistered = True
    for name, cls in rng.sample(_STATE["passes"], min(max_passes, len(_STATE["passes"]))):
        try:
            import contextlib
            with time_limit(5), contextlib.redirect_stdout(io.StringIO()), contextlib.redirect_stderr(io.StringIO()):
                cls().apply(ctx, m)
                m.verify()
            applied.append(name)
        except (_Timeout, BaseException):   # noqa: BLE001 -- a pass that refuses its input is not this property's business
            return None
    return applied


# ------------------------------------------------------------------------------------------------
# M3: token-level generic syntax
#
# rich case = skeleton case + "types": {value id: type code}, and per op "props"/"attrs": [[key, val|None]...]
# atoms: [2, k] bare identifier, [3, k] string literal, [4, k] @symbol   (codes as in Model.v)

OP_NAMES = {"test.op": 2, "test.termop": 4, "c04.iso": 3, "c04.isoterm": 5, "builtin.module": 7}
BARE = {"prop1": 1, "prop2": 2, "prop3": 3, "ka": 10, "kb": 11, "kc": 12, "i32": 100, "index": 101, "f32": 102, "i1": 103}
STRS = {"s0": 100, "s 1": 101, "q k": 102, "": 103}
SYMS = {"f0": 1, "g1": 2}
TYPE_CODES = [100, 101, 102, 103]
INV = {"bare": {v: k for k, v in BARE.items()}, "str": {v: k for k, v in STRS.items()},
       "op": {v: k for k, v in OP_NAMES.items()}, "sym": {v: k for k, v in SYMS.items()}}
PUNCT = {"L_PAREN": 10, "R_PAREN": 11, "L_BRACE": 12, "R_BRACE": 13, "L_SQUARE": 14, "R_SQUARE": 15, "LESS": 16,
         "GREATER": 17, "COMMA": 18, "COLON": 19, "EQUAL": 20, "ARROW": 21}
PUNCT_TEXT = {10: "(", 11: ")", 12: "{", 13: "}", 14: "[", 15: "]", 16: "<", 17: ">", 18: ",", 19: ":", 20: "=", 21: "->"}
COQ_PUNCT = {10: "TLP", 11: "TRP", 12: "TLB", 13: "TRB", 14: "TLS", 15: "TRS", 16: "TLT", 17: "TGT", 18: "TComma",
             19: "TColon", 20: "TEq", 21: "TArrow"}


def attr_of_atom(a):
    from xdsl.dialects import builtin
    kind, k = a
    if kind == 2:
        return {100: builtin.i32, 101: builtin.IndexType(), 102: builtin.f32, 103: builtin.i1}[k]
    if kind == 3:
        return builtin.StringAttr(INV["str"][k])
    return builtin.SymbolRefAttr(INV["sym"][k])


def atom_of_attr(a):
    from xdsl.dialects import builtin
    if isinstance(a, builtin.UnitAttr):
        return -1
    if isinstance(a, builtin.StringAttr):
        return [3, STRS.get(a.data, 999)]
    if isinstance(a, builtin.SymbolRefAttr):
        return [4, SYMS.get(a.root_reference.data, 999)]
    t = attr_text(a)
    return [2, BARE.get(t, 999)]


def key_atom(text):
    return [2, BARE[text]] if text in BARE else [3, STRS.get(text, 999)]


def key_text(a):
    return INV["bare"][a[1]] if a[0] == 2 else INV["str"][a[1]]


def gen_rich(rng, budget=8, one_type=False):
    """one_type: every type keyword is i32 (the model's name resolution does not track types, so a
    mutated stream must not be able to produce a type clash)"""
    case = gen_skeleton(rng, PLAIN_POOL, budget=budget, p_iso=0.25)
    types = {}
    tc = [100] if one_type else TYPE_CODES
    for o in walk_ops(case):
        for v in o["rid"]:
            types[v] = rng.choice(tc)
        for r in o["regs"]:
            for b in r:
                for v, _ in b["args"]:
                    types[v] = rng.choice(tc)
        vals = [[2, 100], [2, 101], [2, 102], [3, 100], [3, 101], [3, 103], [4, 1], [4, 2], None]
        if one_type:
            vals = [[2, 100], [3, 100], [3, 101], [3, 103], [4, 1], [4, 2], None]
        o["props"] = []
        pnames = ["prop1", "prop2", "prop3"] if o["k"] in ("op", "term") else ["prop1"]
        for pn in pnames:
            if rng.random() < 0.3:
                o["props"].append([[2, BARE[pn]], rng.choice(vals)])
        o["attrs"] = []
        for kn in rng.sample(["ka", "kb", "kc", "q k", "s 1"], rng.choice([0, 0, 1, 2, 3])):
            o["attrs"].append([key_atom(kn), rng.choice(vals)])
    case["types"] = {str(k): v for k, v in types.items()}
    return case


def build_rich(case):
    """like build_module, with types, properties and attributes"""
    from xdsl.dialects import builtin, test
    from xdsl.dialects.builtin import ModuleOp
    from xdsl.ir import Block, Region
    c04_dialect()
    types = {int(k): attr_of_atom([2, v]) for k, v in case["types"].items()}
    values, blocks, patches = {}, {}, []

    def set_hint(obj, raw):
        if raw is not None:
            try:
                obj.name_hint = raw
            except ValueError:
                pass

    def pre_blocks(op):
        for r in op["regs"]:
            for b in r:
                blk = Block(arg_types=[types[v] for v, _ in b["args"]])
                blocks[b["id"]] = blk
                set_hint(blk, b["h"])
                for a, (vid, raw) in zip(blk.args, b["args"]):
                    values[vid] = a
                    set_hint(a, raw)
                for o in b["ops"]:
                    pre_blocks(o)

    dummies = {}

    def dummy(t):
        if t not in dummies:
            dummies[t] = test.TestOp(result_types=[t]).results[0]
        return dummies[t]

    def mk_op(op):
        regions = []
        for r in op["regs"]:
            blks = []
            for b in r:
                blk = blocks[b["id"]]
                for o in b["ops"]:
                    blk.add_op(mk_op(o))
                blks.append(blk)
            regions.append(Region(blks))
        cls = {"op": test.TestOp, "term": test.TestTermOp, "iso": _STATE["IsoOp"], "isoterm": _STATE["IsoTermOp"]}[op["k"]]
        kw = dict(operands=[dummy(types[a]) for a in op["args"]], result_types=[types[v] for v in op["rid"]],
                  regions=regions,
                  properties={key_text(k): (attr_of_atom(v) if v else builtin.UnitAttr()) for k, v in op["props"]},
                  attributes={key_text(k): (attr_of_atom(v) if v else builtin.UnitAttr()) for k, v in op["attrs"]})
        if op["k"] in ("term", "isoterm"):
            kw["successors"] = [blocks[s] for s in op["succ"]]
        o = cls.create(**kw)
        for vid, raw, r in zip(op["rid"], op["res"], o.results):
            values[vid] = r
            set_hint(r, raw)
        for i, a in enumerate(op["args"]):
            patches.append((o, i, a))
        return o

    top = {"regs": [[{"id": -1, "h": None, "args": [], "ops": case["ops"]}]]}
    pre_blocks(top)
    body = blocks[-1]
    for o in case["ops"]:
        body.add_op(mk_op(o))
    for o, i, a in patches:
        o.operands[i] = values[a]
    return ModuleOp.create(regions=[Region([body])]), values, blocks


def lex_model_tokens(text):
    """the real lexer's tokens in the model's encoding; None if a token has no model counterpart"""
    from xdsl.utils.exceptions import ParseError
    from xdsl.utils.lexer import Input
    from xdsl.utils.mlir_lexer import MLIRLexer, MLIRTokenKind
    lx = MLIRLexer(Input(text, "<c04>"))
    out = []
    try:
        while True:
            t = lx.lex()
            k = t.kind
            if k is MLIRTokenKind.EOF:
                return out
            if k is MLIRTokenKind.PERCENT_IDENT:
                out.append([0, [ord(c) for c in t.text[1:]]])
            elif k is MLIRTokenKind.CARET_IDENT:
                out.append([1, [ord(c) for c in t.text[1:]]])
            elif k is MLIRTokenKind.BARE_IDENT:
                out.append([2, BARE.get(t.text, 999)])
            elif k is MLIRTokenKind.STRING_LIT:
                body = t.kind.get_string_literal_value(t.span) if hasattr(t.kind, "get_string_literal_value") else t.text[1:-1]
                out.append([3, OP_NAMES[body] if body in OP_NAMES else STRS.get(body, 999)])
            elif k is MLIRTokenKind.AT_IDENT:
                out.append([4, SYMS.get(t.text[1:], 999)])
            elif k.name in PUNCT:
                out.append(PUNCT[k.name])
            else:
                return None
    except ParseError:
        return None


def tokens_text(toks):
    out = []
    for t in toks:
        if isinstance(t, int):
            out.append(PUNCT_TEXT[t])
        elif t[0] == 0:
            out.append("%" + "".join(map(chr, t[1])))
        elif t[0] == 1:
            out.append("^" + "".join(map(chr, t[1])))
        elif t[0] == 2:
            out.append(INV["bare"][t[1]])
        elif t[0] == 3:
            out.append('"' + (INV["op"][t[1]] if t[1] < 100 else INV["str"][t[1]]) + '"')
        else:
            out.append("@" + INV["sym"][t[1]])
    return " ".join(out)


def coq_tok(t):
    if isinstance(t, int):
        return COQ_PUNCT[t]
    return ["(TPct %s)", "(TCaret %s)", "(TBare %s)", "(TStrL %s)", "(TAt %s)"][t[0]] % (
        coq_cps(t[1]) if t[0] < 2 else str(t[1]))


def coq_atom(a):
    return ["", "", "(ABare %d)", "(AStr %d)", "(AAt %d)"][a[0]] % a[1]


def coq_rich(case, ht):
    m, values, blocks = build_rich(case)
    types = {int(k): v for k, v in case["types"].items()}

    def vh(vid):
        return f"(vh {vid} {ht.ref(stored_hint(values[vid]))})"

    def ents(es):
        return coq_list_p((f"(en {coq_atom(k)} {coq_atom(v)})" if v else f"(eu {coq_atom(k)})") for k, v in es)

    def blk(b):
        args = coq_list_p(f"({vh(v)}, ABare {types[v]})" for v, _ in b["args"])
        return f"(sk_bkx {b['id']} {ht.ref(stored_hint(blocks[b['id']]))} {args} {coq_list_p(op(o) for o in b['ops'])})"

    def op(o):
        regs = coq_list_p(coq_list_p(blk(b) for b in r) for r in o["regs"])
        it = coq_list_p(f"(ABare {types[a]})" for a in o["args"])
        ot = coq_list_p(f"(ABare {types[v]})" for v in o["rid"])
        return (f"(sk_opx {KIND_CODE[o['k']]} {coq_list_p(vh(v) for v in o['rid'])} {coq_list_p(vh(a) for a in o['args'])} "
                f"{coq_list_p(str(s) for s in o['succ'])} {ents(o['props'])} {regs} {ents(o['attrs'])} {it} {ot})")

    body = f"(sk_bkx (-1) 0 nil {coq_list_p(op(o) for o in case['ops'])})"
    return f"(sk_opx 7 nil nil nil nil (cons (cons {body} nil) nil) nil nil nil)"


def m3_print_impl(case):
    m, _, _ = build_rich(case)
    toks = lex_model_tokens(generic_text(m))
    return -1 if toks is None else hsx(toks)


def real_payload(m):
    from xdsl.irdl import IRDLOperation
    out = []

    def w(op):
        out.append([0, OP_NAMES.get(op.name, 999),
                    [[key_atom(k) if k in BARE or k in STRS else [3, 999], atom_of_attr(v)] for k, v in op.properties.items()],
                    [[key_atom(k) if k in BARE or k in STRS else [3, 999], atom_of_attr(v)] for k, v in op.attributes.items()],
                    [atom_of_attr(x.type) for x in op.operands], [atom_of_attr(x.type) for x in op.results]])
        for reg in op.regions:
            for b in reg.blocks:
                out.append([1, [atom_of_attr(a.type) for a in b.args]])
                for o in b.ops:
                    w(o)
    w(m)
    return out


def m3_parse_impl(case):
    from xdsl.parser import Parser
    from xdsl.utils.exceptions import ParseError
    text = tokens_text(case["toks"])
    try:
        m2 = Parser(new_context(), text).parse_module()
    except ParseError:
        return [-1, 1]
    except Exception as e:   # noqa: BLE001 -- any other exception class is visible as a divergence from the model
        return [-1, 100 + exc_code(e)]
    return [0, hsx(canon_leaves(m2)), hsx(real_payload(m2))]


def m3_parse_expr(case):
    return f"c04_m3_parse cur_cfg {coq_list_p(coq_tok(t) for t in case['toks'])}"


def m3_parse_holds(case, res):
    if not case.get("pristine"):
        return True, ""
    if res[0] != 0:
        return False, "the unmodified generic text of a verified module does not parse"
    return True, ""


def mutate_tokens(rng, toks):
    toks = list(toks)
    for _ in range(rng.choice([1, 1, 2])):
        if not toks:
            break
        i = rng.randrange(len(toks))
        k = rng.random()
        if k < 0.4:
            del toks[i]
        elif k < 0.6:
            toks.insert(i, toks[i])
        elif k < 0.8 and i + 1 < len(toks):
            toks[i], toks[i + 1] = toks[i + 1], toks[i]
        else:
            toks[i] = rng.choice(list(PUNCT_TEXT))
    return toks



# ------------------------------------------------------------------------------------------------


def replay_case(ctx, witness):
    fam, case = witness.get("family"), witness.get("case")
    if fam == "m1-skeletons" and case:
        ht = HintTable()
        print("impl :", m1_impl(case))
        e = coq_skel(case, ht)
        print("model:", ctx.coq_eval(REQ, [f"c04_m1 cur_cfg {e}"], prelude=ht.prelude() + PRELUDE)[0])
        print("oracle:", m1_holds(case, None))
        print(generic_text(case_module(case)))
    return 0


PRELUDE = "Notation vh := (vh_ h).\nNotation sk_bk := (sk_bk_ h).\nNotation sk_bkx := (sk_bkx_ h).\n"


def run(ctx: Ctx):
    thorough = ctx.tier == "thorough"
    rng = ctx.rng
    if "sw" not in _STATE:
        generate(ctx)
    # (0) committed witnesses
    replay_findings(ctx, "m1-skeletons", m1_impl_h, m1_holds)
    replay_findings(ctx, "name-functions", namefn_impl, namefn_holds)
    # (1) M1: skeletons with adversarial hints (and a plain-hint stream that must round-trip)
    cases = []
    for _ in range(1500 if thorough else 260):
        cases.append(gen_skeleton(rng, HINT_POOL, budget=rng.choice([6, 10, 14])))
    for _ in range(900 if thorough else 160):
        cases.append(gen_skeleton(rng, PLAIN_POOL, budget=rng.choice([6, 10, 16]), p_iso=0.3))
    for _ in range(300 if thorough else 60):
        c = gen_skeleton(rng, PLAIN_POOL, budget=10, p_entry_succ=0.6)
        c["illformed"] = True      # may branch to an entry block whose label is omitted: correspondence only
        cases.append(c)
    ht = HintTable()
    exprs = {}
    for i, c in enumerate(cases):
        exprs[i] = f"c04_m1h cur_cfg {coq_skel(c, ht)}"
    idx = {id(c): i for i, c in enumerate(cases)}
    differential(ctx, DiffSpec("m1-skeletons", REQ, cases, m1_impl_h, lambda c: exprs[idx[id(c)]],
                               m1_holds, m1_known, m1_nontrivial, prelude=ht.prelude() + PRELUDE, shard=120))
    # (1b) the name functions
    ncases = gen_name_cases(rng, 3000 if thorough else 500)
    differential(ctx, DiffSpec("name-functions", REQ, ncases, namefn_impl, namefn_expr, namefn_holds, namefn_known,
                               lambda c, r: tuple(c["s"]) if r[0] != -1 else None, shard=400))
    # (1b') the translated regexes with CPython's Unicode classes vs the real is_valid_name / lexer
    xcases = gen_rx_cases(rng, 1500 if thorough else 300)
    differential(ctx, DiffSpec("name-pattern-unicode", REQ_RX, xcases, rx_impl, lambda c: f"c04_rx {coq_cps(c['s'])}",
                               rx_holds, namefn_known, lambda c, r: tuple(c["s"]) if r[0] else None, shard=400))
    # (1c) M3: token streams of rich operations, and the parser on pristine and mutated streams
    rcases = [gen_rich(rng, budget=rng.choice([4, 8, 12])) for _ in range(600 if thorough else 120)]
    rcases = [c for c in rcases if not defect_classes(build_rich(c)[0]) or True]
    ht3 = HintTable()
    e3 = {id(c): f"c04_m3_print cur_cfg {coq_rich(c, ht3)}" for c in rcases}
    differential(ctx, DiffSpec("m3-token-stream", REQ, rcases, m3_print_impl, lambda c: e3[id(c)], None, None,
                               lambda c, r: r if r != -1 else None, prelude=ht3.prelude() + PRELUDE, shard=60))
    pcases = []
    for _ in range(500 if thorough else 100):
        c = gen_rich(rng, budget=rng.choice([3, 6, 10]), one_type=True)
        m = build_rich(c)[0]
        toks = lex_model_tokens(generic_text(m))
        if toks is None or [k for k in defect_classes(m) if k not in ("C04-kf-6", "C04-kf-7")]:
            continue
        pcases.append({"toks": toks, "pristine": verifies(m)})
        for _ in range(3):
            pcases.append({"toks": mutate_tokens(rng, toks), "pristine": False})
    differential(ctx, DiffSpec("m3-parse-mutated", REQ, pcases, m3_parse_impl, m3_parse_expr, m3_parse_holds, None,
                               lambda c, r: json.dumps(c["toks"]) if r[0] == 0 else None, shard=60))
    # (2) corpus, oracle only
    chunks = corpus_chunks()
    pick_n = len(chunks) if thorough else 250
    sel = chunks if thorough else rng.sample(chunks, min(pick_n, len(chunks)))
    oracle_family(ctx, "mlir-corpus", sel, lambda it: parse_chunk(it[2]))
    # (3) pass outputs, oracle only
    psel = rng.sample(chunks, min(600 if thorough else 60, len(chunks)))

    def after_passes(it):
        m = parse_chunk(it[2])
        if m is None:
            return None
        if run_passes_on(m, rng) is None:
            return None
        return m
    oracle_family(ctx, "pass-outputs", psel, after_passes)
    ctx.coverage["corpus_files"] = _STATE.get("n_files")
    ctx.coverage["corpus_chunks"] = len(chunks)
    ctx.coverage["rule"] = __doc__.split("\n\n", 1)[0][-1200:]
