"""C01 -- IR edits keep the op/block/region tree and the use-def chains consistent.

Tie: hand-written Coq model (coq/C01/Model.v: one heap table per class, one Gallina function per
public mutator of xdsl/ir/core.py, xdsl/rewriter.py, PatternRewriter and Builder.create_block,
written statement by statement) vs the real classes, in lock-step on generated call histories.
A case is one history: random initial IR (nested regions, multi-block regions, block arguments,
successors, forward uses, detached spare ops/blocks/regions) built THROUGH THE PUBLIC API, followed by
1-60 mutation calls drawn over all modelled constructors, ~80 % with arguments valid by construction,
~20 % with arbitrary live entities / indices (mostly raising calls).  After EVERY call
  * the whole heap of real objects is dumped through raw private fields (harness/irdump.py) and the
    records that changed are compared with the records the model changed (ids = allocation order),
  * the outcome (ok / exception class) and returned object are compared,
  * the statement-level oracle (an independent python whole-tree walk of the property's three
    sentences on the real objects) is compared with the model-side boolean checker wf_b.
A history stops at the first call after which the oracle fails (so every history has at most one
violation, at its last call); the violation is classified by that call (raising / not raising, shape).
Non-trivial: the history contains at least one successful mutation call after the initial build;
distinct = distinct sequence of call constructors.
"""
from __future__ import annotations

import json
import signal
from collections import Counter

from harness import irdump
from harness.common import (Ctx, DiffSpec, coq_bool, coq_list, coq_nat, coq_Z, differential, replay_findings)

META = {
    "id": "C01",
    "title": "IR edits keep the op/block/region tree and use-def chains consistent",
    "design_ref": "DESIGN.md section 8.C01",
    "technique": "Coq heap model of every IR mutator + invariant-preservation proofs for the core mutators + lock-step "
                 "model-vs-code correspondence on call histories with a proved-sound checker evaluated after every call",
    "level_text": (
        "coq/C01/Spec.v states the property on a heap model (WF: every op/block/region exactly once in its container "
        "forwards and backwards with parent back-pointer; every value's / block's use list is exactly the "
        "(user, index) occurrences in operand / successor lists of live ops; result/argument indices match). "
        "Theorems in coq/Props/C01.v (all closed, no axioms): wf_b_sound (the boolean checker implies WF); the empty "
        "heap satisfies the invariant; for EVERY state and argument, a non-raising call of 46 of the 55 modelled API "
        "constructors preserves WF: PROVED = Operation.create, Block(...), Region(...), Builder.create_block; the operands "
        "and successors setters, OpOperands/OpSuccessors.__setitem__ (any index, code after fix f198beb), "
        "SSAValue.replace_all_uses_with / replace_uses_with_if / erase and the PatternRewriter versions; Block.insert_arg / "
        "erase_arg and PatternRewriter.insert_block_argument / erase_block_argument, Rewriter.replace_value_with_new_type; Block.insert_op_after / insert_op_before / "
        "add_op / add_ops / insert_ops_before / insert_ops_after / detach_op, Operation.detach, Rewriter.insert_op; "
        "Region.add_block / insert_block_before / insert_block_after / insert_block (lists of any length), Rewriter.insert_block, "
        "Region.detach_block (block or index), Region.move_blocks / move_blocks_before, Rewriter.inline_region / "
        "move_region_contents_to_new_regions; Operation.add_region / detach_region (region or index); Operation.erase / "
        "Block.erase_op / Rewriter.erase_op (for an operation without regions, and for an operation with any nested tree of "
        "regions under the hypothesis that every node of the tree that the erase marks is live); Rewriter.replace_op / "
        "PatternRewriter.replace restricted to a replaced operation WITHOUT regions. C01_history: every finite history of "
        "these calls on live arguments, none raising, keeps the invariant (WF + an auxiliary 'parent pointers name allocated "
        "ids' clause needed by creation), in particular every such history from the empty heap; refutation witnesses for the "
        "two repaired defects (old code) and for the three classes of raising calls that leave partial mutations. "
        "PARTIAL -- NOT PROVED (9 constructors), covered only by the tie: Block.erase, Region.erase_block (block / index), "
        "Region.erase, public drop_all_references (op / block / region), Block.split_before, Rewriter.inline_block; also "
        "replace_op / PatternRewriter.replace of an operation with regions. The tie: model and real code run in lock-step on "
        "generated histories, every heap record that changes is compared after every call, and the proved-sound checker wf_b "
        "is evaluated on the model state and compared with an independent whole-tree oracle on the real objects after every call."),
    "level_note": (
        "Trusted: Coq kernel (vm_compute for the Examples and the case evaluation); the hand-written model "
        "coq/C01/Model.v (one Gallina function per public mutator of xdsl/ir/core.py, xdsl/rewriter.py, "
        "PatternRewriter and Builder.create_block, statement by statement; ids = allocation order); "
        "harness/irdump.py (constructor / erase wrappers installed from the harness side, raw-field dumps) and the "
        "generator. Not modelled: name hints, types, attributes, properties, locations, listener notifications and "
        "has_done_action (see C11). Not covered: API misuse that makes a container a descendant of its own content "
        "(add_region / move_blocks / inline_region into the moved region; the code has no check and Python then "
        "recurses/loops forever), inline_block of a block into itself, drop_all_references called publicly on "
        "attached objects, Operation.erase(drop_references=False) called publicly, re-use of erased objects, "
        "clone (C02). WF contains two auxiliary clauses that no sentence of the property states (a detached live "
        "op/block has no neighbour pointers; allocated ids are below the counters): they are compared between model "
        "and code but a failure of only these clauses is reported in the evidence, not as a property violation."),
}
COQ_TARGETS = ["C01/Enc.vo", "C01/ProofsWfb.vo", "C01/ProofsOperands.vo", "C01/ProofsRauw.vo", "C01/ProofsSetOperands.vo", "C01/ProofsSetSuccessors.vo", "C01/ProofsOps.vo", "C01/ProofsBlocks.vo",
               "C01/ProofsOpRegions.vo", "C01/ProofsMove.vo", "C01/ProofsOpLists.vo", "C01/ProofsBlockLists.vo", "C01/ProofsArgs.vo", "C01/ProofsCreate.vo", "C01/ProofsInv.vo", "C01/ProofsErase.vo", "C01/ProofsReplaceType.vo", "C01/ProofsReplaceOp.vo", "C01/ProofsHistory.vo",
               "C01/ProofsDemo.vo", "Props/C01.vo"]
REQ = ["C01.Model", "C01.Spec", "C01.Enc"]
ASSUMPTIONS = [
    "single-threaded use; objects erased by a successful erase call are not used again",
    "no call makes a container a descendant of its own content (add_region / move_blocks / inline_region into the moved region: the code has no check, Python then loops or recurses forever)",
    "drop_all_references is called publicly only on detached roots (it is documented as a step of erasure)",
]

EXC_CODES = {"ValueError": 3, "IndexError": 5, "AssertionError": 6, "TypeError": 7, "StopIteration": 20,
             "AttributeError": 21, "RecursionError": 22, "_Timeout": 99}


def exc_code(e: BaseException) -> int:
    for cls in type(e).__mro__:
        if cls.__name__ in EXC_CODES:
            return EXC_CODES[cls.__name__]
    return 10


class _Timeout(BaseException):
    pass


def _on_alarm(signum, frame):
    raise _Timeout()


# ---------------------------------------------------------------------------- the world of real objects

class World:
    """A registry of real xDSL objects plus the interpreter of `call`s on them."""

    def __init__(self):
        from xdsl.dialects import test
        from xdsl.ir import Block
        from xdsl.pattern_rewriter import PatternRewriter
        irdump.install()
        # a PatternRewriter needs an attached `current_operation`; it is created outside the registry
        # and never takes part in any call
        dummy = test.TestOp.create()
        self._dummy_block = Block([dummy])
        self.pr = PatternRewriter(dummy)
        self.reg = irdump.Registry()
        self.prev_dump = None

    # id -> object
    def O(self, n): return self.reg.get("op", n)
    def B(self, n): return self.reg.get("block", n)
    def R(self, n): return self.reg.get("region", n)
    def V(self, n): return self.reg.get("value", n)
    def Os(self, l): return [self.O(x) for x in l]
    def Bs(self, l): return [self.B(x) for x in l]
    def oO(self, n): return None if n is None else self.O(n)
    def oB(self, n): return None if n is None else self.B(n)

    def one_or_list(self, l, single):
        """`Block | Iterable[Block]` / `Operation | Sequence[Operation]` parameters: pass the bare object
        when the case says so (same behaviour in the model)"""
        return l[0] if (single and len(l) == 1) else l

    def execute(self, c):
        from xdsl.dialects import test
        from xdsl.dialects.builtin import i32, i64
        from xdsl.ir import Block, Region
        from xdsl.rewriter import BlockInsertPoint, InsertPoint, Rewriter
        n, a = c[0], c[1:]
        O, B, R, V = self.O, self.B, self.R, self.V
        if n == "COpCreate":
            return test.TestTermOp.create(operands=[V(x) for x in a[0]], result_types=[i32] * a[1],
                                          successors=self.Bs(a[2]), regions=[R(x) for x in a[3]])
        if n == "CBlockNew":
            return Block(self.Os(a[0]), arg_types=[i32] * a[1])
        if n == "CRegionNew":
            return Region(self.one_or_list(self.Bs(a[0]), len(a) > 1 and a[1]))
        if n == "CSetOperands":
            O(a[0]).operands = [V(x) for x in a[1]]; return None
        if n == "CSetSuccessors":
            O(a[0]).successors = self.Bs(a[1]); return None
        if n == "COperandSetItem":
            O(a[0]).operands[a[1]] = V(a[2]); return None
        if n == "CSuccessorSetItem":
            O(a[0]).successors[a[1]] = B(a[2]); return None
        if n == "CAddRegion":
            O(a[0]).add_region(R(a[1])); return None
        if n == "CDetachRegion":
            return O(a[0]).detach_region(R(a[1]))
        if n == "CDetachRegionIdx":
            return O(a[0]).detach_region(a[1])
        if n in ("COpDropAllReferences", "CBlockDropAllReferences", "CRegionDropAllReferences"):
            obj = {"COpDropAllReferences": O, "CBlockDropAllReferences": B, "CRegionDropAllReferences": R}[n](a[0])
            dead = []
            {"COpDropAllReferences": irdump.collect_op, "CBlockDropAllReferences": irdump.collect_block,
             "CRegionDropAllReferences": irdump.collect_region}[n](obj, dead)
            obj.drop_all_references()
            self.reg.dead.update(id(x) for x in dead)
            return None
        if n == "COpErase":
            O(a[0]).erase(safe_erase=a[1]); return None
        if n == "COpDetach":
            O(a[0]).detach(); return None
        if n == "CReplaceAllUsesWith":
            V(a[0]).replace_all_uses_with(V(a[1])); return None
        if n in ("CReplaceUsesWithIf", "CPrReplaceUsesWithIf"):
            sel = list(a[2])

            def pred(use):
                return bool(sel.pop(0)) if sel else False
            if n == "CReplaceUsesWithIf":
                V(a[0]).replace_uses_with_if(V(a[1]), pred)
            else:
                self.pr.replace_uses_with_if(V(a[0]), V(a[1]), pred)
            return None
        if n == "CValueErase":
            V(a[0]).erase(safe_erase=a[1]); return None
        if n == "CInsertArg":
            return B(a[0]).insert_arg(i32, a[1])
        if n == "CEraseArg":
            B(a[0]).erase_arg(V(a[1]), a[2]); return None
        if n == "CInsertOpAfter":
            B(a[0]).insert_op_after(O(a[1]), O(a[2])); return None
        if n == "CInsertOpBefore":
            B(a[0]).insert_op_before(O(a[1]), O(a[2])); return None
        if n == "CAddOp":
            B(a[0]).add_op(O(a[1])); return None
        if n == "CAddOps":
            B(a[0]).add_ops(self.Os(a[1])); return None
        if n == "CInsertOpsBefore":
            B(a[0]).insert_ops_before(self.Os(a[1]), O(a[2])); return None
        if n == "CInsertOpsAfter":
            B(a[0]).insert_ops_after(self.Os(a[1]), O(a[2])); return None
        if n == "CSplitBefore":
            return B(a[0]).split_before(O(a[1]), arg_types=[i32] * a[2])
        if n == "CDetachOp":
            return B(a[0]).detach_op(O(a[1]))
        if n == "CEraseOp":
            B(a[0]).erase_op(O(a[1]), a[2]); return None
        if n == "CBlockErase":
            B(a[0]).erase(safe_erase=a[1]); return None
        if n == "CAddBlock":
            R(a[0]).add_block(self.one_or_list(self.Bs(a[1]), len(a) > 2 and a[2])); return None
        if n == "CInsertBlockBefore":
            R(a[0]).insert_block_before(self.one_or_list(self.Bs(a[1]), len(a) > 3 and a[3]), B(a[2])); return None
        if n == "CInsertBlockAfter":
            R(a[0]).insert_block_after(self.one_or_list(self.Bs(a[1]), len(a) > 3 and a[3]), B(a[2])); return None
        if n == "CInsertBlock":
            R(a[0]).insert_block(self.one_or_list(self.Bs(a[1]), len(a) > 3 and a[3]), a[2]); return None
        if n == "CDetachBlock":
            return R(a[0]).detach_block(B(a[1]))
        if n == "CDetachBlockIdx":
            return R(a[0]).detach_block(a[1])
        if n == "CEraseBlock":
            R(a[0]).erase_block(B(a[1]), a[2]); return None
        if n == "CEraseBlockIdx":
            R(a[0]).erase_block(a[1], a[2]); return None
        if n == "CRegionErase":
            R(a[0]).erase(); return None
        if n == "CMoveBlocks":
            R(a[0]).move_blocks(R(a[1])); return None
        if n == "CMoveBlocksBefore":
            R(a[0]).move_blocks_before(B(a[1])); return None
        if n == "CRwEraseOp":
            if a[0]:
                self.pr.erase(O(a[1]), safe_erase=a[2])
            else:
                Rewriter.erase_op(O(a[1]), safe_erase=a[2])
            return None
        if n in ("CRwReplaceOp", "CPrReplace"):
            news = self.one_or_list(self.Os(a[1]), len(a) > 4 and a[4])
            nres = None if a[2] is None else [None if x is None else V(x) for x in a[2]]
            if n == "CRwReplaceOp":
                Rewriter.replace_op(O(a[0]), news, nres, safe_erase=a[3])
            else:
                self.pr.replace(O(a[0]), news, nres, safe_erase=a[3])
            return None
        if n == "CRwReplaceValueWithNewType":
            return (self.pr if a[0] else Rewriter).replace_value_with_new_type(V(a[1]), i64)
        if n == "CRwInlineBlock":
            ip = InsertPoint(B(a[2]), self.oO(a[3]))
            (self.pr if a[0] else Rewriter).inline_block(B(a[1]), ip, tuple(V(x) for x in a[4])); return None
        if n == "CRwInsertBlock":
            ip = BlockInsertPoint(R(a[1]), self.oB(a[2]))
            Rewriter.insert_block(self.one_or_list(self.Bs(a[0]), len(a) > 3 and a[3]), ip); return None
        if n == "CRwInsertOp":
            ip = InsertPoint(B(a[2]), self.oO(a[3]))
            ops = self.one_or_list(self.Os(a[1]), len(a) > 4 and a[4])
            if a[0]:
                self.pr.insert(ops, ip)
            else:
                Rewriter.insert_op(ops, ip)
            return None
        if n == "CRwMoveRegionContents":
            return (self.pr if a[0] else Rewriter).move_region_contents_to_new_regions(R(a[1]))
        if n == "CRwInlineRegion":
            ip = BlockInsertPoint(R(a[2]), self.oB(a[3]))
            (self.pr if a[0] else Rewriter).inline_region(R(a[1]), ip); return None
        if n == "CPrReplaceAllUsesWith":
            self.pr.replace_all_uses_with(V(a[0]), None if a[1] is None else V(a[1]), safe_erase=a[2]); return None
        if n == "CPrInsertBlockArgument":
            return self.pr.insert_block_argument(B(a[0]), a[1], i32)
        if n == "CPrEraseBlockArgument":
            self.pr.erase_block_argument(V(a[0]), a[1]); return None
        if n == "CCreateBlock":
            ip = BlockInsertPoint(R(a[0]), self.oB(a[1]))
            return self.pr.create_block(ip, [i32] * a[2])
        raise KeyError(n)

    def step(self, c, detail=False):
        """execute one call on the real objects -> trace entry
        [outcome, payload, d_op, d_block, d_region, d_value, d_use, oracle_ok]"""
        from xdsl.ir import Block, Operation, Region, SSAValue
        outcome, payload = 0, 0
        old = signal.signal(signal.SIGALRM, _on_alarm)
        signal.setitimer(signal.ITIMER_REAL, 20.0)
        try:
            with self.reg:
                r = self.execute(c)
            if isinstance(r, Operation):
                payload = [1, self.reg.id_of(r, "op")]
            elif isinstance(r, Block):
                payload = [2, self.reg.id_of(r, "block")]
            elif isinstance(r, Region):
                payload = [3, self.reg.id_of(r, "region")]
            elif isinstance(r, SSAValue):
                payload = [4, self.reg.id_of(r, "value")]
        except (KeyboardInterrupt, SystemExit):
            raise
        except BaseException as e:  # noqa: BLE001  -- the outcome class is what is compared
            outcome = exc_code(e)
        finally:
            signal.setitimer(signal.ITIMER_REAL, 0)
            signal.signal(signal.SIGALRM, old)
        cur = irdump.dump(self.reg)
        d = irdump.delta(self.prev_dump, cur)
        self.prev_dump = cur
        errs = wf_violations(self.reg)
        aux = aux_violations(self.reg)
        entry = [outcome, payload, *d, 0 if (errs or aux) else 1]
        return (entry, errs, aux) if detail else entry


# ---------------------------------------------------------------------------- statement-level oracle

def _walk(first, attr, limit=100000):
    out, seen = [], set()
    x = first
    while x is not None:
        if id(x) in seen or len(out) > limit:
            return out, True
        seen.add(id(x))
        out.append(x)
        x = getattr(x, attr)
    return out, False


def wf_violations(reg, limit=3) -> list[str]:
    """The property's three sentences evaluated on the REAL objects of the registry (independent of
    the Coq model), restricted to objects that have not been erased."""
    from xdsl.ir import core
    errs = []
    name = lambda x: "None" if x is None else f"{reg.ids.get(id(x), ('?', -1))[0]}{reg.ids.get(id(x), ('?', -1))[1]}"
    ops, blocks, regions = reg.live("op"), reg.live("block"), reg.live("region")

    # (1) every op/block/region is found exactly once in its container, forward and backward, and points back
    def container(cont, first, last, nxt, prv, children, what):
        fwd, cyc1 = _walk(first, nxt)
        bwd, cyc2 = _walk(last, prv)
        if cyc1 or cyc2:
            errs.append(f"{name(cont)}: cyclic {what} chain"); return
        if [id(x) for x in fwd] != [id(x) for x in reversed(bwd)]:
            errs.append(f"{name(cont)}: forward {what} chain {[name(x) for x in fwd]} != reversed backward chain {[name(x) for x in reversed(bwd)]}")
        for x in fwd:
            if x.parent is not cont:
                errs.append(f"{name(cont)}: {name(x)} is in its {what} chain but its parent is {name(x.parent)}")
        ids = {id(x) for x in fwd}
        for x in children:
            if x.parent is cont and id(x) not in ids:
                errs.append(f"{name(x)} has parent {name(cont)} but is not in its {what} chain")

    for b in blocks:
        container(b, b._first_op, b._last_op, "_next_op", "_prev_op", ops, "op")
    for r in regions:
        container(r, r._first_block, r._last_block, "_next_block", "_prev_block", blocks, "block")
    for o in ops:
        if len({id(r) for r in o.regions}) != len(o.regions):
            errs.append(f"{name(o)}: a region occurs twice in .regions")
        for r in o.regions:
            if r.parent is not o:
                errs.append(f"{name(o)}: {name(r)} is in .regions but its parent is {name(r.parent)}")
        ids = {id(r) for r in o.regions}
        for r in regions:
            if r.parent is o and id(r) not in ids:
                errs.append(f"{name(r)} has parent {name(o)} but is not in its .regions")

    # (2) use lists = exactly the (user, position) pairs of operand / successor lists
    occ_v, occ_b = {}, {}
    for o in ops:
        if len(o._operands) != len(o._operand_uses):
            errs.append(f"{name(o)}: {len(o._operands)} operands but {len(o._operand_uses)} operand uses")
        if len(o._successors) != len(o._successor_uses):
            errs.append(f"{name(o)}: {len(o._successors)} successors but {len(o._successor_uses)} successor uses")
        if {id(u) for u in o._operand_uses} & {id(u) for u in o._successor_uses}:
            errs.append(f"{name(o)}: a Use object is both an operand use and a successor use")
        for i, v in enumerate(o._operands):
            occ_v.setdefault(id(v), Counter())[(id(o), i)] += 1
        for i, b in enumerate(o._successors):
            occ_b.setdefault(id(b), Counter())[(id(o), i)] += 1

    def uses(holder, occ, items_attr, uses_attr):
        chain, cyc = _walk(holder.first_use, "_next_use")
        if cyc:
            errs.append(f"{name(holder)}: cyclic use chain"); return
        prev = None
        for u in chain:
            if u._prev_use is not prev:
                errs.append(f"{name(holder)}: use {name(u)} has a wrong _prev_use")
            prev = u
        got = Counter((id(u._operation), u._index) for u in chain)
        exp = occ.get(id(holder), Counter())
        if got != exp:
            errs.append(f"{name(holder)}: use list has {sorted((name_by_id(reg, a), i) for (a, i), k in got.items() for _ in range(k))} "
                        f"but it occurs at {sorted((name_by_id(reg, a), i) for (a, i), k in exp.items() for _ in range(k))}")
        for u in chain:
            us = getattr(u._operation, uses_attr)
            if not (0 <= u._index < len(us)) or us[u._index] is not u:
                errs.append(f"{name(holder)}: use {name(u)} is not {name(u._operation)}.{uses_attr}[{u._index}]")

    for v in reg.objs["value"]:
        uses(v, occ_v, "_operands", "_operand_uses")
    for b in reg.objs["block"]:
        uses(b, occ_b, "_successors", "_successor_uses")

    # (3) argument / result positions match their index in their owner
    for o in ops:
        for i, v in enumerate(o.results):
            if not isinstance(v, core.OpResult) or v.op is not o or v.index != i:
                errs.append(f"{name(o)}.results[{i}] = {name(v)} says owner {name(getattr(v, 'op', None))} index {getattr(v, 'index', None)}")
    for b in blocks:
        for i, v in enumerate(b._args):
            if not isinstance(v, core.BlockArgument) or v.block is not b or v.index != i:
                errs.append(f"{name(b)}.args[{i}] = {name(v)} says owner {name(getattr(v, 'block', None))} index {getattr(v, 'index', None)}")
    for v in reg.live("value"):
        if isinstance(v, core.OpResult):
            rs = v.op.results
            if not (0 <= v.index < len(rs)) or rs[v.index] is not v:
                errs.append(f"{name(v)} says it is result {v.index} of {name(v.op)} but is not")
        elif isinstance(v, core.BlockArgument):
            rs = v.block._args
            if not (0 <= v.index < len(rs)) or rs[v.index] is not v:
                errs.append(f"{name(v)} says it is argument {v.index} of {name(v.block)} but is not")
    return errs[:limit]


def aux_violations(reg, limit=3) -> list[str]:
    """auxiliary invariant of the Coq development (Spec.v WF_detached), stated by no sentence of the
    property: a live op/block that is in no container has no neighbours.  It is compared with the model
    (wf_b includes it) but a failure of this clause alone is NOT a property violation."""
    errs = []
    for o in reg.live("op"):
        if o.parent is None and (o._next_op is not None or o._prev_op is not None):
            errs.append(f"op{reg.id_of(o)} is detached but has a neighbour pointer")
    for b in reg.live("block"):
        if b.parent is None and (b._next_block is not None or b._prev_block is not None):
            errs.append(f"block{reg.id_of(b)} is detached but has a neighbour pointer")
    return errs[:limit]


def name_by_id(reg, pid):
    k = reg.ids.get(pid)
    return "?" if k is None else f"{k[0]}{k[1]}"


# ---------------------------------------------------------------------------- impl / model / oracle

_TRACE_CACHE: dict = {}     # id(case) -> trace recorded while the case was generated (same process)
HM = (1 << 31) - 1          # bit mask, as in coq/C01/Enc.v


def hash_sx(B, x, acc):
    """the polynomial hash of coq/C01/Enc.v `hash_sx` on nested int lists"""
    if isinstance(x, int):
        return (acc * B + (x + 101)) & HM
    a = (acc * B + 7) & HM
    for y in x:
        a = hash_sx(B, y, a)
    return (a * B + 11) & HM


def compact(entry):
    """[outcome, payload, d_op, d_block, d_region, d_value, d_use, flag] -> [outcome, payload, h1, h2, flag]"""
    d = list(entry[2:7])
    return [entry[0], entry[1], hash_sx(1000003, d, 1), hash_sx(998244353, d, 1), entry[7]]


def impl_full(case):
    w = World()
    return [w.step(c) for c in case["calls"]]


def impl(case):
    """compact trace (the five delta lists of every call hashed; same hashes on the Coq side)"""
    hit = _TRACE_CACHE.pop(id(case), None)
    if hit is None:
        hit = impl_full(case)
    return [compact(e) for e in hit]


AUX_ONLY = []      # histories whose only failure is the auxiliary invariant (expected: none)


def why_fails(case):
    w = World()
    seen_aux = False
    for k, c in enumerate(case["calls"]):
        e, errs, aux = w.step(c, detail=True)
        if errs:
            return k, c, e[0], errs
        if aux and not seen_aux:
            seen_aux = True
            AUX_ONLY.append({"call_index": k, "call": c, "aux": aux})
    return None


def holds(case, res):
    """the property's statement (three sentences) on the real objects; the auxiliary invariant of the Coq
    development is compared with the model through the trace flag but does not count here"""
    bad = [k for k, e in enumerate(res) if e[-1] == 0]
    if not bad:
        return True, ""
    w = why_fails(case)
    if w is None:
        return True, ""
    k, c, outcome, errs = w
    return False, (f"after call #{k} {json.dumps(c)} ({'raised, code %d' % outcome if outcome else 'returned normally'}): "
                   + "; ".join(errs))


def cP(n): return f"{n}%positive"
def cPs(l): return coq_list(cP(x) for x in l)
def cOP(n): return "None" if n is None else f"(Some {cP(n)})"
def cBools(l): return coq_list(coq_bool(bool(x)) for x in l)


def cNres(x):
    if x is None:
        return "None"
    return "(Some " + coq_list("None" if y is None else f"(Some {cP(y)})" for y in x) + ")"


def coq_call(c):
    n, a = c[0], c[1:]
    f = {
        "COpCreate": lambda: f"{cPs(a[0])} {coq_nat(a[1])} {cPs(a[2])} {cPs(a[3])}",
        "CBlockNew": lambda: f"{cPs(a[0])} {coq_nat(a[1])}",
        "CRegionNew": lambda: cPs(a[0]),
        "CSetOperands": lambda: f"{cP(a[0])} {cPs(a[1])}",
        "CSetSuccessors": lambda: f"{cP(a[0])} {cPs(a[1])}",
        "COperandSetItem": lambda: f"{cP(a[0])} {coq_Z(a[1])} {cP(a[2])}",
        "CSuccessorSetItem": lambda: f"{cP(a[0])} {coq_Z(a[1])} {cP(a[2])}",
        "CAddRegion": lambda: f"{cP(a[0])} {cP(a[1])}",
        "CDetachRegion": lambda: f"{cP(a[0])} {cP(a[1])}",
        "CDetachRegionIdx": lambda: f"{cP(a[0])} {coq_Z(a[1])}",
        "COpDropAllReferences": lambda: cP(a[0]),
        "COpErase": lambda: f"{cP(a[0])} {coq_bool(a[1])}",
        "COpDetach": lambda: cP(a[0]),
        "CReplaceAllUsesWith": lambda: f"{cP(a[0])} {cP(a[1])}",
        "CReplaceUsesWithIf": lambda: f"{cP(a[0])} {cP(a[1])} {cBools(a[2])}",
        "CValueErase": lambda: f"{cP(a[0])} {coq_bool(a[1])}",
        "CInsertArg": lambda: f"{cP(a[0])} {coq_Z(a[1])}",
        "CEraseArg": lambda: f"{cP(a[0])} {cP(a[1])} {coq_bool(a[2])}",
        "CInsertOpAfter": lambda: f"{cP(a[0])} {cP(a[1])} {cP(a[2])}",
        "CInsertOpBefore": lambda: f"{cP(a[0])} {cP(a[1])} {cP(a[2])}",
        "CAddOp": lambda: f"{cP(a[0])} {cP(a[1])}",
        "CAddOps": lambda: f"{cP(a[0])} {cPs(a[1])}",
        "CInsertOpsBefore": lambda: f"{cP(a[0])} {cPs(a[1])} {cP(a[2])}",
        "CInsertOpsAfter": lambda: f"{cP(a[0])} {cPs(a[1])} {cP(a[2])}",
        "CSplitBefore": lambda: f"{cP(a[0])} {cP(a[1])} {coq_nat(a[2])}",
        "CDetachOp": lambda: f"{cP(a[0])} {cP(a[1])}",
        "CEraseOp": lambda: f"{cP(a[0])} {cP(a[1])} {coq_bool(a[2])}",
        "CBlockDropAllReferences": lambda: cP(a[0]),
        "CBlockErase": lambda: f"{cP(a[0])} {coq_bool(a[1])}",
        "CAddBlock": lambda: f"{cP(a[0])} {cPs(a[1])}",
        "CInsertBlockBefore": lambda: f"{cP(a[0])} {cPs(a[1])} {cP(a[2])}",
        "CInsertBlockAfter": lambda: f"{cP(a[0])} {cPs(a[1])} {cP(a[2])}",
        "CInsertBlock": lambda: f"{cP(a[0])} {cPs(a[1])} {coq_Z(a[2])}",
        "CDetachBlock": lambda: f"{cP(a[0])} {cP(a[1])}",
        "CDetachBlockIdx": lambda: f"{cP(a[0])} {coq_Z(a[1])}",
        "CEraseBlock": lambda: f"{cP(a[0])} {cP(a[1])} {coq_bool(a[2])}",
        "CEraseBlockIdx": lambda: f"{cP(a[0])} {coq_Z(a[1])} {coq_bool(a[2])}",
        "CRegionDropAllReferences": lambda: cP(a[0]),
        "CRegionErase": lambda: cP(a[0]),
        "CMoveBlocks": lambda: f"{cP(a[0])} {cP(a[1])}",
        "CMoveBlocksBefore": lambda: f"{cP(a[0])} {cP(a[1])}",
        "CRwEraseOp": lambda: f"{coq_bool(a[0])} {cP(a[1])} {coq_bool(a[2])}",
        "CRwReplaceOp": lambda: f"{cP(a[0])} {cPs(a[1])} {cNres(a[2])} {coq_bool(a[3])}",
        "CRwReplaceValueWithNewType": lambda: f"{coq_bool(a[0])} {cP(a[1])}",
        "CRwInlineBlock": lambda: f"{coq_bool(a[0])} {cP(a[1])} {cP(a[2])} {cOP(a[3])} {cPs(a[4])}",
        "CRwInsertBlock": lambda: f"{cPs(a[0])} {cP(a[1])} {cOP(a[2])}",
        "CRwInsertOp": lambda: f"{coq_bool(a[0])} {cPs(a[1])} {cP(a[2])} {cOP(a[3])}",
        "CRwMoveRegionContents": lambda: f"{coq_bool(a[0])} {cP(a[1])}",
        "CRwInlineRegion": lambda: f"{coq_bool(a[0])} {cP(a[1])} {cP(a[2])} {cOP(a[3])}",
        "CPrReplaceAllUsesWith": lambda: f"{cP(a[0])} {cOP(a[1])} {coq_bool(a[2])}",
        "CPrReplaceUsesWithIf": lambda: f"{cP(a[0])} {cP(a[1])} {cBools(a[2])}",
        "CPrReplace": lambda: f"{cP(a[0])} {cPs(a[1])} {cNres(a[2])} {coq_bool(a[3])}",
        "CPrInsertBlockArgument": lambda: f"{cP(a[0])} {coq_Z(a[1])}",
        "CPrEraseBlockArgument": lambda: f"{cP(a[0])} {coq_bool(a[1])}",
        "CCreateBlock": lambda: f"{cP(a[0])} {cOP(a[1])} {coq_nat(a[2])}",
    }[n]
    return f"({n} {f()})"


def coq_expr(case):
    return "c01_case_h " + coq_list(coq_call(c) for c in case["calls"])


def coq_expr_full(case):
    return "c01_case " + coq_list(coq_call(c) for c in case["calls"])


def diagnose(ctx, case):
    """full (un-hashed) traces of both sides for one case: first differing call and records"""
    a = impl_full(case)
    try:
        b = ctx.coq_eval(REQ, [coq_expr_full(case)], shard=1)[0]
    except Exception as e:  # noqa: BLE001
        return {"model_error": str(e)[-500:]}
    names = ["outcome", "payload", "op", "block", "region", "value", "use", "wf"]
    for k, (x, y) in enumerate(zip(a, b)):
        if x != y:
            return {"call_index": k, "call": case["calls"][k],
                    "differences": {n: {"impl": p, "model": q} for n, p, q in zip(names, x, y) if p != q}}
    return {"note": "full traces agree", "len_impl": len(a), "len_model": len(b)}


def replay_case(ctx, witness):
    case = witness.get("case", witness)
    if "calls" not in case:
        print("no `calls` in the witness"); return 0
    res = impl_full(case)
    ok, why = holds(case, [compact(e) for e in res])
    print("implementation outcomes:", [e[0] for e in res])
    print("oracle:", "holds" if ok else why)
    print("model vs implementation:", json.dumps(diagnose(ctx, case)))
    return 0 if ok else 1


# ---------------------------------------------------------------------------- generator

class Gen:
    """Draws calls while executing them on a World (arguments are chosen among the live entities of
    the current real state).  Every decision is a pure function of `rng`."""

    def __init__(self, rng):
        self.rng = rng
        self.w = World()
        self.calls = []
        self.entries = []
        self.broken = False

    # -- execution --------------------------------------------------------------
    def do(self, c):
        """issue a call; returns the returned object's id (or None)"""
        e, errs, aux = self.w.step(c, detail=True)
        self.calls.append(c)
        self.entries.append(e)
        if errs:              # a property-level failure ends the history (an auxiliary-only failure does not)
            self.broken = True
        if e[0] == 0 and e[1] != 0:
            return e[1][1]
        return None

    # -- views of the real state ------------------------------------------------
    @property
    def reg(self): return self.w.reg
    def idof(self, x): return self.reg.ids[id(x)][1]
    def ops(self): return self.reg.live("op")
    def blocks(self): return self.reg.live("block")
    def regions(self): return self.reg.live("region")
    def values(self): return self.reg.live("value")
    def detached_ops(self): return [o for o in self.ops() if o.parent is None]
    def attached_ops(self): return [o for o in self.ops() if o.parent is not None and not self.reg.is_dead(o.parent)]
    def detached_blocks(self): return [b for b in self.blocks() if b.parent is None]
    def attached_blocks(self): return [b for b in self.blocks() if b.parent is not None and not self.reg.is_dead(b.parent)]
    def detached_regions(self): return [r for r in self.regions() if r.parent is None]

    def block_ops(self, b):
        return _walk(b._first_op, "_next_op")[0]

    def region_blocks(self, r):
        return _walk(r._first_block, "_next_block")[0]

    def inside(self, node, anc) -> bool:
        """is `node` equal to or nested inside `anc` (parent chain of real objects)"""
        n, k = node, 0
        while n is not None and k < 10000:
            if n is anc:
                return True
            n = n.parent
            k += 1
        return False

    def users_inside(self, v, root) -> bool:
        return all(self.inside(u._operation, root) for u in _walk(v.first_use, "_next_use")[0])

    def pick(self, l):
        return self.rng.choice(l) if l else None

    def some(self, l, lo, hi, distinct=False):
        if not l:
            return []
        k = self.rng.randint(lo, hi)
        if distinct:
            return self.rng.sample(l, min(k, len(l)))
        return [self.rng.choice(l) for _ in range(k)]

    def rint(self, n):
        """an index: mostly in [0, n], sometimes wild"""
        return self.rng.randint(-3, n + 2)

    # -- initial IR ---------------------------------------------------------------
    def build_region(self, depth):
        rng = self.rng
        nb = rng.choice([1, 1, 2, 2, 3])
        blocks = [self.do(["CBlockNew", [], rng.choice([0, 0, 1, 2])]) for _ in range(nb)]
        for b in blocks:
            for _ in range(rng.choice([0, 1, 2, 2, 3, 4])):
                regs = []
                if depth > 0 and rng.random() < 0.3:
                    regs = [self.build_region(depth - 1) for _ in range(rng.choice([1, 1, 2]))]
                vals = [self.idof(v) for v in self.values()]
                operands = self.some(vals, 0, 3)
                o = self.do(["COpCreate", operands, rng.choice([0, 1, 1, 2]), [], regs])
                how = rng.random()
                bops = self.block_ops(self.w.B(b))
                if bops and how < 0.2:
                    self.do(["CInsertOpBefore", b, o, self.idof(rng.choice(bops))])
                elif bops and how < 0.4:
                    self.do(["CInsertOpAfter", b, o, self.idof(rng.choice(bops))])
                else:
                    self.do(["CAddOp", b, o])
            if rng.random() < 0.6:
                vals = [self.idof(v) for v in self.values()]
                o = self.do(["COpCreate", self.some(vals, 0, 2), 0, self.some(blocks, 0, 2), []])
                self.do(["CAddOp", b, o])
        return self.do(["CRegionNew", blocks])

    def build_initial(self):
        rng = self.rng
        depth = rng.choice([0, 1, 1, 2, 2])
        r = self.build_region(depth)
        if rng.random() < 0.8:
            self.do(["COpCreate", [], 0, [], [r]])
        # forward uses: operands defined later in the walk order
        vals = [self.idof(v) for v in self.values()]
        for o in self.some(self.ops(), 0, 3):
            self.do(["CSetOperands", self.idof(o), self.some(vals, 1, 3)])
        # detached spares for the insertion calls
        for _ in range(rng.randint(1, 4)):
            vals = [self.idof(v) for v in self.values()]
            self.do(["COpCreate", self.some(vals, 0, 2), rng.choice([0, 1, 2]), [], []])
        for _ in range(rng.randint(0, 2)):
            self.do(["CBlockNew", [], rng.choice([0, 1, 2])])
        if rng.random() < 0.5:
            self.do(["CRegionNew", []])

    # -- mutation calls ------------------------------------------------------------
    # Every g_<name>(valid) returns a call (list) or None when no suitable arguments exist.
    # valid=True: arguments satisfy the documented preconditions; valid=False: arbitrary live entities.

    def new_detached_op(self, nres=None):
        vals = [self.idof(v) for v in self.values()]
        return self.do(["COpCreate", self.some(vals, 0, 2), self.rng.choice([0, 1, 2]) if nres is None else nres, [], []])

    def fresh_ops(self, lo, hi):
        """ids of distinct detached ops without regions (creating some when needed)"""
        k = self.rng.randint(lo, hi)
        have = [self.idof(o) for o in self.detached_ops() if not o.regions]
        self.rng.shuffle(have)
        out = have[:k]
        while len(out) < k:
            out.append(self.new_detached_op())
        return out

    def fresh_blocks(self, lo, hi):
        k = self.rng.randint(lo, hi)
        have = [self.idof(b) for b in self.detached_blocks() if b._first_op is None]
        self.rng.shuffle(have)
        out = have[:k]
        while len(out) < k:
            out.append(self.do(["CBlockNew", [], self.rng.choice([0, 1])]))
        return out

    def g_COpCreate(self, valid):
        vals = [self.idof(v) for v in self.values()]
        regs = [self.idof(r) for r in (self.detached_regions() if valid else self.regions())]
        return ["COpCreate", self.some(vals, 0, 3), self.rng.choice([0, 1, 2]),
                self.some([self.idof(b) for b in self.blocks()], 0, 2),
                self.some(regs, 0, 2, distinct=valid) if self.rng.random() < 0.4 else []]

    def g_CBlockNew(self, valid):
        ops = [self.idof(o) for o in (self.detached_ops() if valid else self.ops())]
        return ["CBlockNew", self.some(ops, 0, 2, distinct=valid) if self.rng.random() < 0.4 else [], self.rng.choice([0, 1, 2, 3])]

    def g_CRegionNew(self, valid):
        bs = [self.idof(b) for b in (self.detached_blocks() if valid else self.blocks())]
        l = self.some(bs, 0, 3, distinct=valid) if self.rng.random() < 0.6 else []
        return ["CRegionNew", l, self.rng.random() < 0.5]

    def g_CSetOperands(self, valid):
        o = self.pick(self.ops())
        if o is None: return None
        return ["CSetOperands", self.idof(o), self.some([self.idof(v) for v in self.values()], 0, 4)]

    def g_CSetSuccessors(self, valid):
        o = self.pick(self.ops())
        if o is None: return None
        return ["CSetSuccessors", self.idof(o), self.some([self.idof(b) for b in self.blocks()], 0, 3)]

    def g_COperandSetItem(self, valid):
        cands = [o for o in self.ops() if o._operands] if valid else self.ops()
        o, v = self.pick(cands), self.pick(self.values())
        if o is None or v is None: return None
        n = len(o._operands)
        if valid:
            idx = self.rng.randrange(n)
            if self.rng.random() < NEG_INDEX_RATE:
                idx -= n          # a negative index, valid Python
        else:
            idx = self.rint(n)
        return ["COperandSetItem", self.idof(o), idx, self.idof(v)]

    def g_CSuccessorSetItem(self, valid):
        cands = [o for o in self.ops() if o._successors] if valid else self.ops()
        o, b = self.pick(cands), self.pick(self.blocks())
        if o is None or b is None: return None
        n = len(o._successors)
        if valid:
            idx = self.rng.randrange(n)
            if self.rng.random() < NEG_INDEX_RATE:
                idx -= n
        else:
            idx = self.rint(n)
        return ["CSuccessorSetItem", self.idof(o), idx, self.idof(b)]

    def g_CAddRegion(self, valid):
        o = self.pick(self.ops())
        r = self.pick(self.detached_regions() if valid else self.regions())
        if o is None or r is None or self.inside(o, r): return None
        return ["CAddRegion", self.idof(o), self.idof(r)]

    def g_CDetachRegion(self, valid):
        if valid:
            o = self.pick([o for o in self.ops() if o.regions])
            if o is None: return None
            return ["CDetachRegion", self.idof(o), self.idof(self.rng.choice(o.regions))]
        o, r = self.pick(self.ops()), self.pick(self.regions())
        if o is None or r is None: return None
        return ["CDetachRegion", self.idof(o), self.idof(r)]

    def g_CDetachRegionIdx(self, valid):
        o = self.pick([o for o in self.ops() if o.regions] if valid else self.ops())
        if o is None: return None
        n = len(o.regions)
        if valid:
            idx = self.rng.randrange(n)
            if self.rng.random() < NEG_INDEX_RATE:
                idx -= n
        else:
            idx = self.rint(n)
        return ["CDetachRegionIdx", self.idof(o), idx]

    def g_COpDropAllReferences(self, valid):
        o = self.pick(self.detached_ops())
        return None if o is None else ["COpDropAllReferences", self.idof(o)]

    def g_BlockDropAllReferences(self, valid):
        b = self.pick(self.detached_blocks())
        return None if b is None else ["CBlockDropAllReferences", self.idof(b)]
    g_CBlockDropAllReferences = g_BlockDropAllReferences

    def g_CRegionDropAllReferences(self, valid):
        r = self.pick(self.detached_regions())
        return None if r is None else ["CRegionDropAllReferences", self.idof(r)]

    def erasable(self, o, safe):
        return (not safe) or all(self.users_inside(v, o) for v in o.results)

    def g_COpErase(self, valid):
        safe = self.rng.random() < 0.6
        if valid:
            o = self.pick([o for o in self.detached_ops() if self.erasable(o, safe)])
        else:
            o = self.pick(self.ops())
        return None if o is None else ["COpErase", self.idof(o), safe]

    def g_COpDetach(self, valid):
        o = self.pick(self.attached_ops() if valid else self.ops())
        return None if o is None else ["COpDetach", self.idof(o)]

    def g_CReplaceAllUsesWith(self, valid):
        vs = self.values()
        used = [v for v in vs if v.first_use is not None]
        v = self.pick(used if (used and self.rng.random() < 0.8) else vs)
        w = self.pick(vs)
        if v is None: return None
        return ["CReplaceAllUsesWith", self.idof(v), self.idof(w)]

    def g_CReplaceUsesWithIf(self, valid, name="CReplaceUsesWithIf"):
        vs = self.values()
        used = [v for v in vs if v.first_use is not None]
        v = self.pick(used if (used and self.rng.random() < 0.8) else vs)
        w = self.pick(vs)
        if v is None: return None
        n = len(_walk(v.first_use, "_next_use")[0])
        return [name, self.idof(v), self.idof(w), [self.rng.random() < 0.5 for _ in range(n)]]

    def g_CPrReplaceUsesWithIf(self, valid):
        return self.g_CReplaceUsesWithIf(valid, "CPrReplaceUsesWithIf")

    def g_CValueErase(self, valid):
        safe = self.rng.random() < 0.5
        vs = self.values()
        if valid and safe:
            vs = [v for v in vs if v.first_use is None]
        v = self.pick(vs)
        return None if v is None else ["CValueErase", self.idof(v), safe]

    def g_CInsertArg(self, valid, name="CInsertArg"):
        b = self.pick(self.blocks())
        if b is None: return None
        n = len(b._args)
        return [name, self.idof(b), self.rng.randint(0, n) if valid else self.rint(n)]

    def g_CPrInsertBlockArgument(self, valid):
        return self.g_CInsertArg(valid, "CPrInsertBlockArgument")

    def block_args(self):
        from xdsl.ir import BlockArgument
        return [v for v in self.values() if isinstance(v, BlockArgument) and not self.reg.is_dead(v.block)]

    def g_CEraseArg(self, valid):
        safe = self.rng.random() < 0.5
        args = self.block_args()
        if valid:
            args = [v for v in args if (not safe) or v.first_use is None]
            v = self.pick(args)
            if v is None: return None
            return ["CEraseArg", self.idof(v.block), self.idof(v), safe]
        v, b = self.pick(args), self.pick(self.blocks())
        if v is None: return None
        if self.rng.random() < 0.6:
            b = v.block
        return ["CEraseArg", self.idof(b), self.idof(v), safe]

    def g_CPrEraseBlockArgument(self, valid):
        safe = self.rng.random() < 0.5
        args = self.block_args()
        if valid:
            args = [v for v in args if (not safe) or v.first_use is None]
        v = self.pick(args)
        return None if v is None else ["CPrEraseBlockArgument", self.idof(v), safe]

    def attachable(self, o, b):
        return o.parent is None and not self.inside(b, o)

    def g_insert_op(self, valid, name):
        if valid:
            b = self.pick([b for b in self.blocks() if b._first_op is not None])
            if b is None: return None
            ex = self.rng.choice(self.block_ops(b))
            cands = [o for o in self.detached_ops() if self.attachable(o, b)]
            new = self.idof(self.rng.choice(cands)) if (cands and self.rng.random() < 0.7) else self.new_detached_op()
            return [name, self.idof(b), new, self.idof(ex)]
        b, n, e = self.pick(self.blocks()), self.pick(self.ops()), self.pick(self.ops())
        if b is None or n is None: return None
        if self.rng.random() < 0.5:
            bo = self.block_ops(b)
            if bo: e = self.rng.choice(bo)
        return [name, self.idof(b), self.idof(n), self.idof(e)]

    def g_CInsertOpAfter(self, valid): return self.g_insert_op(valid, "CInsertOpAfter")
    def g_CInsertOpBefore(self, valid): return self.g_insert_op(valid, "CInsertOpBefore")

    def g_CAddOp(self, valid):
        b = self.pick(self.blocks())
        if b is None: return None
        if valid:
            cands = [o for o in self.detached_ops() if self.attachable(o, b)]
            new = self.idof(self.rng.choice(cands)) if (cands and self.rng.random() < 0.7) else self.new_detached_op()
            return ["CAddOp", self.idof(b), new]
        o = self.pick(self.ops())
        return None if o is None else ["CAddOp", self.idof(b), self.idof(o)]

    def ops_list(self, valid, b):
        if valid:
            cands = [self.idof(o) for o in self.detached_ops() if self.attachable(o, b)]
            self.rng.shuffle(cands)
            l = cands[:self.rng.randint(0, 3)]
            while len(l) < 1 and self.rng.random() < 0.7:
                l.append(self.new_detached_op())
            return l
        return self.some([self.idof(o) for o in self.ops()], 0, 3)

    def g_CAddOps(self, valid):
        b = self.pick(self.blocks())
        return None if b is None else ["CAddOps", self.idof(b), self.ops_list(valid, b)]

    def g_insert_ops(self, valid, name):
        if valid:
            b = self.pick([b for b in self.blocks() if b._first_op is not None])
            if b is None: return None
            return [name, self.idof(b), self.ops_list(valid, b), self.idof(self.rng.choice(self.block_ops(b)))]
        b, e = self.pick(self.blocks()), self.pick(self.ops())
        if b is None or e is None: return None
        return [name, self.idof(b), self.ops_list(valid, b), self.idof(e)]

    def g_CInsertOpsBefore(self, valid): return self.g_insert_ops(valid, "CInsertOpsBefore")
    def g_CInsertOpsAfter(self, valid): return self.g_insert_ops(valid, "CInsertOpsAfter")

    def g_CSplitBefore(self, valid):
        if valid:
            b = self.pick([b for b in self.attached_blocks() if b._first_op is not None])
            if b is None: return None
            return ["CSplitBefore", self.idof(b), self.idof(self.rng.choice(self.block_ops(b))), self.rng.choice([0, 0, 1, 2])]
        b, o = self.pick(self.blocks()), self.pick(self.ops())
        if b is None or o is None: return None
        return ["CSplitBefore", self.idof(b), self.idof(o), self.rng.choice([0, 1])]

    def g_CDetachOp(self, valid):
        if valid:
            o = self.pick(self.attached_ops())
            return None if o is None else ["CDetachOp", self.idof(o.parent), self.idof(o)]
        b, o = self.pick(self.blocks()), self.pick(self.ops())
        return None if b is None or o is None else ["CDetachOp", self.idof(b), self.idof(o)]

    def g_CEraseOp(self, valid):
        safe = self.rng.random() < 0.6
        if valid:
            o = self.pick([o for o in self.attached_ops() if self.erasable(o, safe)])
            return None if o is None else ["CEraseOp", self.idof(o.parent), self.idof(o), safe]
        b, o = self.pick(self.blocks()), self.pick(self.ops())
        if b is None or o is None: return None
        if o.parent is not None and self.rng.random() < 0.7 and not self.reg.is_dead(o.parent):
            b = o.parent
        return ["CEraseOp", self.idof(b), self.idof(o), safe]

    def g_CRwEraseOp(self, valid):
        safe = self.rng.random() < 0.6
        o = self.pick([o for o in self.ops() if self.erasable(o, safe)] if valid else self.ops())
        return None if o is None else ["CRwEraseOp", self.rng.random() < 0.5, self.idof(o), safe]

    def block_erasable(self, b, safe):
        return (not safe) or all(self.users_inside(v, b) for o in self.block_ops(b) for v in o.results)

    def g_CBlockErase(self, valid):
        safe = self.rng.random() < 0.6
        if valid:
            b = self.pick([b for b in self.detached_blocks() if self.block_erasable(b, safe)])
        else:
            b = self.pick(self.blocks())
        return None if b is None else ["CBlockErase", self.idof(b), safe]

    def blocks_list(self, valid, r):
        if valid:
            cands = [self.idof(b) for b in self.detached_blocks() if not self.inside(r, b)]
            self.rng.shuffle(cands)
            l = cands[:self.rng.randint(0, 3)]
            while len(l) < 1 and self.rng.random() < 0.7:
                l.append(self.do(["CBlockNew", [], self.rng.choice([0, 1])]))
            return l
        return self.some([self.idof(b) for b in self.blocks()], 0, 3)

    def g_CAddBlock(self, valid):
        r = self.pick(self.regions())
        return None if r is None else ["CAddBlock", self.idof(r), self.blocks_list(valid, r), self.rng.random() < 0.5]

    def g_insert_block_rel(self, valid, name):
        if valid:
            r = self.pick([r for r in self.regions() if r._first_block is not None])
            if r is None: return None
            t = self.rng.choice(self.region_blocks(r))
        else:
            r, t = self.pick(self.regions()), self.pick(self.blocks())
            if r is None or t is None: return None
        return [name, self.idof(r), self.blocks_list(valid, r), self.idof(t), self.rng.random() < 0.5]

    def g_CInsertBlockBefore(self, valid): return self.g_insert_block_rel(valid, "CInsertBlockBefore")
    def g_CInsertBlockAfter(self, valid): return self.g_insert_block_rel(valid, "CInsertBlockAfter")

    def g_CInsertBlock(self, valid):
        r = self.pick(self.regions())
        if r is None: return None
        n = len(self.region_blocks(r))
        return ["CInsertBlock", self.idof(r), self.blocks_list(valid, r),
                self.rng.randint(0, n) if valid else self.rint(n), self.rng.random() < 0.5]

    def g_CDetachBlock(self, valid):
        if valid:
            b = self.pick(self.attached_blocks())
            return None if b is None else ["CDetachBlock", self.idof(b.parent), self.idof(b)]
        r, b = self.pick(self.regions()), self.pick(self.blocks())
        return None if r is None or b is None else ["CDetachBlock", self.idof(r), self.idof(b)]

    def g_CDetachBlockIdx(self, valid):
        r = self.pick([r for r in self.regions() if r._first_block is not None] if valid else self.regions())
        if r is None: return None
        n = len(self.region_blocks(r))
        return ["CDetachBlockIdx", self.idof(r), self.rng.randint(-n, n - 1) if valid else self.rint(n)]

    def g_CEraseBlock(self, valid):
        safe = self.rng.random() < 0.6
        if valid:
            b = self.pick([b for b in self.attached_blocks() if self.block_erasable(b, safe)])
            return None if b is None else ["CEraseBlock", self.idof(b.parent), self.idof(b), safe]
        r, b = self.pick(self.regions()), self.pick(self.blocks())
        if r is None or b is None: return None
        if b.parent is not None and not self.reg.is_dead(b.parent) and self.rng.random() < 0.7:
            r = b.parent
        return ["CEraseBlock", self.idof(r), self.idof(b), safe]

    def g_CEraseBlockIdx(self, valid):
        safe = self.rng.random() < 0.6
        r = self.pick([r for r in self.regions() if r._first_block is not None] if valid else self.regions())
        if r is None: return None
        bl = self.region_blocks(r)
        n = len(bl)
        if valid:
            ok = [i for i, b in enumerate(bl) if self.block_erasable(b, safe)]
            if not ok: return None
            idx = self.rng.choice(ok)
            if self.rng.random() < 0.3:
                idx -= n
        else:
            idx = self.rint(n)
        return ["CEraseBlockIdx", self.idof(r), idx, safe]

    def g_CRegionErase(self, valid):
        r = self.pick(self.detached_regions() if valid else self.regions())
        return None if r is None else ["CRegionErase", self.idof(r)]

    def g_CMoveBlocks(self, valid):
        r, d = self.pick(self.regions()), self.pick(self.regions())
        if r is None or d is None or (d is not r and self.inside(d, r)): return None
        if valid and d is r: return None
        return ["CMoveBlocks", self.idof(r), self.idof(d)]

    def g_CMoveBlocksBefore(self, valid):
        r = self.pick(self.regions())
        t = self.pick(self.attached_blocks() if valid else self.blocks())
        if r is None or t is None: return None
        if t.parent is not None and t.parent is not r and self.inside(t.parent, r): return None
        if valid and t.parent is r: return None
        return ["CMoveBlocksBefore", self.idof(r), self.idof(t)]

    def g_replace(self, valid, name):
        safe = self.rng.random() < 0.7
        if not valid:
            o = self.pick(self.ops())
            if o is None: return None
            news = self.some([self.idof(x) for x in self.ops()], 0, 2)
            nres = None
            if self.rng.random() < 0.5:
                vals = [self.idof(v) for v in self.values()] + [None]
                nres = [self.rng.choice(vals) for _ in range(self.rng.randint(0, 3))]
            return [name, self.idof(o), news, nres, safe, self.rng.random() < 0.5]
        o = self.pick(self.attached_ops())
        if o is None: return None
        nr = len(o.results)
        mode = self.rng.random()
        if mode < 0.5:
            # results of the last new op replace the results
            k = self.rng.randint(1, 2)
            news = [self.new_detached_op() for _ in range(k - 1)] + [self.new_detached_op(nres=nr)]
            nres = None
        else:
            news = [self.new_detached_op() for _ in range(self.rng.randint(0, 2))]
            own = {id(v) for v in o.results}
            others = [self.idof(v) for v in self.values() if id(v) not in own]
            nres = []
            for v in o.results:
                if others and self.rng.random() < 0.8:
                    nres.append(self.rng.choice(others))
                elif (not safe) or v.first_use is None:
                    nres.append(None)
                elif others:
                    nres.append(self.rng.choice(others))
                else:
                    return None
        return [name, self.idof(o), news, nres, safe, self.rng.random() < 0.5]

    def g_CRwReplaceOp(self, valid): return self.g_replace(valid, "CRwReplaceOp")
    def g_CPrReplace(self, valid): return self.g_replace(valid, "CPrReplace")

    def g_CRwReplaceValueWithNewType(self, valid):
        from xdsl.ir import ErasedSSAValue
        vs = self.values()
        if valid:
            vs = [v for v in vs if not isinstance(v, ErasedSSAValue)]
        v = self.pick(vs)
        return None if v is None else ["CRwReplaceValueWithNewType", self.rng.random() < 0.5, self.idof(v)]

    def g_CRwInlineBlock(self, valid):
        src, dest = self.pick(self.blocks()), self.pick(self.blocks())
        if src is None or dest is None or src is dest: return None
        if valid and self.inside(dest, src): return None
        dops = self.block_ops(dest)
        before = None
        if dops and self.rng.random() < 0.6:
            before = self.idof(self.rng.choice(dops))
        elif not valid and self.rng.random() < 0.3 and self.ops():
            before = self.idof(self.rng.choice(self.ops()))
        args = []
        if self.rng.random() < 0.6:
            own = {id(v) for v in src._args}
            vals = [self.idof(v) for v in self.values() if id(v) not in own]
            n = len(src._args) if (valid or self.rng.random() < 0.6) else self.rng.randint(0, 3)
            args = [self.rng.choice(vals) for _ in range(n)] if vals else []
        return ["CRwInlineBlock", self.rng.random() < 0.5, self.idof(src), self.idof(dest), before, args]

    def block_ip(self, valid):
        """(region, insert_before | None)"""
        r = self.pick(self.regions())
        if r is None: return None
        bl = self.region_blocks(r)
        before = None
        if bl and self.rng.random() < 0.6:
            before = self.idof(self.rng.choice(bl))
        elif not valid and self.rng.random() < 0.3 and self.blocks():
            before = self.idof(self.rng.choice(self.blocks()))
        return r, before

    def g_CRwInsertBlock(self, valid):
        ip = self.block_ip(valid)
        if ip is None: return None
        return ["CRwInsertBlock", self.blocks_list(valid, ip[0]), self.idof(ip[0]), ip[1], self.rng.random() < 0.5]

    def g_CCreateBlock(self, valid):
        ip = self.block_ip(valid)
        if ip is None: return None
        return ["CCreateBlock", self.idof(ip[0]), ip[1], self.rng.choice([0, 1, 2])]

    def g_CRwInsertOp(self, valid):
        b = self.pick(self.blocks())
        if b is None: return None
        bo = self.block_ops(b)
        before = None
        if bo and self.rng.random() < 0.6:
            before = self.idof(self.rng.choice(bo))
        elif not valid and self.rng.random() < 0.3 and self.ops():
            before = self.idof(self.rng.choice(self.ops()))
        return ["CRwInsertOp", self.rng.random() < 0.5, self.ops_list(valid, b), self.idof(b), before, self.rng.random() < 0.5]

    def g_CRwMoveRegionContents(self, valid):
        r = self.pick(self.regions())
        return None if r is None else ["CRwMoveRegionContents", self.rng.random() < 0.5, self.idof(r)]

    def g_CRwInlineRegion(self, valid):
        r = self.pick(self.regions())
        ip = self.block_ip(valid)
        if r is None or ip is None: return None
        d, before = ip
        if d is not r and self.inside(d, r): return None
        if before is not None:
            t = self.w.B(before)
            if t.parent is not None and t.parent is not r and self.inside(t.parent, r): return None
        if valid and d is r: return None
        return ["CRwInlineRegion", self.rng.random() < 0.5, self.idof(r), self.idof(d), before]

    def g_CPrReplaceAllUsesWith(self, valid):
        safe = self.rng.random() < 0.5
        vs = self.values()
        used = [v for v in vs if v.first_use is not None]
        v = self.pick(used if (used and self.rng.random() < 0.7) else vs)
        if v is None: return None
        if self.rng.random() < 0.3:
            if valid and safe and v.first_use is not None:
                return None
            return ["CPrReplaceAllUsesWith", self.idof(v), None, safe]
        return ["CPrReplaceAllUsesWith", self.idof(v), self.idof(self.rng.choice(vs)), safe]

    def mutate(self, n_calls):
        names = sorted(k[2:] for k in dir(self) if k.startswith("g_C"))
        weights = [WEIGHTS.get(n, 1.0) for n in names]
        made = 0
        tries = 0
        while made < n_calls and not self.broken and tries < n_calls * 20:
            tries += 1
            name = self.rng.choices(names, weights)[0]
            valid = self.rng.random() < 0.8
            before = len(self.calls)
            c = getattr(self, "g_" + name)(valid)
            if self.broken:
                break
            if c is None:
                continue
            self.do(c)
            made += 1
            self.kinds.append((name, valid, len(self.calls) - before))


NEG_INDEX_RATE = 0.3
WEIGHTS = {"COpCreate": 0.6, "CBlockNew": 0.4, "CRegionNew": 0.4, "COpDropAllReferences": 0.3,
           "CBlockDropAllReferences": 0.3, "CRegionDropAllReferences": 0.3, "CRegionErase": 0.5,
           "CBlockErase": 0.6, "COpErase": 0.7}


def gen_history(rng, max_calls=60):
    g = Gen(rng)
    g.kinds = []
    g.build_initial()
    n_init = len(g.calls)
    if not g.broken:
        g.mutate(rng.randint(1, max_calls))
    return {"calls": g.calls, "n_init": n_init}, g


# ---------------------------------------------------------------------------- known findings (classes)

def last_call(case, res):
    k = len(res) - 1
    return case["calls"][k], res[k]


def known(case, res):
    """id of the known finding whose CLASS the first (= last call's) oracle failure belongs to"""
    bad = [k for k, e in enumerate(res) if e[-1] == 0]
    if not bad:
        return None
    k = len(res) - 1          # generated histories end at their first property-level failure
    c, e = case["calls"][k], res[k]
    for kid, pred in KNOWN_CLASSES:
        if pred(c, e, case, res, k):
            return kid
    return None


BLOCK_LIST_CALLS = {"CRegionNew": 0, "CAddBlock": 1, "CInsertBlockBefore": 1, "CInsertBlockAfter": 1,
                    "CInsertBlock": 1, "CRwInsertBlock": 0}          # kind -> position of the block list
SAFE_ERASE_CALLS = {"COpErase": 1, "CEraseOp": 2, "CRwEraseOp": 2, "CBlockErase": 1, "CEraseBlock": 2,
                    "CEraseBlockIdx": 2, "CRwReplaceOp": 3, "CPrReplace": 3}   # kind -> position of safe_erase
VALUE_ERROR = 3

# (id, predicate on (call, trace entry)) -- a predicate describes the CLASS of a finding by call
# constructor, argument shape and outcome; it is consulted only for a call after which the oracle fails.
KNOWN_CLASSES = [
    # (C01-kf-1/2/3 -- negative index in OpOperands/OpSuccessors.__setitem__ and detach_region(int) -- were
    #  repaired in /repo by f198beb and 9351131; their witnesses are replayed as `fixed` entries)
    # raising calls that leave a partial mutation behind
    ("C01-kf-4", lambda c, e, *_: c[0] in BLOCK_LIST_CALLS and e[0] == VALUE_ERROR
        and len(c[1 + BLOCK_LIST_CALLS[c[0]]]) >= 2),
    ("C01-kf-5", lambda c, e, *_: c[0] in SAFE_ERASE_CALLS and e[0] == VALUE_ERROR
        and c[1 + SAFE_ERASE_CALLS[c[0]]] is True),
    ("C01-kf-6", lambda c, e, *_: c[0] == "CEraseArg" and e[0] == VALUE_ERROR and c[3] is True),
]


def nontrivial(case, res):
    n0 = case.get("n_init", 0)
    if any(e[0] == 0 for e in res[n0:]):
        return tuple(c[0] for c in case["calls"])
    return None


def run(ctx: Ctx):
    thorough = ctx.tier == "thorough"
    replay_findings(ctx, "history", impl, holds)
    n_hist = 2000 if thorough else 300
    cases, per_kind, raising, valid_calls, arbitrary_calls = [], Counter(), Counter(), 0, 0
    sizes = Counter()
    max_sizes = {k: 0 for k in irdump.KINDS}
    lens = []
    for k in range(n_hist):
        case, g = gen_history(ctx.rng)
        cases.append(case)
        if k % 10 == 0:
            # replaying the recorded calls on fresh objects must reproduce the trace (determinism of ids and dumps)
            if impl_full(case) != g.entries:
                raise RuntimeError("C01 harness: re-executing a generated history gave a different trace")
        _TRACE_CACHE[id(case)] = g.entries
        lens.append(len(case["calls"]) - case["n_init"])
        for c, e in zip(case["calls"], g.entries):
            per_kind[c[0]] += 1
            if e[0]:
                raising[c[0]] += 1
        for name, valid, _ in g.kinds:
            valid_calls += valid
            arbitrary_calls += (not valid)
        for k in irdump.KINDS:
            max_sizes[k] = max(max_sizes[k], len(g.reg.objs[k]))
    differential(ctx, DiffSpec("history", REQ, cases, impl, coq_expr, holds, known, nontrivial, shard=30))
    for b in ctx.broken:
        if isinstance(b, dict) and b.get("correspondence") == "history" and "first_diverging_case" in b:
            b["diagnostic"] = diagnose(ctx, b["first_diverging_case"])
    tot = sum(per_kind.values())
    ctx.coverage["calls_per_constructor"] = dict(sorted(per_kind.items()))
    ctx.coverage["raising_calls_per_constructor"] = dict(sorted(raising.items()))
    ctx.coverage["calls_total"] = tot
    ctx.coverage["raising_pct"] = round(100.0 * sum(raising.values()) / max(1, tot), 1)
    ctx.coverage["mutation_calls_valid_by_construction"] = valid_calls
    ctx.coverage["mutation_calls_arbitrary"] = arbitrary_calls
    ctx.coverage["max_heap_sizes"] = max_sizes
    ctx.coverage["mutation_calls_per_history"] = {"min": min(lens), "max": max(lens), "mean": round(sum(lens) / len(lens), 1)}
    ctx.coverage["auxiliary_invariant_only_failures"] = AUX_ONLY[:5]
    ctx.coverage["constructors_never_drawn"] = sorted(set(CONSTRUCTORS) - set(per_kind))
    ctx.coverage["rule"] = __doc__.split("\n\n", 1)[1][:1500]


CONSTRUCTORS = [
    "COpCreate", "CBlockNew", "CRegionNew", "CSetOperands", "CSetSuccessors", "COperandSetItem",
    "CSuccessorSetItem", "CAddRegion", "CDetachRegion", "CDetachRegionIdx", "COpDropAllReferences", "COpErase",
    "COpDetach", "CReplaceAllUsesWith", "CReplaceUsesWithIf", "CValueErase", "CInsertArg", "CEraseArg",
    "CInsertOpAfter", "CInsertOpBefore", "CAddOp", "CAddOps", "CInsertOpsBefore", "CInsertOpsAfter", "CSplitBefore",
    "CDetachOp", "CEraseOp", "CBlockDropAllReferences", "CBlockErase", "CAddBlock", "CInsertBlockBefore",
    "CInsertBlockAfter", "CInsertBlock", "CDetachBlock", "CDetachBlockIdx", "CEraseBlock", "CEraseBlockIdx",
    "CRegionDropAllReferences", "CRegionErase", "CMoveBlocks", "CMoveBlocksBefore", "CRwEraseOp", "CRwReplaceOp",
    "CRwReplaceValueWithNewType", "CRwInlineBlock", "CRwInsertBlock", "CRwInsertOp", "CRwMoveRegionContents",
    "CRwInlineRegion", "CPrReplaceAllUsesWith", "CPrReplaceUsesWithIf", "CPrReplace", "CPrInsertBlockArgument",
    "CPrEraseBlockArgument", "CCreateBlock",
]
