"""C07 -- Parsing any text terminates promptly and fails only with diagnostics.

Translator tie (regenerated on every run, fail-closed): every `re.compile(<literal>)` of
xdsl/utils/mlir_lexer.py and the two name patterns of xdsl/ir/core.py are parsed by
harness/translate/regex2coq.py into the regex AST of coq/C07/Regex.v (coq/Gen/C07_regexes.v, together
with CPython's str.isalpha/isnumeric/isdecimal and \\w \\d \\s tables swept over all code points, and
four code-shape switches read off the AST of lex()/get_int_value/_parse_block/parse_optional_successor).
coq/Gen/C07_current.v then states, about exactly these regenerated definitions, the per-regex
obligations `cost_bound r = Some (k, prompt)` and the property theorems for the CURRENT source (full
statement where the obligations hold, `_refuted` with a vm_compute witness where they do not).

Correspondence (hand model coq/C07/Model.v vs the real code): families
  lexer-corpus / lexer-mutations / lexer-soup  real MLIRLexer token stream (kind, span, literal value via
        get_int_value/get_float_value, terminating exception + span) vs `lex`;
  regex-vs-re   translated regex under the model's backtracking matcher vs CPython `re` (match end);
  labels        event sequences (successor / label definition / SSA definition / nested regions) rendered
        as generic-format text and parsed by the real Parser vs `run`;
  get-block     Parser._get_block_from_name called directly.
Oracle `holds` (independent of the model): Parser(ctx, text).parse_module() with all dialects registered
must return or raise ParseError / VerifyException / another diagnostic within 50 ms + 20 us/char of CPU time
(x10 slack, re-measured 3 times, and the time must more than triple from the first half of the input); ValueError, KeyError,
IndexError, AssertionError, TypeError, AttributeError, RecursionError (and other non-diagnostic
exceptions) are failures.  Non-trivial: the case reaches a lexer/parser branch other than plain success
(error token, literal conversion, string escape, forward block reference, nested region, ...).
"""
from __future__ import annotations

import ast
import hashlib
import json
import re
import time
from pathlib import Path

from harness import common
from harness.common import (COQ, REPO, VERIF, Ctx, DiffSpec, ModelUnavailable, Untranslatable, coq_list, coq_nat,
                            coq_Z, differential, exc_code, replay_findings, write_if_changed)
from harness.translate import regex2coq as R

META = {
    "id": "C07",
    "title": "Parsing any text terminates promptly and fails only with diagnostics",
    "design_ref": "DESIGN.md section 8.C07",
    "technique": "certified cost analyser for a step-counting backtracking-regex model + lexer model; regexes "
                 "regenerated from source each run; model-vs-code correspondence; timed end-to-end oracle",
    "level_text": (
        "Proved in Coq for EVERY input string: (1) cost_bound_sound -- a regex accepted by the analyser is matched by "
        "the backtracking matcher (sre exploration order) in at most k*(consumed+1) steps; (2) for any lexer "
        "configuration whose seven regexes are accepted, lexing takes at most K*(len+1) steps with K computed "
        "(C07_lex_linear_general) and never runs out of fuel; (3) with literal conversion guarded, lexing + literal "
        "conversion never ends in an internal error (C07_lex_total_general); (4) with validated name hints and "
        "recorded label definitions, the block-label / SSA-name registration paths never raise an internal error "
        "for any event sequence (C07_labels_no_internal_general).  These are instantiated for the repaired "
        "configuration (proposed fixes) and, in coq/Gen/C07_current.v, for the regexes and code shape regenerated "
        "from /repo on this run; for the pinned tree the full statements are REFUTED by vm_compute witnesses "
        "(exponential unterminated string, superscript-two literal, 4301-digit literal, ^42:, redefined forward "
        "block) and the partial statements proved (linear for inputs without a double quote; no internal error "
        "when every str.isnumeric character is an ASCII digit and the input has at most 4300 code points; labels: "
        "valid name hints and no label defined twice).  PARTIAL: totality of the whole recursive-descent parser (every "
        "dialect's custom parse/attribute syntax) is not proved; it is only exercised by the timed end-to-end "
        "oracle on corpus mutations and token soups (testing)."),
    "level_note": (
        "Trusted: Coq kernel; regex2coq translator (validated against CPython re on generated strings each run); "
        "that CPython's sre explores alternatives in the modelled order (steps are compared only ordinally with "
        "wall-clock on pumped families); CPython Unicode tables as swept by the generator; hand model of "
        "MLIRLexer.lex / get_int_value / get_float_value / _parse_block / parse_optional_successor / "
        "_get_block_from_name / _register_ssa_definition / region block scoping, tied by correspondence. "
        "Input strings are sequences of Unicode scalar values (no lone surrogates). Not covered by proof: the "
        "parser beyond the paths above (all dialect-specific parsing, attribute parser, affine parser), Python's "
        "recursion limit on deeply nested input (oracle only), cost of int()/float() themselves."),
}
COQ_TARGETS = ["C07/Enc.vo", "C07/RegexProofs.vo", "C07/Proofs.vo", "C07/ProofsLabels.vo", "C07/ProofsText.vo",
               "C07/ProofsInst.vo", "Gen/C07_current.vo", "Props/C07.vo"]
REQ = ["C07.Regex", "C07.Model", "C07.Current", "C07.Enc"]
ASSUMPTIONS = [
    "input text is a sequence of Unicode scalar values (no lone surrogates, which str.encode() rejects)",
    "CPython's sre tries a greedy repetition's longest alternative first and alternation branches left to right "
    "(the order bt_match models); its optimisations only remove steps",
    "sys.get_int_max_str_digits() is CPython's default 4300",
]
TRUSTED = [
    "harness/translate/regex2coq.py (regex literal -> Coq AST), cross-checked against CPython `re` on generated strings by family regex-vs-re",
    "CPython Unicode predicate tables swept over all 0x110000 code points by the generator (Gen/C07_regexes.v)",
]

import os  # noqa: E402
REPO = Path(os.environ.get("VERIF_C07_REPO", str(REPO)))   # scratch copies of the tree (fix validation) only
LEXER_PY = REPO / "xdsl/utils/mlir_lexer.py"
CORE_PY = REPO / "xdsl/ir/core.py"
PARSER_PY = REPO / "xdsl/parser/core.py"

# the pinned tree's string-literal pattern (kept so that the refutation stays checkable after a repair) and the
# proposed replacement of build/proposed_fixes/C07-1.diff
PINNED_STRING = r'"(?:[^"\\\n\v\f]+|\\(?:["nt\\]|[0-9A-Fa-f]{2}))*"'
PROPOSED_STRING = r'"[^"\\\n\v\f]*(?:\\(?:["nt\\]|[0-9A-Fa-f]{2})[^"\\\n\v\f]*)*"'

LEXER_REGEXES = {   # Coq name -> attribute of MLIRLexer
    "r_ws": "_whitespace_regex",
    "r_bare": "bare_identifier_regex",
    "r_bare_suffix": "bare_identifier_suffix_regex",
    "r_suffix_id": "_suffix_id",
    "r_string": "_unescaped_characters_regex",
    "r_hex": "_hexdigits_star_regex",
    "r_digits": "_digits_star_regex",
    "r_frac": "_fractional_suffix_regex",
}
CORE_REGEXES = {"r_name": "_VALUE_NAME_PATTERN", "r_name_suffix": "_VALUE_NAME_SUFFIX_PATTERN"}
COST_REGEXES = ["r_ws", "r_bare_suffix", "r_suffix_id", "r_string", "r_hex", "r_digits", "r_frac"]

_STATE: dict = {}


# ------------------------------------------------------------------------------------------------
# translator step


def _ranges(pred):
    out, start = [], None
    for x in range(0x110000):
        if 0xD800 <= x <= 0xDFFF:
            ok = False
        else:
            ok = pred(chr(x))
        if ok and start is None:
            start = x
        elif not ok and start is not None:
            out.append((start, x - 1))
            start = None
    if start is not None:
        out.append((start, 0x10FFFF))
    return out


def _table(name, rs):
    lo = [(a, min(b, 127)) for a, b in rs if a < 128]
    hi = [(max(a, 128), b) for a, b in rs if b >= 128]
    f = lambda l: "[" + "; ".join(f"({a}, {b})" for a, b in l) + "]"
    return f"Definition {name} : list (Z * Z) * list (Z * Z) :=\n  ({f(lo)}%Z,\n   {f(hi)}%Z).\n"


def unicode_tables():
    import unicodedata
    preds = {
        "tbl_alpha": str.isalpha,
        "tbl_numeric": str.isnumeric,
        "tbl_decimal": str.isdecimal,
        "tbl_word": lambda c: c.isalnum() or c == "_",
        "tbl_space": str.isspace,
    }
    tabs = {k: _ranges(p) for k, p in preds.items()}
    for a, b in tabs["tbl_decimal"]:
        for x in range(a, b + 1):
            if unicodedata.decimal(chr(x)) != (x - a) % 10:
                raise Untranslatable(f"decimal digit U+{x:04X} is not aligned with its run starting at U+{a:04X}")
    # `re`'s \w \d \s on str patterns: cross-check the tables against the engine itself
    for nm, pat in (("tbl_word", r"\w"), ("tbl_decimal", r"\d"), ("tbl_space", r"\s")):
        rx = re.compile(pat)
        got = _ranges(lambda c: rx.fullmatch(c) is not None)
        if got != tabs[nm]:
            raise Untranslatable(f"re's {pat} differs from the str predicate used for {nm}")
    return tabs


def _find_func(tree, cls, name):
    for node in ast.walk(tree):
        if isinstance(node, ast.ClassDef) and node.name == cls:
            for f in node.body:
                if isinstance(f, ast.FunctionDef) and f.name == name:
                    return f
    raise Untranslatable(f"{cls}.{name} not found")


def _src(node):
    return ast.unparse(node)


def code_switches() -> dict:
    """Read the four code-shape switches of Model.config off the source (fail-closed)."""
    lt = ast.parse(LEXER_PY.read_text())
    pt = ast.parse(PARSER_PY.read_text())
    sw = {}
    # (b) the test guarding `return self._lex_number(start_pos)` in MLIRLexer.lex
    lex = _find_func(lt, "MLIRLexer", "lex")
    tests = [n.test for n in ast.walk(lex) if isinstance(n, ast.If) and len(n.body) == 1
             and isinstance(n.body[0], ast.Return) and "_lex_number" in _src(n.body[0])]
    if len(tests) != 1:
        raise Untranslatable("MLIRLexer.lex: cannot find the single `if ...: return self._lex_number(...)`")
    t = _src(tests[0])
    if t == "current_char.isnumeric()":
        sw["ascii_digit"] = False
    elif t in ("'0' <= current_char <= '9'", "current_char in '0123456789'",
               "current_char.isascii() and current_char.isdigit()"):
        sw["ascii_digit"] = True
    else:
        raise Untranslatable(f"MLIRLexer.lex: unrecognised digit test `{t}`")
    # (f) _lex_string_literal: STRING_LIT iff the payload is ASCII (pinned) / iff it decodes as UTF-8
    f = _find_func(lt, "MLIRLexer", "_lex_string_literal")
    body_src = _src(f)
    tries = [n for n in ast.walk(f) if isinstance(n, ast.Try)]
    if "bytes_contents.isascii()" in body_src and not tries:
        sw["utf8_kind"] = False
    elif len(tries) == 1 and _src(tries[0].body[0]) == "lit.bytes_contents.decode()" and len(tries[0].handlers) == 1 \
            and _src(tries[0].handlers[0].type) == "UnicodeDecodeError" and "BYTES_LIT" in _src(tries[0].handlers[0]) \
            and "isascii" not in body_src:
        sw["utf8_kind"] = True
    else:
        raise Untranslatable("MLIRLexer._lex_string_literal: unrecognised STRING_LIT / BYTES_LIT decision")
    # (e) get_int_value / get_float_value: int()/float() wrapped in try/except ValueError -> ParseError ?
    guards = []
    for fn in ("get_int_value", "get_float_value"):
        f = _find_func(lt, "MLIRTokenKind", fn)
        tries = [n for n in ast.walk(f) if isinstance(n, ast.Try)]
        if not tries:
            guards.append(False)
        elif len(tries) == 1 and all(isinstance(h.type, ast.Name) and h.type.id == "ValueError" and
                                     any(isinstance(x, ast.Raise) and "ParseError" in _src(x) for x in ast.walk(h))
                                     for h in tries[0].handlers) and not tries[0].finalbody:
            calls = [n for n in ast.walk(f) if isinstance(n, ast.Call) and isinstance(n.func, ast.Name)
                     and n.func.id in ("int", "float")]
            inside = [n for b in tries[0].body for n in ast.walk(b) if isinstance(n, ast.Call)
                      and isinstance(n.func, ast.Name) and n.func.id in ("int", "float")]
            if len(calls) != len(inside):
                raise Untranslatable(f"MLIRTokenKind.{fn}: a conversion call lies outside the try block")
            guards.append(True)
        else:
            raise Untranslatable(f"MLIRTokenKind.{fn}: unrecognised exception handling")
    if guards[0] != guards[1]:
        raise Untranslatable("get_int_value and get_float_value are guarded differently")
    sw["int_guard"] = guards[0]
    # (c) the test guarding `block.name_hint = name` in _parse_block and parse_optional_successor
    vals = []
    for fn in ("_parse_block", "parse_optional_successor"):
        f = _find_func(pt, "Parser", fn)
        ifs = [n for n in ast.walk(f) if isinstance(n, ast.If) and any(
            isinstance(s, ast.Assign) and _src(s.targets[0]) == "block.name_hint" for s in n.body)]
        if len(ifs) != 1:
            raise Untranslatable(f"Parser.{fn}: cannot find the single guarded `block.name_hint = name`")
        t = _src(ifs[0].test)
        if t == "not Block.is_default_block_name(name)":
            vals.append(False)
        elif t in ("Block.is_valid_name(name) and (not Block.is_default_block_name(name))",
                   "not Block.is_default_block_name(name) and Block.is_valid_name(name)"):
            vals.append(True)
        else:
            raise Untranslatable(f"Parser.{fn}: unrecognised name-hint guard `{t}`")
    if vals[0] != vals[1]:
        raise Untranslatable("_parse_block and parse_optional_successor guard the name hint differently")
    sw["label_validate"] = vals[0]
    f = _find_func(pt, "Parser", "_get_block_from_name")
    if "Block.is_valid_name(name) and (not Block.is_default_block_name(name))" not in _src(f):
        raise Untranslatable("Parser._get_block_from_name: the name-hint guard changed")
    # (d) after forward_block_references.pop(name): is the definition span recorded?
    f = _find_func(pt, "Parser", "_parse_block")
    pops = [n for n in ast.walk(f) if isinstance(n, ast.If) and any("forward_block_references.pop(name)" in _src(s)
                                                                     for s in n.orelse)]
    if len(pops) != 1:
        raise Untranslatable("Parser._parse_block: cannot find the branch calling forward_block_references.pop(name)")
    orelse = pops[0].orelse
    pop_stmt = [s for s in orelse if _src(s) == "self.forward_block_references.pop(name)"]
    if len(pop_stmt) != 1:
        raise Untranslatable("Parser._parse_block: forward_block_references.pop(name) is no longer a plain statement")
    rec = [s for s in orelse if isinstance(s, ast.Assign) and _src(s.targets[0]) == "self.blocks[name]"]
    if not rec:
        sw["label_redef"] = False
    elif len(rec) == 1 and _src(rec[0].value) == "(block, name_token.span)":
        sw["label_redef"] = True
    else:
        raise Untranslatable("Parser._parse_block: unrecognised update of self.blocks[name]")
    return sw


def translate_sources():
    lex = R.extract(LEXER_PY, list(LEXER_REGEXES.values()))
    core = R.extract(CORE_PY, list(CORE_REGEXES.values()))
    extra = set(lex) - set(LEXER_REGEXES.values())
    if extra:
        raise Untranslatable(f"mlir_lexer.py compiles regexes the lexer model does not know: {sorted(extra)}")
    regs = {}
    for coq, attr in LEXER_REGEXES.items():
        e = lex[attr]
        regs[coq] = (e, R.parse(e.pattern, e.ascii, f"mlir_lexer.py:{attr}"))
    for coq, attr in CORE_REGEXES.items():
        e = core[attr]
        regs[coq] = (e, R.parse(e.pattern, e.ascii, f"ir/core.py:{attr}"))
    regs["r_pinned_string"] = (R.Extracted("PINNED_STRING", PINNED_STRING, False, 0, 0),
                               R.parse(PINNED_STRING, False, "c07.py:PINNED_STRING"))
    regs["r_proposed_string"] = (R.Extracted("PROPOSED_STRING", PROPOSED_STRING, False, 0, 0),
                                 R.parse(PROPOSED_STRING, False, "c07.py:PROPOSED_STRING"))
    return regs


def emit_regexes(regs, sw, tabs) -> str:
    out = ["(* GENERATED on every run by harness/props/c07.py::generate via harness/translate/regex2coq.py",
           "   from xdsl/utils/mlir_lexer.py, xdsl/ir/core.py, xdsl/parser/core.py -- do not edit. *)",
           "From Coq Require Import ZArith List.", "From XV Require Import C07.Regex.", "Import ListNotations.", ""]
    for name, (e, node) in regs.items():
        out.append(f"(* {e.name}  lines {e.lineno}-{e.end_lineno}  ascii={e.ascii} *)")
        out.append(f"Definition {name} : regex :=\n  {R.to_coq(node)}.")
    out.append("")
    for k in ("ascii_digit", "int_guard", "label_validate", "label_redef", "utf8_kind"):
        out.append(f"Definition cur_fx_{k} : bool := {'true' if sw[k] else 'false'}.")
    out.append("")
    for k, rs in tabs.items():
        out.append(_table(k, rs))
    return "\n".join(out) + "\n"


def generate(ctx: Ctx):
    regs = translate_sources()
    sw = code_switches()
    tabs = unicode_tables()
    text = emit_regexes(regs, sw, tabs)
    (COQ / "Gen").mkdir(exist_ok=True)
    write_if_changed(COQ / "Gen" / "C07_regexes.v", text)
    _STATE.update(regs=regs, sw=sw, tabs=tabs)
    ctx.coverage["translator_functions"] = {
        name: {"source": e.name, "lines": [e.lineno, e.end_lineno], "pattern": e.pattern, "ascii": e.ascii,
               "sha": hashlib.sha1(R.to_coq(node).encode()).hexdigest()[:12]}
        for name, (e, node) in regs.items()}
    ctx.coverage["code_switches_read_from_source"] = sw
    # model must be built before the status of the current source can be probed
    res = common.coq_make(["C07/Enc.vo", "C07/Proofs.vo"])
    if not res.ok:
        raise Untranslatable(f"model/proofs do not build against the regenerated regexes: {res.failed_file}: "
                             f"{(res.failed_msg or '')[-600:]}")
    status = ctx.coq_eval(REQ, ["c07_probe"])[0]
    _STATE["status"] = status
    write_if_changed(COQ / "Gen" / "C07_current.v", emit_current(status))


# ------------------------------------------------------------------------------------------------
# generators (every case a pure function of ctx.rng)

GRAMMAR_TOKENS = [
    '"', '\\', '^bb0', '^a', '^42', '%0', '%a', '%a#1', '->', '{-#', '#-}', '...', '..', '.', '0x', '0xg', '0x1F',
    '1e', '1.e+', '1.5e-3', '12', '007', '@"', '@', '@a', '#a', '!a', '!', '#', '%', '^', '(', ')', '{', '}', '[', ']',
    '<', '>', ':', ',', '=', '+', '-', '*', '/', '?', '|', '//', '\n', ' ', '\t', '\x0b', '\x0c', '\r',
    '"\\q"', '"\\0"', '"\\ff"', '"\\n"', '"a\\"', '"é"', '"\\c3\\a9"', "'", '\x00', 'loc', 'true', 'false', 'i32', 'f32',
    'index', 'tensor<2xi32>', 'dense<', 'array<', 'affine_map<', '()', '() -> ()', ': () -> ()', '"test.op"',
    'builtin.module', 'func.func', 'arith.constant', 'module', 'attributes', 'bb', 'x', '_',
    '\u00b2', '\u0663', '\u00bd', '\u00e9', '\u2192', '\u0661\u0662', '\u3007', '\u2167', '\uff11', '\u4e00',
    '\U0001f600', '\u0301', '\u200b', '\u00a0', '\u2028', '\ufeff',
]
GRAMMAR_TOKENS = [t.encode().decode("unicode_escape") if "\\u" in t or "\\U" in t or "\\x" in t or t in ("\\n", "\\t", "\\r")
                  else t for t in GRAMMAR_TOKENS]


def corpus_chunks():
    if "chunks" not in _STATE:
        chunks = []
        for f in sorted((REPO / "tests").rglob("*.mlir")):
            try:
                txt = f.read_text()
            except UnicodeDecodeError:
                continue
            for ch in txt.split("// -----"):
                ch = ch.strip("\n")
                if ch.strip():
                    chunks.append(ch)
        _STATE["chunks"] = chunks
        _STATE["n_files"] = len(list((REPO / "tests").rglob("*.mlir")))
    return _STATE["chunks"]


def code_lines(chunk):
    """the chunk without filecheck comment lines (they only slow the cases down)"""
    return "\n".join(l for l in chunk.split("\n") if not l.lstrip().startswith("//"))


def mutate(rng, text, n_mut):
    for _ in range(n_mut):
        kind = rng.choice(["ins", "ins", "del", "rep", "dup"])
        i = rng.randint(0, len(text))
        if kind == "ins":
            text = text[:i] + rng.choice(GRAMMAR_TOKENS) + text[i:]
        elif kind == "del":
            j = min(len(text), i + rng.randint(1, 6))
            text = text[:i] + text[j:]
        elif kind == "rep":
            j = min(len(text), i + rng.randint(1, 4))
            text = text[:i] + rng.choice(GRAMMAR_TOKENS) + text[j:]
        else:
            j = min(len(text), i + rng.randint(1, 12))
            text = text[:i] + text[i:j] * rng.randint(2, 4) + text[j:]
    return text


def soup(rng, n):
    out = []
    for _ in range(n):
        r = rng.random()
        if r < 0.6:
            out.append(rng.choice(GRAMMAR_TOKENS))
        elif r < 0.75:
            out.append("".join(rng.choice("abcxyz_$.019") for _ in range(rng.randint(1, 6))))
        elif r < 0.85:
            out.append(str(rng.randint(0, 10 ** rng.randint(1, 20))))
        else:
            out.append(rng.choice([" ", " ", "\n", "  "]))
        if rng.random() < 0.4:
            out.append(" ")
    return "".join(out)


def no_surrogates(text):
    return "".join(c for c in text if not 0xD800 <= ord(c) <= 0xDFFF)


# ------------------------------------------------------------------------------------------------
# literal-interior mutations (oracle family): single-character edits INSIDE string literals and numeric tokens

ATTR_SEEDS = [
    'dense<"0x0A0B"> : tensor<2xi8>', 'dense<"0xDEADBEEF"> : tensor<1xi32>', 'dense<"0x0000803F"> : tensor<1xf32>',
    'dense<"0x0A"> : tensor<4xi8>', 'dense<"0x0102030405060708"> : tensor<2xi32>', 'dense<"0x"> : tensor<0xi8>',
    'dense<[1, 2, 3]> : tensor<3xi32>', 'dense<[[1, 2], [3, 4]]> : tensor<2x2xi64>', 'dense<1.5> : tensor<2xf32>',
    'dense<[1.0, -2.5e3, 0x7fc00000]> : tensor<3xf32>', 'dense<[true, false]> : tensor<2xi1>', 'dense<> : tensor<0xi32>',
    'dense<[0xFF, -1]> : tensor<2xi8>', 'dense<(1.0, 2.0)> : tensor<1xcomplex<f32>>', 'dense<7> : vector<4xi16>',
    'dense<[1, 2]> : tensor<2xindex>', 'dense<0x7fc00000> : tensor<2xf32>', 'dense<-0.0> : tensor<1xf64>',
    'array<i32: 1, 2, 3>', 'array<f32: 1.0, 0x7fc00000>', 'array<i1: true, false>', 'array<i64>', 'array<i8: -128, 127>',
    'array<f64: 1e308, -1.5e-300>', 'array<i16: 0x7FFF, 0x8000>',
    'dense_resource<blob1> : tensor<2xi32>', 'dense_resource<"quoted key"> : tensor<1xf32>',
    '0x7fc00000 : f32', '0xFF : i8', '42 : i32', '-7 : index', '1.5 : f64', '1e10 : f32', '0x7FF0000000000000 : f64',
    '0xFFFF : bf16', '123456789012345678901234567890 : i128', '-0 : i1', '1 : i1', '255 : ui8', '-128 : si8', '3 : i0',
    '1.0 : f16', '0x3C00 : f16', '1.0 : f8E4M3FN', 'true', 'false', 'unit',
    '"abc"', '"a\\n\\t\\\\\\"b"', '"\\00\\ff"', '"\\c3\\a9"', '""', '"é²"', '"abc" : !foo.str', '"\\7F\\80"',
    '@foo', '@"quoted name"', '@a::@b::@"c d"', '@"\\41\\42"',
    'affine_map<(d0, d1)[s0] -> (d0 + s0, d1 * 2, d0 floordiv 3, d1 mod 4)>', 'affine_map<() -> (0)>',
    'affine_map<(d0) -> (d0 ceildiv 2 - 1, -d0)>', 'affine_set<(d0)[s0] : (d0 - 5 >= 0, s0 == 0)>',
    'affine_set<(d0, d1) : (d0 * 2 - d1 + 100 >= 0)>',
    'strided<[1, ?], offset: 3>', 'strided<[4, 1]>', 'strided<[?, ?], offset: ?>', 'strided<[], offset: 0>',
    '#foo.bar<"x", [1,2], {a = 1}>', '#foo<"opaque<>">', 'opaque<"dialect", "data">', '#builtin.int<3>',
    '{a = 1 : i32, "b c" = "x", c}', '[1, "a", @s, i32, 2.5 : f32]', '[]', '{}',
    'loc("file.mlir":1:2)', 'loc(unknown)', 'loc(fused["a", "b"])', 'loc("name"("f":1:1))', 'loc(callsite("a" at "b"))',
    '#llvm.linkage<"internal">', '#arith.fastmath<fast>', '#vector.kind<add>', '#gpu.dim x', '#gpu<dim x>',
    '#riscv.fastmath<nnan,ninf>', '#stencil.index<1, -2>', '#memref_stream.stride_pattern<ub = [2, 3], index_map = (d0, d1) -> (d0)>',
    '#csl<ptr_kind single>', '#llvm.cconv<ccc>', '#builtin.float_data<1.5>', '#hw.innerNameRef<@a::@b>',
    '#hw<innerSym@s>', '#dlti.dl_entry<"k", 32 : i32>', '#emitc.opaque<"x">',
]
TYPE_SEEDS = [
    'tensor<2x?x3xf32>', 'tensor<*xf32>', 'tensor<0xi8>', 'tensor<2x3xi32, "enc">', 'tensor<4294967296xi1>',
    'memref<4x4xf32, strided<[4, 1], offset: 2>>', 'memref<?xi8, affine_map<(d0) -> (d0)>, 1 : i32>', 'memref<*xf32>',
    'memref<2xf32, 3>', 'vector<[4]x2xi32>', 'vector<4xf16>', 'vector<2x[8]xi1>', 'i1', 'si8', 'ui64', 'i1234567', 'i0',
    'f8E4M3FN', 'bf16', 'tf32', 'f128', 'index', 'complex<f64>', 'tuple<i32, f32>', 'tuple<>', '(i32, f32) -> (index)',
    '() -> ()', '(i1) -> i2', '!llvm.ptr', '!llvm.ptr<3>', '!llvm.struct<(i32, f64)>', '!llvm.struct<"name", (i8)>',
    '!llvm.array<4 x i8>', '!llvm.func<i32 (i64, ...)>', 'none', '!foo.bar<"x">', '!riscv.reg<a0>', '!riscv.freg<ft11>',
    '!x86.reg64<rax>', '!x86.avx512reg<zmm31>', '!stencil.temp<[-1,68]x?xf64>', '!stencil.field<[0,64]xf32>',
    '!emitc.array<2x3xi32>', '!emitc.ptr<!emitc.opaque<"T">>', '!gpu.async.token', '!pdl.range<value>',
    '!csl.ptr<f32, #csl<ptr_kind single>, #csl<ptr_const var>>', '!hw.array<3xi8>', '!llvm.vec<4 x i32>',
    '!snitch_stream.stride_pattern_type<2>', '!mpi.request', '!cf.dummy', '!test.type<"a b">', '!ematch.x',
    '!transform.op<"foo.bar">', '!smt.bv<32>', '!varith.x', '!builtin.tensor<2xi32>', '!builtin.int<8>',
]
LIT_STR = re.compile(r'"(?:[^"\\\n]|\\.)*"')
LIT_NUM = re.compile(r"0[xX][0-9a-fA-F]+|[0-9]+(?:\.[0-9]*)?(?:[eE][+-]?[0-9]+)?")
LIT_INS = list("0123456789abcdefABCDEFgGxXzZ+-._eE\\\"nt qp' \x00\n") + ["é", "²", "٣", "１", "\\0", "\\x", "0x", "00"]


def literal_spans(text):
    spans = [("str", m.start(), m.end()) for m in LIT_STR.finditer(text)]
    taken = [(a, b) for _, a, b in spans]
    for m in LIT_NUM.finditer(text):
        if not any(a <= m.start() < b for a, b in taken):
            if m.start() > 0 and (text[m.start() - 1].isalnum() or text[m.start() - 1] in "_$.%^#!@"):
                continue          # part of an identifier such as d0, i32, %0, ^bb1
            spans.append(("num", m.start(), m.end()))
    return spans


def mutate_literal(rng, text):
    """one single-character edit (or one boundary edit) strictly inside a string literal or numeric token"""
    spans = literal_spans(text)
    if not spans:
        return None
    kind, a, b = rng.choice(spans)
    lo, hi = (a + 1, b - 1) if kind == "str" else (a, b)      # edit positions: inside the quotes / the token
    op = rng.choice(["del", "ins", "ins", "rep", "special"])
    if op == "del" and hi > lo:
        i = rng.randrange(lo, hi)
        return text[:i] + text[i + 1:]
    if op == "rep" and hi > lo:
        i = rng.randrange(lo, hi)
        return text[:i] + rng.choice(LIT_INS) + text[i + 1:]
    if op == "special":
        sp = rng.choice(["empty", "droplast", "addhex", "cutescape", "long", "sign", "dup"])
        body = text[lo:hi]
        if sp == "empty":
            return text[:lo] + text[hi:]
        if sp == "droplast" and hi > lo:
            return text[:hi - 1] + text[hi:]
        if sp == "addhex":
            return text[:hi] + rng.choice("0Aaf9") + text[hi:]
        if sp == "cutescape" and "\\" in body:
            i = lo + body.index("\\")
            return text[:i + 1] + text[i + 2:]
        if sp == "long":
            return text[:hi] + rng.choice("0912fF") * rng.choice([18, 40, 330]) + text[hi:]
        if sp == "sign":
            i = rng.randint(lo, hi)
            return text[:i] + rng.choice("+-") + text[i:]
        if sp == "dup" and hi > lo:
            return text[:lo] + body * 2 + text[hi:]
    i = rng.randint(lo, hi)
    return text[:i] + rng.choice(LIT_INS) + text[i:]


LITERAL_MARKERS = ("dense<", "array<", "dense_resource", "affine_map", "affine_set", "strided<", "0x", "loc(", '\\', "opaque<")


def literal_cases(rng, chunks, n_seed, n_corpus):
    cases = []
    seeds = [("attr", t) for t in ATTR_SEEDS] + [("type", t) for t in TYPE_SEEDS] + \
            [("module", f'"test.op"() {{a = {t}}} : () -> ()') for t in ATTR_SEEDS] + \
            [("module", f'%0 = "test.op"() : () -> ({t})') for t in TYPE_SEEDS] + \
            [("module", f'"test.op"() <{{p = {t}}}> : () -> () loc("f":1:2)') for t in ATTR_SEEDS[:40]]
    for mode, t in [(m, t) for m, t in seeds if m != "module"]:
        cases.append({"kind": "literal-seed", "mode": mode, "text": t})
    for _ in range(n_seed):
        mode, t = rng.choice(seeds)
        m = mutate_literal(rng, t)
        if m is not None and rng.random() < 0.25:
            m2 = mutate_literal(rng, m)
            m = m2 if m2 is not None else m
        if m is not None:
            cases.append({"kind": "literal-interior", "mode": mode, "text": no_surrogates(m)})
    pool = _STATE.get("literal_chunks")
    if pool is None:
        pool = _STATE["literal_chunks"] = [code_lines(c) for c in chunks if any(k in c for k in LITERAL_MARKERS)]
    for _ in range(n_corpus):
        ch = rng.choice(pool)
        lines = ch.split("\n")
        idx = [i for i, l in enumerate(lines) if any(k in l for k in LITERAL_MARKERS)]
        if idx:                                  # a window of a few lines around a literal-bearing line
            i = rng.choice(idx)
            ch = "\n".join(lines[max(0, i - 2):i + 3])
        m = mutate_literal(rng, ch)
        if m is not None:
            cases.append({"kind": "literal-interior-corpus", "mode": "module", "text": no_surrogates(m)})
    return cases


# ------------------------------------------------------------------------------------------------
# Gen/C07_current.v: obligations and theorems about the CURRENT source


def coq_cps(cps) -> str:
    return "[" + "; ".join(str(c) for c in cps) + "]%Z"


W_ATTR_PRE = '"test.op"() {a = '
W_ATTR_POST = '} : () -> ()'


def pump_family(name, node):
    """(lexer-level prefix, pumped code point, suffix) reaching regex `name` with its nested-star body"""
    uni = _uni
    classes = list(R.nested_star_bodies(node))
    x = R._sample(classes[0], uni) if classes else None
    if x is None:
        # no nested-plus shape: pump the first star body we can find
        def first_star(n):
            if n[0] == "star":
                return n[1]
            for c in n[1:]:
                if isinstance(c, tuple) and c and isinstance(c[0], str):
                    r = first_star(c)
                    if r is not None:
                        return r
            return None
        b = first_star(node)
        while b is not None and b[0] != "chr":
            b = b[1] if len(b) > 1 and isinstance(b[1], tuple) else None
        x = R._sample(b[1], uni) if b is not None else 97
    lead = R.leading_literals(node, uni)
    prefix = {"r_ws": [], "r_bare_suffix": [97], "r_suffix_id": [37], "r_string": [], "r_hex": [48, 120, 49],
              "r_digits": [49], "r_frac": [49]}[name]
    return prefix + lead, x


def _uni(nm, x):
    c = chr(x)
    return {"UWord": c.isalnum() or c == "_", "UDigit": c.isdecimal(), "USpace": c.isspace()}[nm]


def emit_current(status) -> str:
    per, rx_ok_cur, k_cur, flags, rx_ok_rep, k_rep, rx_ok_pin, k_pin = status
    regs = _STATE["regs"]
    out = ["(* GENERATED on every run by harness/props/c07.py::generate -- do not edit.",
           "   Obligations and theorems about the regexes and code shape regenerated from /repo's working tree",
           "   (cur_cfg).  A statement is emitted in full where its obligations hold and as a `_refuted`",
           "   theorem with a vm_compute witness where they do not. *)",
           "From Coq Require Import ZArith List Bool Arith Lia.",
           "From XV Require Import C07.Regex C07.RegexProofs C07.Model C07.Current C07.Proofs C07.ProofsLabels",
           "  C07.ProofsInst Gen.C07_regexes.",
           "Import ListNotations.", ""]
    failing = []
    for name, (ok, k, p) in zip(COST_REGEXES, per):
        pat = regs[name][0].pattern.replace("*)", "* )").replace("(*", "( *").replace('"', "''")
        out.append(f"(* {name}  {pat} *)")
        if ok:
            out.append(f"Lemma ob_{name} : cost_bound {name} = Some ({k}, {'true' if p else 'false'}).\n"
                       f"Proof. vm_compute. reflexivity. Qed.")
        else:
            failing.append(name)
            out.append(f"Lemma ob_{name}_FAILS : cost_bound {name} = None.\nProof. vm_compute. reflexivity. Qed.")
    out.append("")
    out.append(f"Lemma K_repaired : N.of_nat (Kof repaired_cfg) = {k_rep}%N.\nProof. vm_compute. reflexivity. Qed.")
    info = {"failing_obligations": failing, "theorems": [], "refuted": [], "unrefuted": []}
    # ---- C07_lex_linear
    if rx_ok_cur:
        out += ["Lemma cur_rx_ok : rx_ok cur_cfg = true.\nProof. vm_compute. reflexivity. Qed.",
                f"Lemma cur_K : Kof cur_cfg = {k_cur}.\nProof. vm_compute. reflexivity. Qed.",
                f"Theorem C07_lex_linear : forall O s, lex_steps O cur_cfg s <= {k_cur} * (length s + 1).",
                "Proof. intros O s. pose proof (lex_linear_general O cur_cfg cur_rx_ok s) as H. rewrite cur_K in H. exact H. Qed.",
                "Print Assumptions C07_lex_linear."]
        info["theorems"].append("C07_lex_linear")
    else:
        wit = None
        for name in failing:
            node = regs[name][1]
            pre, x = pump_family(name, node)
            for n in range(4, 15):
                s = pre + [x] * n
                try:
                    st, _ = R.ref_match(node, s[len(s) - n - len(R.leading_literals(node, _uni)):] if name != "r_ws" else s,
                                        0, _uni, budget=400000)
                except TimeoutError:
                    break
                if st > (k_rep + 5) * (len(s) + 2):
                    wit = s
                    break
            if wit:
                break
        if wit:
            out += [f"Theorem C07_lex_linear_refuted_current :\n  exists s, {k_rep} * (length s + 1) < lex_steps cpy cur_cfg s.",
                    f"Proof. exists {coq_cps(wit)}. apply Nat.ltb_lt. vm_compute. reflexivity. Qed.",
                    "Print Assumptions C07_lex_linear_refuted_current."]
            info["refuted"].append(["C07_lex_linear", wit])
        else:
            info["unrefuted"].append("C07_lex_linear")
    # ---- C07_lex_total
    ascii_digit, int_guard, validate, redef = flags
    out.append("Lemma cur_progress_ok : progress_ok cur_cfg = true.\nProof. vm_compute. reflexivity. Qed.")
    if int_guard:
        out += ["Theorem C07_lex_total : forall O s, no_internal (lex_outcome O cur_cfg s).",
                "Proof. intros O s. exact (lex_total_general O cur_cfg cur_progress_ok eq_refl s). Qed.",
                "Print Assumptions C07_lex_total."]
        info["theorems"].append("C07_lex_total")
    else:
        w = "w_attr [178%Z]" if not ascii_digit else "w_attr (repeat 49%Z (Z.to_nat 4301))"
        out += [f"Theorem C07_lex_total_refuted_current :\n  exists s, lex_outcome cpy cur_cfg s = Internal ValueError.",
                f"Proof. exists ({w}). vm_compute. reflexivity. Qed.",
                "Print Assumptions C07_lex_total_refuted_current."]
        info["refuted"].append(["C07_lex_total", w])
    # ---- C07_labels_no_internal
    if validate and redef:
        out += ["Theorem C07_labels_no_internal : forall U es k, run U cur_cfg pinit es <> PInternal k.",
                "Proof. intros U es k. exact (labels_no_internal_general U cur_cfg eq_refl eq_refl es k). Qed.",
                "Print Assumptions C07_labels_no_internal."]
        info["theorems"].append("C07_labels_no_internal")
    else:
        if not validate:
            w, k = "[EOpen; EDef [52; 50]%Z]", "ValueError"
        else:
            w, k = "[EOpen; ESucc [97%Z]; EDef [97%Z]; EDef [97%Z]]", "KeyError"
        out += [f"Theorem C07_labels_refuted_current :\n  exists es k, run cpy_named cur_cfg pinit es = PInternal k.",
                f"Proof. exists {w}, {k}. vm_compute. reflexivity. Qed.",
                "Print Assumptions C07_labels_refuted_current."]
        info["refuted"].append(["C07_labels_no_internal", w])
    _STATE["current_info"] = info
    return "\n".join(out) + "\n"


def check_current(ctx: Ctx):
    """compile Gen/C07_current.v on its own, count its obligations, collect Print Assumptions"""
    import subprocess
    src = (COQ / "Gen" / "C07_current.v").read_text()
    names = re.findall(r"^\s*(?:Theorem|Lemma)\s+(\w+)", src, re.M)
    ctx.obligations += len(names)
    cmd = ["timeout", "600", "coqc", "-Q", ".", "XV", "Gen/C07_current.v"]
    ctx.checker_cmds.append("cd /verif/coq && " + " ".join(cmd))
    with common.build_lock():
        p = subprocess.run(cmd, cwd=COQ, capture_output=True, text=True)
    if p.returncode != 0:
        ctx.broken.append({"proof": "Gen/C07_current.v", "message": p.stderr[-1500:]})
        return
    ctx.discharged += len(names)
    printed = re.findall(r"^\s*Print Assumptions\s+(\w+)", src, re.M)
    blocks = [b.strip() for b in re.split(r"(?m)^(?=Closed under the global context|Axioms:)", p.stdout) if b.strip()]
    for n, b in zip(printed, blocks):
        ctx.theorems[n] = re.sub(r"\s+", " ", b)[:300]


# ------------------------------------------------------------------------------------------------
# implementation side

KIND_CODE = {n: i for i, n in enumerate([
    "EOF", "BARE_IDENT", "AT_IDENT", "HASH_IDENT", "PERCENT_IDENT", "CARET_IDENT", "EXCLAMATION_IDENT", "FLOAT_LIT",
    "INTEGER_LIT", "STRING_LIT", "BYTES_LIT", "ARROW", "COLON", "COMMA", "ELLIPSIS", "EQUAL", "GREATER", "L_BRACE",
    "L_PAREN", "L_SQUARE", "LESS", "MINUS", "PLUS", "QUESTION", "R_BRACE", "R_PAREN", "R_SQUARE", "SLASH", "STAR",
    "VERTICAL_BAR", "FILE_METADATA_BEGIN", "FILE_METADATA_END"])}
INTERNAL = (ValueError, KeyError, IndexError, AssertionError, TypeError, AttributeError, RecursionError,
            NameError, ZeroDivisionError, UnboundLocalError, StopIteration, OverflowError, MemoryError)
INTERNAL_CODES = {3, 4, 5, 6, 7, 10}


class _Timeout(BaseException):
    pass


def _alarm(*_):
    raise _Timeout()


class time_limit:
    """CPU-time limit (ITIMER_VIRTUAL): robust on an oversubscribed machine, and CPython's sre checks signals
    periodically, so a runaway match is interrupted"""

    def __init__(self, seconds):
        self.s = seconds

    def __enter__(self):
        import signal
        self.old = signal.signal(signal.SIGVTALRM, _alarm)
        signal.setitimer(signal.ITIMER_VIRTUAL, self.s)

    def __exit__(self, *a):
        import signal
        signal.setitimer(signal.ITIMER_VIRTUAL, 0)
        signal.signal(signal.SIGVTALRM, self.old)
        return False


def clock() -> float:
    """CPU seconds of this process: what the budgets are measured in (wall-clock is meaningless under load)"""
    return time.process_time()


def warm_up():
    """import every dialect once (before timing anything and before forking workers)"""
    if _STATE.get("warm"):
        return
    c = new_context()
    for n in list(_STATE["dialects"]):
        try:
            c.load_registered_dialect(n)
        except Exception:   # noqa: BLE001 -- a dialect that cannot be loaded is not this property's business
            pass
    import gc
    gc.collect()
    gc.freeze()      # keep the loaded dialects out of later collections (no GC pauses inside timed regions)
    _STATE["warm"] = True


def new_context():
    from xdsl.context import Context
    from xdsl.dialects import get_all_dialects
    if "dialects" not in _STATE:
        _STATE["dialects"] = get_all_dialects()
    c = Context()
    for n, f in _STATE["dialects"].items():
        c.register_dialect(n, f)
    return c


def text_of(case):
    return "".join(map(chr, case["cps"]))


# ---- lexer correspondence ----------------------------------------------------------------------
def lex_impl(case, limit=0.5):
    """token stream of the real MLIRLexer + the literal conversions the parser applies to literal tokens"""
    from xdsl.utils.exceptions import ParseError
    from xdsl.utils.lexer import Input
    from xdsl.utils.mlir_lexer import MLIRLexer, MLIRTokenKind
    text = text_of(case)
    lx = MLIRLexer(Input(text, "<c07>"))
    items = []
    try:
        with time_limit(limit):
            while True:
                t = lx.lex()
                v = []
                if t.kind is MLIRTokenKind.INTEGER_LIT:
                    v = [t.kind.get_int_value(t.span)]
                elif t.kind is MLIRTokenKind.FLOAT_LIT:
                    t.kind.get_float_value(t.span)
                    v = [[]]
                items.append([KIND_CODE[t.kind.name], t.span.start, t.span.end, v])
                if t.kind is MLIRTokenKind.EOF:
                    return [items, [0]]
    except _Timeout:
        return [items, [-9]]
    except ParseError as e:
        return [items, [1, e.span.start, e.span.end]]
    except Exception as e:
        return [items, [exc_code(e)]]


def lex_holds(case, res):
    code = res[1][0]
    if code in INTERNAL_CODES:
        return False, f"lexing + literal conversion escaped with internal error code {code} after {len(res[0])} tokens"
    return True, ""


def lex_known(case, res):
    return open_id(_lex_known(case, res))


def _lex_known(case, res):
    """which recorded defect explains an internal error of the lexer + conversion"""
    text = text_of(case)
    toks = res[0]
    pos = toks[-1][2] if toks else 0
    rest = text[pos:].lstrip(" \t\n\r\x0b\x0c")
    while rest.startswith("//"):
        nl = rest.find("\n")
        rest = "" if nl < 0 else rest[nl + 1:].lstrip(" \t\n\r\x0b\x0c")
    if res[1][0] != 3 or not rest:
        return None
    c = rest[0]
    if c.isnumeric() and not c.isdecimal():
        return "C07-kf-2"      # the literal being converted starts with a numeric, non-decimal character
    if c.isdecimal() and 1 + len(re.match(r"[0-9]*", rest[1:]).group(0)) > 4300:
        return "C07-kf-5"      # more than 4300 digits
    return None


def lex_nontrivial(case, res):
    kinds = {t[0] for t in res[0]}
    tags = []
    if res[1][0] != 0:
        tags.append(("end", res[1][0]))
    for k, nm in ((7, "float"), (8, "int"), (9, "str"), (10, "bytes"), (2, "at"), (14, "ellipsis"), (30, "meta")):
        if k in kinds:
            tags.append(nm)
    if any(c > 127 for c in case["cps"]):
        tags.append("nonascii")
    if not tags:
        return None
    return (tuple(tags), hashlib.sha1(bytes(str(case["cps"]), "ascii")).hexdigest()[:10])


# ---- regex vs re -------------------------------------------------------------------------------
RX_ORDER = ["r_ws", "r_bare", "r_bare_suffix", "r_suffix_id", "r_string", "r_hex", "r_digits", "r_frac", "r_name",
            "r_name_suffix", "r_pinned_string", "r_proposed_string"]


def rx_impl(case):
    e = _STATE["regs"][RX_ORDER[case["rx"]]][0]
    pat = _STATE.setdefault("compiled", {}).get(case["rx"])
    if pat is None:
        pat = _STATE["compiled"][case["rx"]] = re.compile(e.pattern, re.ASCII if e.ascii else 0)
    m = pat.match(text_of(case))
    return [m.end() if m else -1]


# ---- name hints --------------------------------------------------------------------------------
def extract_impl(case):
    from xdsl.ir import Block
    try:
        return [[ord(c) for c in Block.extract_valid_name(text_of(case))]]
    except ValueError:
        return []


# ---- labels ------------------------------------------------------------------------------------
def render_events(events) -> str:
    out = ['"test.op"() ({\n']
    for e in events:
        k, n = e[0], "".join(map(chr, e[1])) if len(e) > 1 else ""
        if k == "succ":
            out.append(f'"test.op"() [^{n}] : () -> ()\n')
        elif k == "def":
            out.append(f"^{n}:\n")
        elif k == "ssa":
            out.append(f'%{n} = "test.op"() : () -> i32\n')
        elif k == "open":
            out.append('"test.op"() ({\n')
        elif k == "close":
            out.append("}) : () -> ()\n")
    out.append("}) : () -> ()\n")
    return "".join(out)


def parse_code(text, limit=5.0, mode="module"):
    """mode: module -> parse_module, attr -> parse_attribute, type -> parse_type (plus end-of-input check)"""
    from xdsl.parser import Parser
    from xdsl.utils.exceptions import DiagnosticException, ParseError
    import resource
    c = new_context()
    soft, hard = resource.getrlimit(resource.RLIMIT_AS)
    try:
        # a literal such as dense<0.0> : tensor<9999999999xf64> must fail with MemoryError, not swap the machine
        with open("/proc/self/statm") as f:
            vm_now = int(f.read().split()[0]) * resource.getpagesize()
        resource.setrlimit(resource.RLIMIT_AS, (vm_now + (3 << 30), hard))
    except (ValueError, OSError):
        pass
    try:
        with time_limit(limit):
            p = Parser(c, text)
            if mode == "module":
                p.parse_module()
            elif mode == "attr":
                p.parse_attribute()
            else:
                p.parse_type()
        return 0, None
    except _Timeout:
        return -9, None
    except ParseError as e:
        return 1, e
    except DiagnosticException as e:
        return 2, e
    except BaseException as e:   # noqa: BLE001 -- the property is about exactly these
        return exc_code(e), e
    finally:
        try:
            resource.setrlimit(resource.RLIMIT_AS, (soft, hard))
        except (ValueError, OSError):
            pass


def labels_impl(case):
    return [parse_code(render_events(case["events"]))[0]]


def labels_coq(case):
    evs = ["EOpen"]
    for e in case["events"]:
        k = e[0]
        if k in ("open", "close"):
            evs.append("EOpen" if k == "open" else "EClose")
        else:
            evs.append({"succ": "ESucc", "def": "EDef", "ssa": "ESsa"}[k] + " " + coq_cps(e[1]))
    evs.append("EClose")
    return "c07_run [" + "; ".join(evs) + "]"


def labels_holds(case, res):
    if res[0] in INTERNAL_CODES or res[0] == -9:
        return False, f"Parser.parse_module escaped with internal error code {res[0]} on a region of labels/successors"
    return True, ""


def labels_known(case, res):
    return open_id(_labels_known(case, res))


def _labels_known(case, res):
    evs = case["events"]
    if res[0] == 3 and any(e[0] in ("succ", "def") and all(48 <= c <= 57 for c in e[1]) for e in evs):
        return "C07-kf-3"      # a purely numeric block name reaches the name-hint setter
    if res[0] == 4:
        names = [tuple(e[1]) for e in evs if e[0] == "def"]
        if len(names) != len(set(names)):
            return "C07-kf-4"  # a block label defined twice (after a forward reference)
    return None


def labels_nontrivial(case, res):
    kinds = {e[0] for e in case["events"]}
    if "succ" in kinds and "def" in kinds or "open" in kinds or res[0] != 0:
        return (res[0], tuple((e[0], tuple(e[1]) if len(e) > 1 else ()) for e in case["events"]))
    return None


def getblock_impl(case):
    from xdsl.parser import Parser
    p = Parser(new_context(), "^" + text_of(case))
    try:
        b = p._get_block_from_name(p._current_token.span)
        return [0, [[ord(c) for c in b.name_hint]] if b.name_hint is not None else []]
    except Exception as e:
        return [exc_code(e)]


# ---- end-to-end oracle --------------------------------------------------------------------------
SLACK = 10.0


def budget(n_chars: int) -> float:
    return 0.05 + 20e-6 * n_chars


def dialect_frames(e: BaseException) -> bool:
    import traceback
    return any(("/xdsl/dialects/" in f.filename and not f.filename.endswith("/xdsl/dialects/builtin.py"))
               or "/xdsl/irdl/" in f.filename or "/xdsl/interpreters/" in f.filename
               for f in traceback.extract_tb(e.__traceback__))


def confirm_slow(text: str, lim: float, mode: str = "module") -> int:
    """re-measure twice more; then require super-linear growth against the first half of the input"""
    best = None
    for _ in range(2):
        t = clock()
        code, _e = parse_code(text, lim, mode)
        el = clock() - t
        best = el if best is None else min(best, el)
        if code != -9 and el <= SLACK * budget(len(text)):
            return 0
    half = text[:len(text) // 2]
    t = clock()
    parse_code(half, lim, mode)
    th = clock() - t
    return 1 if best > 3.0 * max(th, 0.002) else 0


def oracle_impl(case):
    text = case["text"]
    lim = max(0.75, SLACK * budget(len(text)))
    t = clock()
    mode = case.get("mode", "module")
    code, e = parse_code(text, lim, mode)
    el = clock() - t
    origin = 0
    if e is not None and code not in (1, 2, 8, 9, 11, 12, 13):
        origin = 2 if dialect_frames(e) else 1
    slow = 0
    if code == -9 or el > SLACK * budget(len(text)):
        slow = confirm_slow(text, lim, mode)
    return [code, origin, slow]


def oracle_holds(case, res):
    code, origin, slow = res
    if slow:
        return False, (f"parse_module did not finish within {SLACK:g} x (50 ms + 20 us/char) for {len(case['text'])} "
                       f"chars (3 measurements) and the time more than tripled from the first half of the input")
    if code in INTERNAL_CODES:
        return False, f"parse_module escaped with a non-diagnostic exception (code {code}, origin {origin})"
    return True, ""


def kf1_plain_run(text: str, start: int):
    """number of plain string characters after the quote at `start` if the literal is NOT properly closed"""
    i, n = start + 1, 0
    while i < len(text):
        c = text[i]
        if c == '"':
            return None
        if c in "\n\x0b\x0c":
            return n
        if c == "\\":
            nxt = text[i + 1:i + 3]
            if nxt[:1] in ('"', "n", "t", "\\") and nxt[:1]:
                i += 2
                continue
            if len(nxt) == 2 and all(x in "0123456789abcdefABCDEF" for x in nxt):
                i += 3
                continue
            return n
        n += 1
        i += 1
    return n


def open_id(kid):
    """a class only suppresses while its finding is open (not marked fixed in known_findings*.json)"""
    return kid if kid is not None and kid in _STATE.get("open_ids", ()) else None


def oracle_known(case, res):
    return open_id(_oracle_known(case, res))


def _oracle_known(case, res):
    import traceback
    from xdsl.utils import mlir_lexer
    code, origin, slow = res
    text = case["text"]
    if slow:
        # where was the lexer when it ran away?  (harness-side instrumentation of _lex_string_literal)
        starts = []
        orig = mlir_lexer.MLIRLexer._lex_string_literal

        def spy(self, start_pos):
            starts.append(start_pos)
            return orig(self, start_pos)
        mlir_lexer.MLIRLexer._lex_string_literal = spy
        try:
            c, _ = parse_code(text, 1.0, case.get("mode", "module"))
        finally:
            mlir_lexer.MLIRLexer._lex_string_literal = orig
        if _STATE["regs"]["r_string"][0].pattern == PINNED_STRING:
            for st in starts:
                run = kf1_plain_run(text, st) if text[st:st + 1] == '"' else None
                if run is not None and run >= 18:
                    return "C07-kf-1"   # an unterminated / ill-escaped string literal with >= 18 plain characters
        return None
    _c, e = parse_code(text, 5.0, case.get("mode", "module"))
    if e is None:
        return None
    fr = [f for f in traceback.extract_tb(e.__traceback__) if "/xdsl/" in f.filename]
    inner = fr[-1].name if fr else ""
    names = [f.name for f in fr]
    msg = str(e)
    if isinstance(e, RecursionError):
        depth = best = 0
        for ch in text:
            if ch in "([{<":
                depth += 1
                best = max(best, depth)
            elif ch in ")]}>":
                depth = max(0, depth - 1)
        return "C07-kf-8" if best >= 100 else None
    if isinstance(e, ValueError) and msg.startswith("Exceeds the limit (4300"):
        # in builtin.py: the out-of-range diagnostic of a huge (hexadecimal) integer cannot be formatted
        return "C07-kf-14" if fr and fr[-1].filename.endswith("/xdsl/dialects/builtin.py") else "C07-kf-5"
    if origin == 2:
        return "C07-kf-9"
    in_builtin = bool(fr) and fr[-1].filename.endswith("/xdsl/dialects/builtin.py")
    if isinstance(e, OverflowError) and inner == "parse_optional_builtin_int_or_float_attr":
        return "C07-kf-10"     # hexadecimal bit pattern wider than (or negative for) the float type
    if isinstance(e, AssertionError) and inner == "_consume_token" and "_parse_optional_complex" in names:
        return "C07-kf-11"     # malformed complex element (a, b) of a dense literal
    if isinstance(e, (OverflowError, MemoryError)) and inner == "parse_dense_int_or_fp_elements_attr":
        return "C07-kf-12"     # splat dense literal over an astronomically large shape
    if in_builtin and "parse_dense_int_or_fp_elements_attr" in names and inner in ("get_normalized_value", "pack") and \
            (isinstance(e, ValueError) and "out of range" in msg or type(e).__name__ == "error"):
        return "C07-kf-13"     # dense element out of range for its element type
    if isinstance(e, UnicodeDecodeError) and inner == "string_contents" and "parse_optional_symbol_name" in names:
        return "C07-kf-6"
    if isinstance(e, ValueError) and inner in ("get_int_value", "get_float_value") and \
            (msg.startswith("invalid literal for int()") or msg.startswith("could not convert string to float")):
        lit = msg.rsplit(": ", 1)[-1].strip("'")
        if lit and lit[0].isnumeric() and not lit[0].isdecimal():
            return "C07-kf-2"
    if isinstance(e, ValueError) and inner == "extract_valid_name" and "Invalid Block name format" in msg:
        m = re.search(r"format `([^`]*)`", msg)
        if m and m.group(1).isascii() and m.group(1).isdigit():
            return "C07-kf-3"
    if isinstance(e, KeyError) and inner == "_parse_block":
        return "C07-kf-4"
    if isinstance(e, ValueError) and msg.startswith("zip() argument") and inner == "new" and \
            "_parse_dialect_type_or_attribute_body" in names:
        return "C07-kf-7"
    return None


def oracle_nontrivial(case, res):
    return (case.get("mode", "module"), res[0], res[1], res[2], hashlib.sha1(case["text"].encode("utf-8", "surrogatepass")).hexdigest()[:10]) \
        if res[0] != 0 or case.get("kind") != "corpus" else None


def run_oracle(ctx: Ctx, name: str, cases: list):
    """a family with no model: implementation + statement-level oracle only"""
    t = time.time()
    warm_up()
    ev = common.eval_cases(cases, oracle_impl, oracle_holds, oracle_known, oracle_nontrivial,
                           parallel=False)   # forked workers pay copy-on-write and cold caches: timings unusable
    ctx.evaluations += len(cases)
    fails, known_hits, hist = [], {}, {}
    for c, (r, ok, why, kid, nt) in zip(cases, ev):
        if nt is not None:
            ctx.nontrivial.add((name, nt))
        key = {0: "parsed", 1: "ParseError", 2: "VerifyException", -9: "timeout"}.get(r[0], f"exception-code-{r[0]}")
        hist[key] = hist.get(key, 0) + 1
        if not ok:
            if kid:
                known_hits[kid] = known_hits.get(kid, 0) + 1
            else:
                fails.append((c, r, why))
    for kid in known_hits:
        kf = next((e for e in ctx.known_findings if e.get("id") == kid), None)
        ctx.known(kid, kf["what"] if kf else "see known_findings.d/C07.json")
    for c, e in list(zip(cases, ev))[:2]:
        ctx.sample({"family": name, "case": {"text": c["text"][:200]}, "impl": e[0]})
    fam = common._report(ctx, name, len(cases), fails, [], known_hits, None, False, t)
    fam["outcomes"] = hist
    return fam


# ---- adversarial timing on the real lexer -------------------------------------------------------
def lex_time(text: str, limit: float) -> float:
    """seconds the real MLIRLexer needs to tokenise `text` (wall clock, best of 3 -- the CPU clock of this
    machine is too coarse for millisecond runs; `limit` CPU seconds if it does not finish)"""
    from xdsl.utils.exceptions import ParseError
    from xdsl.utils.lexer import Input
    from xdsl.utils.mlir_lexer import MLIRLexer, MLIRTokenKind
    best = None
    for _ in range(3):
        lx = MLIRLexer(Input(text, "<c07>"))
        t = time.perf_counter()
        try:
            with time_limit(limit):
                while lx.lex().kind is not MLIRTokenKind.EOF:
                    pass
        except _Timeout:
            return limit
        except ParseError:
            pass
        el = time.perf_counter() - t
        best = el if best is None else min(best, el)
    return best


def pump(ctx: Ctx):
    regs, info = _STATE["regs"], _STATE["current_info"]
    out = {}
    for name in info["failing_obligations"]:
        node = regs[name][1]
        pre, x = pump_family(name, node)
        times = []
        for n in range(12, 32, 2):
            t = lex_time("".join(map(chr, pre + [x] * n)), 3.0)
            times.append([n, round(t, 5)])
            if t >= 1.0:
                break
        ns = [4, 6, 8, 10, 12]
        steps = [v for v in ctx.coq_eval(REQ, [f"c07_rx_steps {RX_ORDER.index(name)} {coq_cps(pre[len(pre) - len(R.leading_literals(node, _uni)):] + [x] * n)}" for n in ns])]
        big = [(n, t) for n, t in times if t > 0.004]
        ratios = [b[1] / a[1] for a, b in zip(big, big[1:])]
        superlinear = len(ratios) >= 2 and all(r > 2.5 for r in ratios[-2:]) and times[-1][1] >= 0.2
        model_ratios = [b / a for a, b in zip(steps, steps[1:])]
        out[name] = {"pattern": regs[name][0].pattern, "family": f"{''.join(map(chr, pre))!r} + {chr(x)!r}*n",
                     "real_lexer_seconds": times, "model_steps": list(zip(ns, steps)),
                     "real_time_ratios_per_2_chars": [round(r, 2) for r in ratios],
                     "model_step_ratios_per_2_chars": [round(r, 2) for r in model_ratios],
                     "superlinear_on_real_lexer": superlinear,
                     "ordinal_agreement": superlinear == all(r > 2.5 for r in model_ratios[-2:])}
        if superlinear and name == "r_string" and regs[name][0].pattern == PINNED_STRING:
            kf = next((e for e in ctx.known_findings if e.get("id") == "C07-kf-1"), None)
            ctx.known("C07-kf-1", kf["what"] if kf else "unterminated string literal takes exponential time")
        elif superlinear:
            ctx.violation({"family": "pump", "regex": name, "pattern": regs[name][0].pattern,
                           "case": {"text": "".join(map(chr, pre + [x] * times[-1][0]))},
                           "oracle": "the regex left the analysable class (cost_bound = None) and the real lexer's time "
                                     "on the pumped family grows super-linearly", "timings": times})
        else:
            ctx.broken.append({"obligation": f"cost_bound {name} = Some _ no longer holds",
                               "pattern": regs[name][0].pattern, "pumped_family_timings": times})
    # regexes the analyser accepts: the real lexer must indeed be linear on the model's worst-case shapes
    lin = {}
    shapes = {"string-unterminated": '"' + "a", "whitespace-then-char": " ", "comment": "//" + "a",
              "digits": "1", "identifier": "a", "string-escapes": '"' + "\\n"}
    if not info["failing_obligations"]:
        for nm, shp in shapes.items():
            head, unit = shp[:-1] if len(shp) > 1 and nm not in ("string-escapes",) else "", shp[-1]
            if nm == "string-escapes":
                head, unit = '"', "\\n"
            if nm == "comment":
                head, unit = "//", "a"
            ts = []
            for k in (12, 14, 16, 18):
                text = head + unit * (2 ** k) + ("x" if nm == "whitespace-then-char" else "")
                ts.append(lex_time(text, 20.0))
            # linear = 4x the input costs about 4x the time; flagged only if the last two steps both cost more than
            # 8x on durations long enough to measure (robust against clock granularity and scheduling noise)
            ok = ts[-1] < 20.0 and not (ts[-1] > 0.1 and ts[-3] > 0.002 and ts[-1] > 8 * ts[-2] and ts[-2] > 8 * ts[-3])
            lin[nm] = {"seconds": [round(t, 5) for t in ts], "linear": ok}
            if not ok:
                ctx.violation({"family": "pump-linear", "shape": nm, "case": {"text": f"{head!r} + {unit!r} * 2**18"},
                               "oracle": "all regex obligations hold in the model but the real lexer is not linear on "
                                         "this family", "seconds": ts})
    ctx.coverage["adversarial_timing"] = {"failing_obligations": out, "accepted_regexes_linearity": lin}


def diff(ctx: Ctx, spec: DiffSpec):
    """common.differential, with one retry of the in-Coq evaluation (a loaded machine occasionally kills a shard)"""
    t = time.time()
    ev = common.eval_cases(spec.cases, spec.impl, spec.holds, spec.known, spec.nontrivial, parallel=False)
    ctx.evaluations += len(spec.cases)
    fails, diverge, known_hits = [], [], {}
    for c, (r, ok, why, kid, nt) in zip(spec.cases, ev):
        if nt is not None:
            ctx.nontrivial.add((spec.name, nt))
        if not ok:
            if kid:
                known_hits[kid] = known_hits.get(kid, 0) + 1
            else:
                fails.append((c, r, why))
    for c, e in list(zip(spec.cases, ev))[:2]:
        ctx.sample({"family": spec.name, "case": c, "impl": e[0]})
    model_err = None
    exprs = [spec.coq_expr(c) for c in spec.cases]
    for attempt in (1, 2):
        try:
            model_res = ctx.coq_eval(spec.requires, exprs, shard=spec.shard, prelude=spec.prelude)
            model_err = None
            for c, e, m in zip(spec.cases, ev, model_res):
                if e[0] != m:
                    diverge.append((c, e[0], m))
            break
        except ModelUnavailable as e:
            model_err = str(e)
    fam = common._report(ctx, spec.name, len(spec.cases), fails, diverge, known_hits, model_err, spec.exhaustive, t)
    kinds = {}
    for c in spec.cases:
        kinds[c.get("fam", spec.name)] = kinds.get(c.get("fam", spec.name), 0) + 1
    fam["sub_families"] = kinds
    return fam


def has_bad_string(text: str, n: int) -> bool:
    """some quote starts an unterminated / ill-escaped literal with at least n plain characters"""
    i = text.find('"')
    while i >= 0:
        run = kf1_plain_run(text, i)
        if run is not None and run >= n:
            return True
        i = text.find('"', i + 1)
    return False


# ---- the check -----------------------------------------------------------------------------------
LABEL_NAMES = ["a", "b", "bb0", "bb1", "42", "0", "x_1", "-", "$", "a.b", "bb", "bb1x", "a_1_2", "_", "A9"]
EXTRACT_NAMES = ["a", "a_1", "a_1_2", "a__1", "_1", "_", "1", "42", "a-b", "$x", ".", "a b", "", "aé", "x²", "é", "a_١",
                 "a_", "a_1b", "A_00", "-", "a\n", "a_1\n", "_1_", "x_12_345", "bb0", "%a", "a%"]


def gen_events(rng, depth=0, maxlen=7):
    evs = []
    for _ in range(rng.randint(1, maxlen)):
        r = rng.random()
        n = [ord(c) for c in rng.choice(LABEL_NAMES[:6] if rng.random() < 0.7 else LABEL_NAMES)]
        if r < 0.3:
            evs.append(["succ", n])
        elif r < 0.6:
            evs.append(["def", n])
        elif r < 0.75:
            evs.append(["ssa", n])
        elif depth < 2:
            evs.append(["open"])
            evs += gen_events(rng, depth + 1, 4)
            evs.append(["close"])
    return evs


def run(ctx: Ctx):
    thorough = ctx.tier == "thorough"
    rng = ctx.rng
    if "status" not in _STATE:
        ctx.broken.append({"translator": "status of the current source could not be computed"})
        return
    check_current(ctx)
    info = _STATE["current_info"]
    ctx.coverage["current_source"] = {
        "cost_bound": {n: {"ok": bool(o), "k": k, "prompt": bool(p)} for n, (o, k, p) in zip(COST_REGEXES, _STATE["status"][0])},
        "K": _STATE["status"][2], "full_theorems": info["theorems"],
        "refuted_theorems": [r[0] for r in info["refuted"]], "code_switches": _STATE["sw"]}
    ctx.coverage["refuted_theorems"] = ["C07_lex_linear_refuted", "C07_lex_total_refuted", "C07_labels_refuted"] + \
        [r[0] + "_refuted_current" for r in info["refuted"]]
    for nm in info["unrefuted"]:
        ctx.broken.append({"obligation": f"{nm}: rx_ok cur_cfg fails and no refuting family was found by the generator"})

    _STATE["open_ids"] = {e["id"] for e in ctx.known_findings}
    # 1. committed witnesses first
    warm_up()
    replay_findings(ctx, "parse", oracle_impl, oracle_holds)

    # 2. kernel functions: translated regexes (model matcher) vs CPython re; name hints; _get_block_from_name
    alpha = 'ab09_$.-"\\ \n\t/xeE+Afé²\x0b\x0c#%٣'
    cases = []
    for i in range(len(RX_ORDER)):
        for _ in range(120 if thorough else 30):
            s_ = "".join(rng.choice(alpha) for _ in range(rng.randint(0, 9)))
            if RX_ORDER[i].endswith("string") and rng.random() < 0.7:
                s_ = '"' + s_
            cases.append({"fam": "regex-vs-re", "rx": i, "cps": [ord(c) for c in s_]})
    names = list(EXTRACT_NAMES)
    for _ in range(600 if thorough else 120):
        names.append("".join(rng.choice("ab_19$.-é² \n") for _ in range(rng.randint(0, 7))))
    cases += [{"fam": "extract-valid-name", "cps": [ord(c) for c in n]} for n in names]
    cases += [{"fam": "get-block-from-name", "cps": [ord(c) for c in n]}
              for n in LABEL_NAMES + ["x_12", "9", "bb", "bb12", "a-1", "$_3"]]
    K_IMPL = {"regex-vs-re": rx_impl, "extract-valid-name": extract_impl, "get-block-from-name": getblock_impl}
    K_COQ = {"regex-vs-re": lambda c: f"c07_rx_end {c['rx']} {coq_cps(c['cps'])}",
             "extract-valid-name": lambda c: f"c07_extract {coq_cps(c['cps'])}",
             "get-block-from-name": lambda c: f"c07_getblock {coq_cps(c['cps'])}"}

    def k_holds(c, r):
        if c["fam"] == "get-block-from-name" and r[0] in INTERNAL_CODES:
            return False, "Parser._get_block_from_name raised an internal error"
        return True, ""
    diff(ctx, DiffSpec("kernel-functions", REQ, cases, lambda c: K_IMPL[c["fam"]](c), lambda c: K_COQ[c["fam"]](c),
                       k_holds, None, lambda c, r: (c["fam"], c.get("rx"), tuple(c["cps"]), bool(r) and r[0] != -1),
                       shard=400))

    # 3. lexer correspondence
    chunks = corpus_chunks()
    ctx.coverage["corpus"] = {"mlir_files": _STATE["n_files"], "chunks": len(chunks)}
    texts = []
    cap = 1200 if thorough else 350
    for _ in range(300 if thorough else 50):
        lines = rng.choice(chunks).split("\n")
        i = rng.randrange(len(lines))
        win = ""
        while i < len(lines) and len(win) + len(lines[i]) < cap:      # whole lines: string literals stay closed
            win += lines[i] + "\n"
            i += 1
        texts.append(("lexer-corpus", win or lines[i][:cap]))
    for _ in range(1500 if thorough else 220):
        lines = code_lines(rng.choice(chunks)).split("\n")
        i = rng.randrange(len(lines))
        win, lim = "", rng.randint(20, 200)
        while i < len(lines) and len(win) + len(lines[i]) < lim:
            win += lines[i] + "\n"
            i += 1
        texts.append(("lexer-mutations", mutate(rng, win or lines[min(i, len(lines) - 1)][:lim], rng.randint(1, 3))))
    for _ in range(800 if thorough else 150):
        texts.append(("lexer-soup", soup(rng, rng.randint(1, 25))))
    fixed = ['²', '"test.op"() {a = ²} : () -> ()', '٣٤', '٣.5', '².5', '0x', '0xg', '0x1G', '0X1', '1.e+', '1.e+5x', '..', '...', '....',
             '@', '@"', '@"a', '@"a"', '@"\\ff"', '@x', '{-# #-}', '#-}', '#-', '{-', '-', '->', '"', '""', '"\\"', '"\\q"', '"\\0"',
             '"\\00"', '"\\ff"', '"\\7f"', '"é"', '"\\c3\\a9"', '"\\e2\\82\\ac"', '"\\c3"', '"é\\a9"', '"\\ed\\a0\\80"',
             '"\\c0\\80"', '"\\f0\\9f\\98\\80"', '"\\f4\\90\\80\\80"', '"\\e0\\80\\80"', '"a\\c3\\a9b\\n"', '"\\c3é"', '"a\nb"', '"a\x0bb"', '%', '%1', '%a-b', '^', '^42', '!', '#', '#a<"x">',
             '// c', '// c\n', '//\n//\n x', ' \t\r\n\x0b\x0c x', '\x85x', '\xa0x', ' x', '_a.b$c', 'é', 'aé', '½', '〇',
             '1' * 40, '0x' + 'f' * 40, '1.5e-10', '1e5', '"' + 'a' * 10, '"a\\nb' + 'c' * 6, "'", '\x00', '~']
    texts += [("lexer-fixed", t) for t in fixed + ['"test.op"() {a = ' + '1' * 4301 + '} : () -> ()', '7' * 4300,
                                                   '0' * 4302 + ' x']]
    cases, skipped = [], 0
    for fam, t in texts:
        t = no_surrogates(t)
        if has_bad_string(t, 12):
            skipped += 1        # the exponential family: timed separately (pump), not replayed inside Coq
            continue
        cases.append({"fam": fam, "cps": [ord(ch) for ch in t]})
    ctx.coverage["lexer_cases_skipped_exponential_string"] = skipped
    diff(ctx, DiffSpec("lexer", REQ, cases, lex_impl, lambda c: f"c07_lex {coq_cps(c['cps'])}",
                       lex_holds, lex_known, lex_nontrivial, shard=60 if thorough else 40))

    # 4. labels / SSA names through the real parser
    cases = [{"events": e} for e in (
        [["def", [52, 50]]], [["succ", [97]], ["def", [97]], ["def", [97]]], [["succ", [97]], ["def", [97]]],
        [["def", [97]], ["def", [97]]], [["succ", [97]]], [["succ", [52, 50]]], [["succ", [98, 98, 48]], ["def", [98, 98, 48]]],
        [["ssa", [97]], ["ssa", [97]]], [["ssa", [52, 50]], ["ssa", [45]]],
        [["succ", [97]], ["open"], ["def", [97]], ["close"], ["def", [97]]],
        [["open"], ["succ", [97]], ["close"]], [["ssa", [97]], ["open"], ["ssa", [97]], ["close"]],
        [["open"], ["ssa", [97]], ["close"], ["ssa", [97]]])]
    for _ in range(2000 if thorough else 300):
        cases.append({"events": gen_events(rng)})
    diff(ctx, DiffSpec("labels", REQ, cases, labels_impl, labels_coq, labels_holds, labels_known,
                       labels_nontrivial, shard=400))

    # 6. end-to-end oracle: the whole parser on corpus chunks, mutations and token soups (no model)
    ocases = []
    for _ in range(800 if thorough else 60):
        ocases.append({"kind": "corpus", "text": rng.choice(chunks)})
    for _ in range(8000 if thorough else 260):
        ch = code_lines(rng.choice(chunks))
        ocases.append({"kind": "mutation",
                       "text": no_surrogates(mutate(rng, ch[:rng.choice([200, 600, 2000, 100000])], rng.randint(1, 3)))})
    for _ in range(2000 if thorough else 110):
        ocases.append({"kind": "soup", "text": no_surrogates(soup(rng, rng.randint(1, 30)))})
    for t in fixed:
        ocases.append({"kind": "fixed", "text": '"test.op"() {a = ' + t + '} : () -> ()'})
    run_oracle(ctx, "parse-module-oracle", ocases)

    # 6b. literal-interior mutations: single-character edits inside string literals and numeric tokens of boundary
    #     attribute / type texts (parse_attribute, parse_type) and of literal-bearing corpus lines (parse_module)
    run_oracle(ctx, "literal-interior-oracle",
               literal_cases(rng, chunks, 6000 if thorough else 420, 3000 if thorough else 140))

    # 7. adversarial timing of the real lexer on the model's worst-case families
    pump(ctx)

    ctx.coverage["rule"] = (
        "lexer families: windows of the 596-file .mlir corpus (split on // -----), 1-3 mutations (insert / delete / replace / "
        "duplicate with grammar tokens and non-ASCII characters) of corpus windows, token soups, and a fixed list of boundary "
        "inputs; compared: every token (kind, span, literal value) and the terminating exception + span.  labels: random "
        "balanced event sequences over 15 names rendered as generic-format regions.  oracle: corpus chunks, mutations, soups "
        "parsed by Parser.parse_module with all dialects under a length-scaled time budget.  Non-trivial = the case reaches an "
        "error token, a literal conversion, a string/bytes literal, a non-ASCII character, a forward block reference, a nested "
        "region or any exception; distinct = distinct input.")
    ctx.coverage["exhaustive"] = False
    ctx.coverage["not_covered"] = ("totality of the whole recursive-descent parser (dialect custom syntax, attribute and affine "
                                  "parsers) is exercised by the oracle only (testing), not proved")


def replay_case(ctx: Ctx, witness: dict) -> int:
    """./check C07 --replay file: re-run the recorded input on the implementation (and on the model where the
    family has one) and print both results and the oracle verdict"""
    fam, case = witness.get("family"), witness.get("case")
    if fam is None or case is None:
        print("nothing to re-run: the replay file names the obligation / correspondence that no longer checks")
        return 0
    generate(ctx)
    if fam in ("parse-module-oracle", "parse", "pump", "pump-linear"):
        r = oracle_impl(case)
        ok, why = oracle_holds(case, r)
        print(f"implementation: [code, origin, slow] = {r}\noracle: {'holds' if ok else 'FAILS: ' + why}")
        if not ok:
            print("known finding:", oracle_known(case, r))
        return 0 if ok else 1
    table = {"lexer": (lex_impl, lambda c: f"c07_lex {coq_cps(c['cps'])}", lex_holds),
             "labels": (labels_impl, labels_coq, labels_holds)}
    if fam == "kernel-functions":
        impl = {"regex-vs-re": rx_impl, "extract-valid-name": extract_impl, "get-block-from-name": getblock_impl}[case["fam"]]
        coq = {"regex-vs-re": lambda c: f"c07_rx_end {c['rx']} {coq_cps(c['cps'])}",
               "extract-valid-name": lambda c: f"c07_extract {coq_cps(c['cps'])}",
               "get-block-from-name": lambda c: f"c07_getblock {coq_cps(c['cps'])}"}[case["fam"]]
        holds = lambda c, r: (True, "")
    elif fam in table:
        impl, coq, holds = table[fam]
    else:
        print(f"unknown family {fam}")
        return 0
    r = common.to_jsonable(impl(case))
    m = ctx.coq_eval(REQ, [coq(case)])[0]
    ok, why = holds(case, r)
    print(f"implementation: {r}\nmodel:          {m}\nagree: {r == m}\noracle: {'holds' if ok else 'FAILS: ' + why}")
    return 0 if ok and r == m else 1
