"""C14 -- Canonicalization, constant folding and CSE preserve program results.

Three kernels proved in Coq (coq/Props/C14.v) and tied to /repo on every run:
 (a) integer folds: coq/Gen/C14_Arith.v is REGENERATED from the working tree by
     harness/translate/c14_tr.py (py_operation / is_right_unit / is_right_zero of every
     SignlessIntegerBinaryOperation subclass found by a class walk, IntegerType.normalized_value,
     IntegerAttr.__init__, SignlessIntegerBinaryOperation.fold, the integer / select / cmpi
     canonicalization patterns) and the proofs are re-checked against it; the generated definitions are
     also run next to the real functions / real patterns on boundary operands of i1..i64 and index;
 (b) float folds: _fold_const_operation + FloatAttr packing on boundary f64 / f32 bit patterns vs the
     PrimFloat model; (c) CSE: the real `cse` on generated nested programs of test/scf ops vs the model.
 Whole passes (canonicalize, constant-fold-interp, cse, test-constant-folding,
 test-specialised-constant-folding) run on generated func/arith/scf/cf programs; the oracle is an
 independent reference evaluator of MLIR semantics on bit patterns (harness/props/c14_ref.py: exact
 rational float arithmetic, poison/UB runs excluded) applied to the program before and after the pass on
 boundary + random inputs; a pass that raises on a valid program fails the last sentence of the property.
Non-trivial: the pass changed the program (or the folder/pattern fired); distinct = distinct case.
"""
from __future__ import annotations

import itertools
import struct
import traceback

from harness.common import (COQ, Ctx, DiffSpec, Untranslatable, coq_bool, coq_list, coq_nat, coq_nats, coq_Z,
                            differential, exc_code, replay_findings)
from harness.props import c14_ref as ref

META = {
    "id": "C14",
    "title": "Canonicalization, constant folding and CSE preserve program results",
    "design_ref": "DESIGN.md section 8.C14",
    "technique": "Coq proofs over a translator-generated model of the integer folders (all widths), a PrimFloat model of "
                 "the float folder and a nested-region model of CSE + model-vs-code correspondence + independent "
                 "reference evaluator of MLIR semantics on whole passes",
    "level_text": (
        "Theorems in coq/Props/C14.v. (a) For EVERY width w >= 1 and all integers: the constant folded by "
        "py_operation/IntegerAttr(truncate_bits) is the bit-exact two's-complement result, every right/left unit and "
        "right zero test is a law of the MLIR operation (undefined division/shift cases excluded), the folder "
        "SignlessIntegerBinaryOperation.fold and the patterns ...ZeroOrUnitRight, ...ConstantProp, Select*, "
        "ApplyCmpiPredicateToEqualOperands replace a result only by an equal value; these are statements about "
        "definitions regenerated from the working tree on every run. (b) The float folder equals IEEE-754 binary64 "
        "bit for bit for ALL operands (signed zeros, infinities, NaN; after fix 3d73fc5); binary32 folds never raise "
        "(after fix 667d764) and are the correctly rounded result under the named double-rounding hypothesis. "
        "(c) The CSE model (OperationInfo key, KnownOps scoping, read-only ops with write barrier, nested "
        "single-block regions, deferred erasure) preserves the values and final memory of every SSA-well-formed "
        "program under any semantics respecting the declared memory-effect traits. Leave-in-place: the models of "
        "constant-fold-interp (after af5e19c) and test-constant-folding (after 20a3e4d) never raise and fold only to "
        "the MLIR result; the refutations of the code before the fixes are kept as *_old theorems. Still refuted "
        "(known findings): constant-fold-interp folds cmpi with unsigned predicates on the signed stored values "
        "(interpreter defect, C15), test-specialised-constant-folding aborts on non-constant operands."),
    "level_note": (
        "Trusted: Coq kernel; stdlib PrimFloat/SpecFloat axioms (FloatAxioms) for (b); the translator c14_tr.py "
        "(cross-checked against the real functions on every run); hand-written models of constant-fold-interp / "
        "test passes / CSE (correspondence-checked); named hypotheses: binary32 double rounding (f32 only), "
        "soundness of Region.is_structurally_equivalent (property C03) and the meaning of the memory-effect traits "
        "(CSE); SelectFoldCmpfPattern is hand-modelled (C14/SelCmpf.v, sound for non-NaN operands up to the sign of a "
        "zero = the nnan/nsz contract) and correspondence-checked. Not covered: canonicalization patterns of dialects "
        "other than arith/scf/cf; FoldConstsByReassociation (fastmath reassoc); vector/tensor constants; scf/cf patterns are covered by the "
        "whole-pass oracle only (no Coq model); CSE on ops with alloc/free effects and symbol ops."),
}
COQ_TARGETS = ["C14/Enc.vo", "C14/ProofsInt.vo", "C14/ProofsFloat.vo", "C14/ProofsCSE.vo", "C14/SelCmpf.vo",
               "Props/C14.vo"]
REQ = ["C14.Pre", "Gen.C14_Arith", "C14.ModelInt", "C14.ModelFloat", "C14.ModelCSE", "C14.SelCmpf", "C14.Enc"]
ASSUMPTIONS = [
    "programs are verified SSA (each value defined once, uses dominated by definitions)",
    "integer constants are scalar IntegerAttr of the operand type (no vector/tensor splats)",
    "runs that execute an operation whose MLIR result is poison/undefined are excluded from the comparison",
    "NaN payloads and the sign of NaN are not compared",
]
TRUSTED = [
    "Coq stdlib primitive-float specification (FloatAxioms: Prim2SF_inj, div_spec, eqb_spec, ltb_spec, ...) for the float theorems",
    "named Section hypothesis double_rounding_innocuous (binary64->binary32 double rounding of + - * /), f32 theorem only",
    "record sem_ok (meaning of Pure/Read/RecursiveMemoryEffect traits, extensionality, soundness of is_structurally_equivalent) is a premise of the CSE theorems",
    "harness/translate/c14_tr.py (python ast -> Gallina), cross-checked on every run against the functions it translates",
]

# ============================================================================ translator step


def generate(ctx: Ctx):
    from harness.translate import c14_tr
    info = c14_tr.write(COQ / "Gen" / "C14_Arith.v")
    ctx.coverage["translator"] = {"output": "coq/Gen/C14_Arith.v", "classes": info["classes"],
                                  "patterns": info["patterns"], "functions": len(info["functions"]),
                                  "interp_impls": info["interp_impls"]}


# ============================================================================ xDSL plumbing

_CTX = None


def xctx():
    global _CTX
    if _CTX is None:
        from xdsl.context import Context
        from xdsl.dialects import arith, builtin, cf, func, scf, test
        c = Context()
        for d in (builtin.Builtin, arith.Arith, func.Func, scf.Scf, cf.Cf, test.Test):
            c.load_dialect(d)
        _CTX = c
    return _CTX


def parse_module(text: str):
    from xdsl.parser import Parser
    m = Parser(xctx(), text).parse_module()
    m.verify()
    return m


def pass_by_name(name: str):
    from xdsl.transforms import get_all_passes
    return get_all_passes()[name]()()      # registry entry -> pass class -> instance


PASSES = ["canonicalize", "constant-fold-interp", "cse", "test-constant-folding", "test-specialised-constant-folding"]

WIDTHS = {"i1": 1, "i8": 8, "i16": 16, "i32": 32, "i64": 64, "index": 64}
INT_TYPES = list(WIDTHS)


def xty(t: str):
    from xdsl.dialects.builtin import IndexType, IntegerType
    return IndexType() if t == "index" else IntegerType(WIDTHS[t])


def coq_ty(t: str) -> str:
    return "TIndex" if t == "index" else f"(TInt {WIDTHS[t]})"


def stored(t: str, v: int) -> int:
    """stored value.data of `arith.constant v : t` (signed representative for iN, raw for index)"""
    if t == "index":
        return v
    w = WIDTHS[t]
    v %= 1 << w
    return v - (1 << w) if v >> (w - 1) else v


def boundary(t: str) -> list[int]:
    """boundary literals valid for the type (signless range for iN)"""
    w = WIDTHS[t]
    if t == "i1":
        return [0, 1, -1]
    vals = {0, 1, -1, 2, -2, 3, (1 << (w - 1)) - 1, -(1 << (w - 1)), (1 << (w - 1)), (1 << w) - 1, (1 << w) - 2,
            w, w - 1, w + 1, -(1 << (w - 1)) + 1}
    for k in (1, 2, 3, w // 2, w - 2):
        if 0 < k < w:
            vals |= {(1 << k) - 1, (1 << k) + 1, 1 << k, -(1 << k)}
    lo, hi = -(1 << (w - 1)), 1 << w
    out = sorted(v for v in vals if lo <= v < hi)
    if t == "index":
        out += [1 << 64, (1 << 64) + 1]      # index attributes are not range-checked
    return out


def rand_lit(rng, t: str) -> int:
    w = WIDTHS[t]
    r = rng.random()
    if r < 0.55:
        return rng.choice(boundary(t))
    if r < 0.8:
        return rng.randint(-8, 8) if w > 4 else rng.choice([0, 1, -1])
    return rng.randrange(-(1 << (w - 1)), 1 << w)


def opt_Z(v):
    return "None" if v is None else f"(Some {coq_Z(v)})"


def binop_classes():
    """concrete subclasses of SignlessIntegerBinaryOperation, by a class walk (name -> class)"""
    import inspect
    from xdsl.dialects import arith

    def subs(c):
        out = []
        for s in c.__subclasses__():
            out.append(s)
            out += subs(s)
        return out
    return {c.__name__: c for c in subs(arith.SignlessIntegerBinaryOperation)
            if not inspect.isabstract(c) and "name" in c.__dict__}


# ============================================================================ family: translated functions

def gen_impl(case):
    from xdsl.dialects.builtin import IntegerAttr
    cls = binop_classes()[case["cls"]]
    t, a, b = case["ty"], case["a"], case["b"]
    ty = xty(t)
    py = cls.py_operation(a, b)
    aa = IntegerAttr(a, ty, truncate_bits=True)
    ab = IntegerAttr(b, ty, truncate_bits=True)
    # is_right_unit / is_right_zero are asked about the attribute holding stored value a (a is canonical here)
    return [[] if py is None else [py], int(bool(cls.is_right_unit(aa))), int(bool(cls.is_right_zero(aa))),
            aa.value.data, ab.value.data]


def gen_coq(case):
    return f"c14_gen_case {case['cls']} {coq_ty(case['ty'])} {coq_Z(case['a'])} {coq_Z(case['b'])}"


def gen_holds(case, res):
    t, a, b = case["ty"], case["a"], case["b"]
    name = binop_classes()[case["cls"]].name.split(".")[1]
    for w in ([32, 64] if t == "index" else [WIDTHS[t]]):
        M = 1 << w
        if res[0]:
            try:
                exp = ref.int_binop(name, a % M, b % M, w)
            except ref.Excluded:
                exp = None
            if exp is not None and exp is not ref.POISON and res[0][0] % M != exp:
                return False, f"py_operation({a},{b}) = {res[0][0]} but {name} on i{w} bit patterns gives {exp}"
        if res[3] % M != a % M or (t != "index" and not -(M >> 1) <= res[3] < (M >> 1)):
            return False, f"IntegerAttr({a}, {t}, truncate_bits=True) stores {res[3]}"
        sa = res[3]
        for x in [0, 1, M - 1, M >> 1, (M >> 1) - 1, 5 % M, 2 % M]:
            try:
                r = ref.int_binop(name, x, sa % M, w)
            except ref.Excluded:
                continue
            if r is ref.POISON:
                continue
            if res[1] and r != x:
                return False, f"is_right_unit({sa}:{t}) but {name}({x}, {sa % M}) = {r} on i{w}"
            if res[2] and r != sa % M:
                return False, f"is_right_zero({sa}:{t}) but {name}({x}, {sa % M}) = {r} on i{w}"
    return True, ""


def norm_impl(case):
    from xdsl.dialects.builtin import IntegerType
    from xdsl.utils import comparisons as cmp
    w, v = case["w"], case["v"]
    ty = IntegerType(w)
    enc = lambda x: [] if x is None else [x]
    return [enc(ty.normalized_value(v)), enc(ty.normalized_value(v, truncate_bits=True)),
            cmp.unsigned_upper_bound(w), cmp.signed_lower_bound(w), cmp.signed_upper_bound(w)]


def norm_holds(case, res):
    w, v = case["w"], case["v"]
    M = 1 << w
    inr = -(M >> 1) <= v < M
    if bool(res[0]) != inr:
        return False, f"normalized_value({v}) on i{w}: in signless range = {inr} but result {res[0]}"
    t = res[1][0]
    if t % M != v % M or not -(M >> 1) <= t < (M >> 1):
        return False, f"normalized_value({v}, truncate_bits=True) on i{w} = {t}"
    return True, ""


# ============================================================================ family: folder + integer patterns

KIND_CONST, KIND_ARG = "c", "a"


def build_binop(case):
    """func with one binary op; operands are constants or (distinct) block arguments"""
    from xdsl.dialects import arith, func
    from xdsl.dialects.builtin import IntegerAttr, ModuleOp
    from xdsl.ir import Block, Region
    cls = binop_classes()[case["cls"]]
    ty = xty(case["ty"])
    blk = Block(arg_types=[ty, ty])
    vals, consts = [], []
    for i, (k, v) in enumerate((case["l"], case["r"])):
        if k == KIND_CONST:
            c = arith.ConstantOp(IntegerAttr(v, ty))
            blk.add_op(c)
            consts.append(c)
            vals.append(c.result)
        else:
            vals.append(blk.args[i])
    op = cls(vals[0], vals[1])
    blk.add_op(op)
    ret = func.ReturnOp(op.result)
    blk.add_op(ret)
    f = func.FuncOp("f", ((ty, ty), (ty,)), Region(blk))
    m = ModuleOp([f])
    m.verify()
    return m, op, ret, vals, consts


def classify(ret, op, vals, consts, cond=None):
    """what the value returned by the function is after the rewrite -> outcome code of coq/C14/Enc.v"""
    from xdsl.dialects import arith
    v = ret.operands[0]
    if v is op.results[0] and op.parent is not None:
        return 0
    if cond is not None and v is cond:
        return 3
    if v is vals[0]:
        return 1
    if v is vals[1]:
        return 2
    o = v.owner
    if isinstance(o, arith.ConstantOp) and o not in consts:
        return [4, o.value.value.data]
    if type(o) is type(op) and not isinstance(o, arith.SelectOp) and list(o.operands) == [vals[1], vals[0]]:
        return 5
    if isinstance(o, arith.XOrIOp) and cond is not None and list(o.operands) == [cond, vals[1]]:
        return 6
    return [8, 0]


def fold_impl(case):
    from xdsl.folder import Folder
    from xdsl.pattern_rewriter import PatternRewriter
    from xdsl.transforms.canonicalization_patterns import arith as pats
    outs = []
    # 1. the folder, as GreedyRewritePatternApplier(folding_enabled=True) uses it
    m, op, ret, vals, consts = build_binop(case)
    try:
        r = Folder(xctx()).try_fold(op)
        if r is None:
            outs.append(0)
        else:
            values, new_ops = r
            v = values[0]
            outs.append(1 if v is vals[0] else 2 if v is vals[1] else [4, new_ops[0].value.value.data])
    except Exception as e:
        outs.append([-1, exc_code(e)])
    for P in (pats.SignlessIntegerBinaryOperationZeroOrUnitRight, pats.SignlessIntegerBinaryOperationConstantProp):
        m, op, ret, vals, consts = build_binop(case)
        try:
            P().match_and_rewrite(op, PatternRewriter(op))
            m.verify()
            outs.append(classify(ret, op, vals, consts))
        except Exception as e:
            outs.append([-1, exc_code(e)])
    return outs


def operand_c(case, side):
    k, v = case[side]
    return stored(case["ty"], v) if k == KIND_CONST else None


def fold_coq(case):
    return (f"c14_fold_case {case['cls']} {coq_ty(case['ty'])} {opt_Z(operand_c(case, 'l'))} "
            f"{opt_Z(operand_c(case, 'r'))}")


def sample_patterns(rng, t, n=6):
    w = WIDTHS[t]
    M = 1 << w
    base = [0, 1 % M, M - 1, M >> 1, (M >> 1) - 1 if w > 1 else 0, 2 % M, 7 % M]
    return list(dict.fromkeys(base + [rng.randrange(M) for _ in range(n)]))


def outcome_value(out, x, y, w, c=None):
    M = 1 << w
    if out == 1:
        return x
    if out == 2:
        return y
    if out == 3:
        return c
    if isinstance(out, list) and out[0] == 4:
        return out[1] % M
    return None


def fold_holds(case, res):
    import random
    rng = random.Random(repr(case))
    t = case["ty"]
    name = binop_classes()[case["cls"]].name.split(".")[1]
    for w in ([32, 64] if t == "index" else [WIDTHS[t]]):
        M = 1 << w
        xs = [case["l"][1] % M] if case["l"][0] == KIND_CONST else sample_patterns(rng, "i32" if w == 32 else t)
        ys = [case["r"][1] % M] if case["r"][0] == KIND_CONST else sample_patterns(rng, "i32" if w == 32 else t)
        for which, out in zip(("fold", "ZeroOrUnitRight", "ConstantProp"), res):
            if isinstance(out, list) and out[0] == -1:
                return False, f"{which} raised exception code {out[1]} instead of leaving the op in place"
            if out == 0:
                continue
            for x in xs:
                for y in ys:
                    try:
                        exp = ref.int_binop(name, x % M, y % M, w)
                    except ref.Excluded:
                        continue
                    if exp is ref.POISON:
                        continue
                    if out == 5:
                        got = ref.int_binop(name, y % M, x % M, w)
                    else:
                        got = outcome_value(out, x % M, y % M, w)
                    if got != exp:
                        return False, (f"{which} rewrote {name}({x % M}, {y % M}) : i{w} (= {exp}) into outcome {out} "
                                       f"with value {got}")
    return True, ""


def fold_nontrivial(case, res):
    return (case["cls"], case["ty"], tuple(case["l"]), tuple(case["r"])) if any(r != 0 for r in res) else None


# ---- select / cmpi patterns

def build_select(case):
    from xdsl.dialects import arith, func
    from xdsl.dialects.builtin import IntegerAttr, IntegerType, ModuleOp
    from xdsl.ir import Block, Region
    ty = xty(case["ty"])
    i1 = IntegerType(1)
    blk = Block(arg_types=[i1, ty, ty])
    consts = []

    def mk(kv, i, t):
        k, v = kv
        if k == KIND_CONST:
            c = arith.ConstantOp(IntegerAttr(v, t))
            blk.add_op(c)
            consts.append(c)
            return c.result
        return blk.args[i]
    cond = mk(case["c"], 0, i1)
    lhs = mk(case["l"], 1, ty)
    rhs = lhs if case["same"] else mk(case["r"], 2, ty)
    op = arith.SelectOp(cond, lhs, rhs)
    blk.add_op(op)
    ret = func.ReturnOp(op.result)
    blk.add_op(ret)
    f = func.FuncOp("f", ((i1, ty, ty), (ty,)), Region(blk))
    m = ModuleOp([f])
    m.verify()
    return m, op, ret, [lhs, rhs], consts, cond


def select_impl(case):
    from xdsl.pattern_rewriter import PatternRewriter
    from xdsl.transforms.canonicalization_patterns import arith as pats
    outs = []
    for P in (pats.SelectConstPattern, pats.SelectTrueFalsePattern, pats.SelectSamePattern):
        m, op, ret, vals, consts, cond = build_select(case)
        try:
            P().match_and_rewrite(op, PatternRewriter(op))
            m.verify()
            c = classify(ret, op, vals, consts, cond)
            if case["same"] and c == 2:
                c = 1
            outs.append(c)
        except Exception as e:
            outs.append([-1, exc_code(e)])
    return outs


def select_coq(case):
    cv = stored("i1", case["c"][1]) if case["c"][0] == KIND_CONST else None
    lv = operand_c(case, "l")
    rv = lv if case["same"] else operand_c(case, "r")
    return f"c14_select_case {coq_ty(case['ty'])} {opt_Z(cv)} {opt_Z(lv)} {opt_Z(rv)} {coq_bool(case['same'])}"


def select_holds(case, res):
    import random
    rng = random.Random(repr(case))
    t = case["ty"]
    w = WIDTHS[t]
    M = 1 << w
    cs = [case["c"][1] % 2] if case["c"][0] == KIND_CONST else [0, 1]
    xs = [case["l"][1] % M] if case["l"][0] == KIND_CONST else sample_patterns(rng, t, 3)
    ys = [case["r"][1] % M] if case["r"][0] == KIND_CONST else sample_patterns(rng, t, 3)
    for which, out in zip(("SelectConst", "SelectTrueFalse", "SelectSame"), res):
        if isinstance(out, list) and out[0] == -1:
            return False, f"{which} raised exception code {out[1]}"
        if out == 0:
            continue
        for c in cs:
            for x in xs:
                for y in ([x] if case["same"] else ys):
                    exp = x if c else y
                    got = (c ^ y) if out == 6 else outcome_value(out, x, y, w, c)
                    if got != exp:
                        return False, f"{which}: select({c}, {x}, {y}) : {t} = {exp} rewritten to outcome {out} = {got}"
    return True, ""


def cmpi_impl(case):
    from xdsl.dialects import arith, func
    from xdsl.dialects.builtin import IntegerType, ModuleOp
    from xdsl.ir import Block, Region
    from xdsl.pattern_rewriter import PatternRewriter
    from xdsl.transforms.canonicalization_patterns import arith as pats
    ty = xty(case["ty"])
    blk = Block(arg_types=[ty, ty])
    op = arith.CmpiOp(blk.args[0], blk.args[0] if case["same"] else blk.args[1], case["pred"])
    blk.add_op(op)
    ret = func.ReturnOp(op.result)
    blk.add_op(ret)
    m = ModuleOp([func.FuncOp("f", ((ty, ty), (IntegerType(1),)), Region(blk))])
    m.verify()
    try:
        pats.ApplyCmpiPredicateToEqualOperands().match_and_rewrite(op, PatternRewriter(op))
        m.verify()
        return classify(ret, op, list(blk.args), [])
    except Exception as e:
        return [-1, exc_code(e)]


def cmpi_holds(case, res):
    if isinstance(res, list) and res[0] == -1:
        return False, f"ApplyCmpiPredicateToEqualOperands raised exception code {res[1]}"
    if res == 0:
        return True, ""
    w = WIDTHS[case["ty"]]
    for x in sample_patterns(__import__("random").Random(1), case["ty"], 3):
        exp = int(ref.int_cmp(case["pred"], x, x, w))
        if not (isinstance(res, list) and res[0] == 4 and res[1] % 2 == exp):
            return False, f"cmpi pred {case['pred']} on equal operands {x} is {exp}, rewritten to {res}"
    return True, ""


# ============================================================================ family: float folder

F64_BOUNDARY = [0x0, 0x8000000000000000, 0x7FF0000000000000, 0xFFF0000000000000, 0x7FF8000000000000,
                0x1, 0x8000000000000001, 0x000FFFFFFFFFFFFF, 0x0010000000000000, 0x7FEFFFFFFFFFFFFF,
                0xFFEFFFFFFFFFFFFF, 0x3FF0000000000000, 0xBFF0000000000000, 0x3FF0000000000001,
                0x4000000000000000, 0x4008000000000000, 0x3FE0000000000000, 0x7FE0000000000000,
                0x0020000000000000, 0x4340000000000000, 0x3CB0000000000000]
F32_BOUNDARY = [0x0, 0x80000000, 0x7F800000, 0xFF800000, 0x7FC00000, 0x1, 0x80000001, 0x007FFFFF, 0x00800000,
                0x7F7FFFFF, 0xFF7FFFFF, 0x3F800000, 0xBF800000, 0x3F800001, 0x40000000, 0x40400000, 0x3F000000,
                0x7F000000, 0x4B800000, 0x4B800001, 0x33800000, 0x00FFFFFF, 0x01000000, 0x3FC00000]
FOPS = ["addf", "subf", "mulf", "divf"]
COQ_FOP = {"addf": "FAdd", "subf": "FSub", "mulf": "FMul", "divf": "FDiv"}


def f_of_bits(fmt, b):
    return struct.unpack("<d", struct.pack("<Q", b))[0] if fmt == "f64" else struct.unpack("<f", struct.pack("<I", b))[0]


def bits_of_attr(fmt, attr):
    v = attr.value.data
    return struct.unpack("<Q", struct.pack("<d", v))[0] if fmt == "f64" else struct.unpack("<I", struct.pack("<f", v))[0]


def canon_nan(fmt, b):
    return ref.fp_nan(fmt) if ref.fp_isnan(b, fmt) else b


def float_impl(case):
    from xdsl.dialects import arith
    from xdsl.dialects.builtin import Float32Type, Float64Type, FloatAttr
    from xdsl.transforms.canonicalization_patterns.arith import _fold_const_operation
    fmt = case["fmt"]
    ty = Float64Type() if fmt == "f64" else Float32Type()
    cls = {"addf": arith.AddfOp, "subf": arith.SubfOp, "mulf": arith.MulfOp, "divf": arith.DivfOp}[case["op"]]
    l, r = FloatAttr(f_of_bits(fmt, case["a"]), ty), FloatAttr(f_of_bits(fmt, case["b"]), ty)
    try:
        c = _fold_const_operation(cls, l, r)
    except Exception as e:
        return [-1, exc_code(e)] if fmt == "f64" else []
    if c is None:
        return [-2, 0]
    b = canon_nan(fmt, bits_of_attr(fmt, c.value))
    return b if fmt == "f64" else [b]


def float_coq(case):
    f = "c14_f64_case" if case["fmt"] == "f64" else "c14_f32_case"
    return f"{f} {COQ_FOP[case['op']]} {coq_Z(case['a'])} {coq_Z(case['b'])}"


def float_holds(case, res):
    fmt = case["fmt"]
    exp = ref.fp_arith(case["op"][:-1], case["a"], case["b"], fmt)
    got = res if fmt == "f64" else (res[0] if res else None)
    if got is None or (isinstance(res, list) and fmt == "f64"):
        return False, (f"folding {case['op']} {hex(case['a'])}, {hex(case['b'])} : {fmt} raised instead of producing "
                       f"{hex(exp)}")
    if got != exp:
        return False, f"{case['op']} {hex(case['a'])}, {hex(case['b'])} : {fmt} folds to {hex(got)}, IEEE-754 gives {hex(exp)}"
    return True, ""


def float_known(case, res):
    # C14-kf-1 (divf by a constant zero) and C14-kf-5 (f32 overflow) are FIXED (commits 3d73fc5, 667d764):
    # no failure of the float folder is expected any more, so nothing is suppressed
    return None


def float_nontrivial(case, res):
    return (case["fmt"], case["op"], case["a"], case["b"])


def dr_cases_coq(case):
    return f"c14_dr_case {COQ_FOP[case['op']]} {coq_Z(case['a'])} {coq_Z(case['b'])}"


# ============================================================================ family: constant-fold-interp, single op

def safe_shift(case):
    """the interpreter computes `lhs << rhs` on unbounded ints: never ask it for more than a few thousand bits"""
    return not (case.get("cls") in ("ShLIOp", "ShRSIOp") and case["b"] > 4096)


def cfi_impl(case):
    from xdsl.dialects import arith, func
    from xdsl.dialects.builtin import IntegerAttr, IntegerType, ModuleOp
    from xdsl.ir import Block, Region
    from xdsl.transforms.constant_fold_interp import ConstantFoldInterpPass
    ty = xty(case["ty"])
    blk = Block()
    ca, cb = arith.ConstantOp(IntegerAttr(case["a"], ty)), arith.ConstantOp(IntegerAttr(case["b"], ty))
    if case["kind"] == "cmpi":
        op = arith.CmpiOp(ca, cb, case["pred"])
        rty = IntegerType(1)
    else:
        op = binop_classes()[case["cls"]](ca, cb)
        rty = ty
    for o in (ca, cb, op):
        blk.add_op(o)
    ret = func.ReturnOp(op.results[0])
    blk.add_op(ret)
    m = ModuleOp([func.FuncOp("f", ((), (rty,)), Region(blk))])
    m.verify()
    try:
        ConstantFoldInterpPass().apply(xctx(), m)
        m.verify()
    except Exception as e:
        return [-1, exc_code(e)]
    d = ret.operands[0].owner
    if isinstance(d, arith.ConstantOp) and d is not ca and d is not cb:
        return [1, int(d.value.value.data)]
    return 0


def cfi_coq(case):
    a, b = stored(case["ty"], case["a"]), stored(case["ty"], case["b"])
    if case["kind"] == "cmpi":
        return f"c14_cfi_cmpi_case {case['pred']} {coq_ty(case['ty'])} {coq_Z(a)} {coq_Z(b)}"
    return f"c14_cfi_case {case['cls']} {coq_ty(case['ty'])} {coq_Z(a)} {coq_Z(b)}"


def cfi_holds(case, res):
    t = case["ty"]
    w = WIDTHS[t]
    M = 1 << w
    a, b = case["a"] % M, case["b"] % M
    what = (f"cmpi pred {case['pred']}" if case["kind"] == "cmpi" else
            binop_classes()[case["cls"]].name) + f" {case['a']}, {case['b']} : {t}"
    if isinstance(res, list) and res[0] == -1:
        return False, f"constant-fold-interp raised (exception code {res[1]}) on {what} instead of leaving it in place"
    if res == 0:
        return True, ""
    try:
        if case["kind"] == "cmpi":
            exp, got = int(ref.int_cmp(case["pred"], a, b, w)), res[1] % 2
        else:
            exp, got = ref.int_binop(binop_classes()[case["cls"]].name.split(".")[1], a, b, w), res[1] % M
    except ref.Excluded:
        return True, ""
    if exp is ref.POISON or exp == got:
        return True, ""
    return False, f"constant-fold-interp folds {what} to {res[1]} (bits {got}), MLIR semantics give {exp}"


def cfi_known(case, res):
    # C14-kf-2 / C14-kf-3 (the pass aborting) are FIXED (commit af5e19c): a raise is never suppressed.
    # Still open: the interpreter compares cmpi operands as signed Python ints (C15) -> C14-kf-4
    t = case["ty"]
    w = WIDTHS[t]
    a, b = stored(t, case["a"]), stored(t, case["b"])
    if case["kind"] == "cmpi" and isinstance(res, list) and res[0] == 1:
        canon = all(-(1 << (w - 1)) <= x < (1 << (w - 1)) for x in (a, b))
        # after e4f2eb2 only the UNSIGNED predicates still compare the raw stored ints: wrong when the operands
        # differ in sign, or (index only) when a constant lies outside the signed 64-bit range
        if case["pred"] >= 6 and ((a < 0) != (b < 0) or not canon):
            return "C14-kf-4"
    return None


def cfi_nontrivial(case, res):
    return (case.get("cls", case.get("pred")), case["ty"], case["a"], case["b"]) if res != 0 else None


# ============================================================================ family: test constant-folding passes

def tcf_build(case, toplevel):
    """arith.addi whose operands are constants ("c", v), block arguments ("a",) or results of another op ("o",)"""
    from xdsl.dialects import arith, func, test
    from xdsl.dialects.builtin import IntegerAttr, ModuleOp
    from xdsl.ir import Block, Region
    ty = xty(case["ty"])
    blk = Block(arg_types=[] if toplevel else [ty, ty])
    vals = []
    for i, k in enumerate((case["l"], case["r"])):
        if k[0] == "c":
            c = arith.ConstantOp(IntegerAttr(k[1], ty))
            blk.add_op(c)
            vals.append(c.result)
        elif k[0] == "a":
            vals.append(blk.args[i])
        else:
            o = test.TestOp(result_types=[ty])
            blk.add_op(o)
            vals.append(o.results[0])
    op = arith.AddiOp(vals[0], vals[1])
    blk.add_op(op)
    if toplevel:
        user = test.TestOp(operands=[op.result])
        blk.add_op(user)
        m = ModuleOp(Region(blk))
    else:
        user = func.ReturnOp(op.result)
        blk.add_op(user)
        m = ModuleOp([func.FuncOp("f", ((ty, ty), (ty,)), Region(blk))])
    m.verify()
    return m, op, user


def tcf_impl(case):
    from xdsl.dialects import arith
    from xdsl.transforms.test_constant_folding import TestConstantFoldingPass, TestSpecialisedConstantFoldingPass
    spec = case["pass"] == "tscf"
    m, op, user = tcf_build(case, toplevel=spec)
    try:
        (TestSpecialisedConstantFoldingPass if spec else TestConstantFoldingPass)().apply(xctx(), m)
    except Exception as e:
        r = [-1, exc_code(e)]
        return [r, 1] if spec else r
    try:
        m.verify()
    except Exception as e:
        r = [-1, exc_code(e)]
        return [r, 1] if spec else r
    d = user.operands[0].owner
    r = [1, int(d.value.value.data)] if isinstance(d, arith.ConstantOp) else 0
    ok = 1
    if spec and r != 0:
        # the specialised pass builds the attribute with object.__setattr__: Operation.verify does not
        # re-check the value range, so ask the attribute itself (informational: the bit pattern is what counts)
        try:
            d.value.verify()
        except Exception:
            ok = 0
    return [r, ok] if spec else r


def coq_operand(case, side):
    k = case[side]
    return f"(OConst {coq_Z(stored(case['ty'], k[1]))})" if k[0] == "c" else ("OArg" if k[0] == "a" else "OOp")


def tcf_coq(case):
    f = "c14_tscf_case" if case["pass"] == "tscf" else "c14_tcf_case"
    return f"{f} {coq_ty(case['ty'])} {coq_operand(case, 'l')} {coq_operand(case, 'r')}"


def tcf_holds(case, res):
    spec = case["pass"] == "tscf"
    r, ok = (res if spec else (res, 1))
    name = "test-specialised-constant-folding" if spec else "test-constant-folding"
    if isinstance(r, list) and r[0] == -1:
        return False, f"{name} raised (exception code {r[1]}) instead of leaving arith.addi in place"
    if r == 0:
        return True, ""
    w = WIDTHS[case["ty"]]
    M = 1 << w
    exp = (case["l"][1] + case["r"][1]) % M
    if r[1] % M != exp:
        return False, f"{name} folded {case['l'][1]} + {case['r'][1]} : {case['ty']} to {r[1]}"
    return True, ""


def tcf_known(case, res):
    spec = case["pass"] == "tscf"
    r, ok = (res if spec else (res, 1))
    consts = case["l"][0] == "c" and case["r"][0] == "c"
    # test-constant-folding is FIXED (commit 20a3e4d: C14-kf-6, C14-kf-7): nothing is suppressed for it.
    # Still open: the hand-specialised benchmark variant aborts on a non-constant operand -> C14-kf-8
    if spec and isinstance(r, list) and r[0] == -1 and not consts and r[1] in (6, 10):
        return "C14-kf-8"
    return None


# ============================================================================ family: SelectFoldCmpfPattern

SC_FLAGS = {"none": "", "nnan": " fastmath<nnan>", "nsz": " fastmath<nsz>", "both": " fastmath<nnan,nsz>",
            "fast": " fastmath<fast>"}
CMPF_NAMES = ["false", "oeq", "ogt", "oge", "olt", "ole", "one", "ord", "ueq", "ugt", "uge", "ult", "ule", "une",
              "uno", "true"]


def selcmpf_text(case):
    """%s = select(cond, x, y) where cond is `cmpf pred, %a, %b <flags>` (or an i1 argument) and (x, y) is
    (a, b) ["same"], (b, a) ["swapped"] or (a, %z) ["other"]"""
    F = case["fmt"]
    x, y = {"same": ("%a", "%b"), "swapped": ("%b", "%a"), "other": ("%a", "%z")}[case["order"]]
    cond = "%k" if case["cond"] == "cmpf" else "%q"
    return (f"func.func @main(%a: {F}, %b: {F}, %z: {F}, %q: i1) -> {F} {{\n"
            f"  %k = arith.cmpf {CMPF_NAMES[case['pred']]}, %a, %b{SC_FLAGS[case['flags']]} : {F}\n"
            f"  %s = arith.select {cond}, {x}, {y} : {F}\n"
            f"  func.return %s : {F}\n}}")


def selcmpf_impl(case):
    from xdsl.dialects import arith
    from xdsl.pattern_rewriter import PatternRewriter
    from xdsl.transforms.canonicalization_patterns.arith import SelectFoldCmpfPattern
    m = parse_module(selcmpf_text(case))
    f = list(m.body.block.ops)[0]
    ops = list(f.body.block.ops)
    sel, ret = ops[1], ops[2]
    x, y = sel.lhs, sel.rhs
    try:
        SelectFoldCmpfPattern().match_and_rewrite(sel, PatternRewriter(sel))
        m.verify()
    except Exception as e:
        return [-1, exc_code(e)]
    d = ret.operands[0].owner
    if d is sel:
        return 0
    if isinstance(d, (arith.MaximumfOp, arith.MinimumfOp)) and list(d.operands) == [x, y]:
        return 1 if isinstance(d, arith.MaximumfOp) else 2
    return [8, 0]


def selcmpf_coq(case):
    fl = case["flags"]
    nnan, nsz = fl in ("nnan", "both", "fast"), fl in ("nsz", "both", "fast")
    return (f"c14_selcmpf_case {coq_bool(case['cond'] == 'cmpf')} {coq_bool(nnan)} {coq_bool(nsz)} "
            f"{coq_bool(case['order'] == 'same')} {case['pred']}")


def selcmpf_inputs(fmt, nnan):
    B = F64_BOUNDARY[:13] if fmt == "f64" else F32_BOUNDARY[:13]
    vals = [b for b in B if not (nnan and ref.fp_isnan(b, fmt))]
    return [(a, b) for a in vals for b in vals]


def selcmpf_holds(case, res):
    """the whole canonicalize pass on the program, before vs after, by the reference evaluator; with nnan the
    inputs are NaN-free, with nsz two zeros of different sign count as equal (the fastmath contract)"""
    if isinstance(res, list) and res[0] == -1:
        return False, f"SelectFoldCmpfPattern raised exception code {res[1]}"
    fmt = case["fmt"]
    fl = case["flags"]
    nnan, nsz = fl in ("nnan", "both", "fast"), fl in ("nsz", "both", "fast")
    m0 = parse_module(selcmpf_text(case))
    m1 = parse_module(selcmpf_text(case))
    try:
        pass_by_name("canonicalize").apply(xctx(), m1)
        m1.verify()
    except Exception as e:
        return False, f"canonicalize raised {type(e).__name__} on a select of a cmpf"
    if str(m1) == str(m0):
        return True, ""
    zero = lambda b: ref.fp_decode(b, fmt)[0] == "fin" and ref.fp_decode(b, fmt)[2] == 0
    zs = [F64_BOUNDARY[11] if fmt == "f64" else F32_BOUNDARY[11]]
    for a, b in selcmpf_inputs(fmt, nnan):
        for q in (0, 1):
            r0 = ref.run_func(m0, "main", [a, b, zs[0], q])[1][0]
            r1 = ref.run_func(m1, "main", [a, b, zs[0], q])[1][0]
            if r0 == r1 or (ref.fp_isnan(r0, fmt) and ref.fp_isnan(r1, fmt)) or (nsz and zero(r0) and zero(r1)):
                continue
            return False, (f"canonicalize changed select({CMPF_NAMES[case['pred']]}(a, b){SC_FLAGS[fl]}, {case['order']}) "
                           f"on a={hex(a)}, b={hex(b)}: {hex(r0)} -> {hex(r1)}")
    return True, ""


# ============================================================================ driver (harness/props/c14_run.py)

def run(ctx: Ctx):
    from harness.props import c14_run
    c14_run.run(ctx)


