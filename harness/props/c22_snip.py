"""C22 -- canonicalization kernel, implementation side: build a riscv SSA snippet from a case, run the REAL
`canonicalize` pass, dump the resulting op list in the case encoding.

Node = [id, rd, opc, a, b, imm]
  id   value id (free `arg` values and op results alike; stores get an id too, unused)
  rd   register type of the result: -1 unallocated, 0..31 hard register index (0 = zero), 100+N = j_N / fj_N
  opc  0 arg(a = 0 int / 1 float: result of a leading "test.op")      1 rv32.get_register (rd = 0: zero)
       2 rv32.li imm          3 mv (b = 0 riscv.mv, 1 riscv.fmv.s, 2 riscv.fmv.d)
       10.. add sub mul div and or xor sll srl sra slt sltu           30.. addi andi ori xori slti sltiu
       40.. rv32.slli srli srai bclri bexti binvi bseti rori          50 lw 51 flw 52 fld   60 sw 61 fsw 62 fsd
  a,b  operand ids (b = stored value for stores), imm the immediate / constant
A case is {"nodes": [...], "roots": [ids]}; the roots are the operands of a trailing "test.op" (observed values).
"""
from __future__ import annotations

from harness.common import exc_code

ARG, GETZ, LI, MV = 0, 1, 2, 3
BIN = {10: "AddOp", 11: "SubOp", 12: "MulOp", 13: "DivOp", 14: "AndOp", 15: "OrOp", 16: "XorOp", 17: "SllOp",
       18: "SrlOp", 19: "SraOp", 20: "SltOp", 21: "SltuOp",
       22: "DivuOp", 23: "RemOp", 24: "RemuOp"}      # 22..24: python-side only (arith lowering oracle), not in the Coq model
IMM = {30: "AddiOp", 31: "AndiOp", 32: "OriOp", 33: "XoriOp", 34: "SltiOp", 35: "SltiuOp"}
SHI = {40: "SlliOp", 41: "SrliOp", 42: "SraiOp", 43: "BclrIOp", 44: "BextIOp", 45: "BinvIOp", 46: "BsetIOp",
       47: "RorIOp"}
LOAD = {50: "LwOp", 51: "FLwOp", 52: "FLdOp"}
STORE = {60: "SwOp", 61: "FSwOp", 62: "FSdOp"}
MVK = {0: "MVOp", 1: "FMVOp", 2: "FMvDOp"}
FLOAT_RESULT = {51, 52}


def is_float_node(n):
    _, _, opc, a, b, _ = n
    return (opc == ARG and a == 1) or (opc == MV and b in (1, 2)) or opc in FLOAT_RESULT


def _regtype(code, is_float):
    from xdsl.dialects import riscv
    cls = riscv.FloatRegisterType if is_float else riscv.IntRegisterType
    if code < 0:
        return cls.unallocated()
    if code >= 100:
        return cls.infinite_register(code - 100)
    return cls.from_index(code)


def _regcode(t):
    from xdsl.dialects.builtin import IntAttr
    if not t.is_allocated:
        return -1
    assert isinstance(t.index, IntAttr)
    i = t.index.data
    return i if i >= 0 else 100 + (~i)


def build(case):
    """-> (module, list of arg nodes in order).  Raises whatever the constructors raise on invalid cases."""
    from xdsl.dialects import builtin, riscv, rv32, test
    from xdsl.ir import Block, Region
    nodes = case["nodes"]
    args = [n for n in nodes if n[2] == ARG]
    block = Block()
    head = test.TestOp(result_types=[_regtype(n[1], n[3] == 1) for n in args])
    block.add_op(head)
    val = {n[0]: r for n, r in zip(args, head.results)}
    for n in nodes:
        nid, rd, opc, a, b, imm = n
        if opc == ARG:
            continue
        rdt = _regtype(rd, is_float_node(n))
        if opc == GETZ:
            op = rv32.GetRegisterOp(rdt)
        elif opc == LI:
            op = rv32.LiOp(imm, rd=rdt)
        elif opc == MV:
            op = getattr(riscv, MVK[b])(val[a], rd=rdt)
        elif opc in BIN:
            op = getattr(riscv, BIN[opc])(val[a], val[b], rd=rdt)
        elif opc in IMM:
            op = getattr(riscv, IMM[opc])(val[a], imm, rd=rdt)
        elif opc in SHI:
            op = getattr(rv32, SHI[opc])(val[a], imm, rd=rdt)
        elif opc in LOAD:
            op = getattr(riscv, LOAD[opc])(val[a], imm, rd=rdt)
        elif opc in STORE:
            op = getattr(riscv, STORE[opc])(val[a], val[b], imm)
        else:
            raise ValueError(f"opcode {opc}")
        block.add_op(op)
        if op.results:
            val[nid] = op.results[0]
    block.add_op(test.TestOp(operands=[val[r] for r in case["roots"]]))
    return builtin.ModuleOp(Region(block)), args


_NAME2OPC = None


def _name2opc():
    global _NAME2OPC
    if _NAME2OPC is None:
        from xdsl.dialects import riscv, rv32
        t = {rv32.GetRegisterOp: GETZ, rv32.LiOp: LI}
        for k, nm in MVK.items():
            t[getattr(riscv, nm)] = (MV, k)
        for tab, mod in ((BIN, riscv), (IMM, riscv), (SHI, rv32), (LOAD, riscv), (STORE, riscv)):
            for k, nm in tab.items():
                t[getattr(mod, nm)] = k
        _NAME2OPC = t
    return _NAME2OPC


class Undumpable(Exception):
    pass


def dump(module, args):
    """Encode the op list of the (rewritten) module: arg ids are kept, op results are renumbered 100, 101, ...
    in block order."""
    from xdsl.dialects import test
    from xdsl.dialects.builtin import IntegerAttr
    ops = list(module.body.block.ops)
    head, tail = ops[0], ops[-1]
    if not isinstance(head, test.TestOp) or not isinstance(tail, test.TestOp):
        raise Undumpable("frame ops moved")
    ids = {}
    out = []
    for n, r in zip(args, head.results):
        ids[r] = n[0]
        out.append([n[0], _regcode(r.type), ARG, n[3], 0, 0])
    t = _name2opc()
    nxt = 100
    for op in ops[1:-1]:
        k = t.get(type(op))
        if k is None:
            raise Undumpable(op.name)
        b = 0
        if isinstance(k, tuple):
            k, b = k
        imm = 0
        if k in IMM or k in SHI or k in LOAD or k in STORE or k == LI:
            if not isinstance(op.immediate, IntegerAttr):
                raise Undumpable("label immediate")
            imm = op.immediate.value.data
        opnds = [ids[o] for o in op.operands]
        a = opnds[0] if opnds else 0
        if len(opnds) > 1:
            b = opnds[1]
        rd = _regcode(op.results[0].type) if op.results else -1
        if op.results:
            ids[op.results[0]] = nxt
        out.append([nxt, rd, k, a, b, imm])
        nxt += 1
    return out, [ids[o] for o in tail.operands]


PATTERNS = [
    "RemoveRedundantMv", "RemoveRedundantFMv", "RemoveRedundantFMvD", "MultiplyImmediates", "DivideByOneIdentity",
    "AddImmediates", "AddImmediateZero", "AddImmediateConstant", "SubImmediates", "SubBySelf", "SubAddi",
    "AndiImmediate", "AndiZero", "OriImmediate", "OriImmediateZero", "XoriZero", "XoriSelfInverse", "XoriOfXori",
    "XoriImmediate", "ShiftbyZero", "ShiftConstantFolding", "LoadWordWithKnownOffset", "StoreWordWithKnownOffset",
    "LoadFloatWordWithKnownOffset", "StoreFloatWordWithKnownOffset", "LoadDoubleWithKnownOffset",
    "StoreDoubleWithKnownOffset", "AdditionOfSameVariablesToMultiplyByTwo", "BitwiseAndByZero", "BitwiseAndBySelf",
    "BitwiseOrByZero", "BitwiseOrBySelf", "XorBySelf", "BitwiseXorByZero", "LoadImmediate0"]
NOT_MODELLED = ["FuseMultiplyAddD", "ScfgwOpUsingImmediate"]


def raising_pattern(e: BaseException) -> int:
    """index (in PATTERNS) of the innermost canonicalization pattern class on the traceback, -1 if none"""
    found = -1
    tb = e.__traceback__
    while tb is not None:
        slf = tb.tb_frame.f_locals.get("self")
        if slf is not None and type(slf).__module__ == "xdsl.transforms.canonicalization_patterns.riscv":
            nm = type(slf).__name__
            if nm in PATTERNS:
                found = PATTERNS.index(nm)
        tb = tb.tb_next
    return found


def _context():
    from xdsl.context import Context
    from xdsl.dialects import builtin, riscv, rv32, test
    ctx = Context()
    for d in (builtin.Builtin, riscv.RISCV, rv32.RV32, test.Test):
        ctx.load_dialect(d)
    return ctx


def canonicalize_case(case, pass_factory=None):
    """[0, nodes, roots] after the real pass, or [-1, exception code, raising pattern] if the pass raises."""
    from xdsl.transforms.canonicalize import CanonicalizePass
    try:
        module, args = build(case)
        module.verify()
    except BaseException as e:  # an invalid case (generator bug): visible as its own code
        return [-2, exc_code(e)]
    try:
        (pass_factory or CanonicalizePass)().apply(_context(), module)
        module.verify()
    except BaseException as e:
        return [-1, exc_code(e), raising_pattern(e)]
    nodes, roots = dump(module, args)
    return [0, nodes, roots]


def make_pattern(idx, mod=None):
    from xdsl.dialects import rv32
    if mod is None:
        from xdsl.transforms.canonicalization_patterns import riscv as mod
    cls = getattr(mod, PATTERNS[idx])
    if PATTERNS[idx] == "ShiftbyZero":
        return cls(rv32.RV32RdRsImmShiftOperation)
    if PATTERNS[idx] == "ShiftConstantFolding":
        return cls(rv32.LiOp, rv32.RV32RdRsImmShiftOperation)
    return cls()


def apply_pattern_case(case, mod=None):
    """ONE application of pattern class case["pat"] to the case["at"]-th non-arg op, no driver and no dce:
    [1] no match, [0, nodes, roots] rewritten, [-1, code, pattern] raised."""
    from xdsl.pattern_rewriter import PatternRewriter
    try:
        module, args = build(case)
        module.verify()
    except BaseException as e:
        return [-2, exc_code(e)]
    ops = list(module.body.block.ops)
    op = ops[1 + case["at"]]
    rw = PatternRewriter(op)
    try:
        make_pattern(case["pat"], mod).match_and_rewrite(op, rw)
        module.verify()
    except BaseException as e:
        return [-1, exc_code(e), raising_pattern(e)]
    if not rw.has_done_action:
        return [1]
    nodes, roots = dump(module, args)
    return [0, nodes, roots]
