"""C23 helpers: case -> xDSL llvm-dialect module (real API), the line-based parser of the emitted `.ll` text into the
instruction AST of coq/C23/Model.v (as the nested ints coq/C23/Enc.v prints), and the canonical renumbering.

Case format (JSON-able), one function `f`:
  {"blocks": [{"args": [[id, ty], ...], "body": [instr, ...], "term": term}, ...], "ret": ty | None}
  ty: w >= 1 = iw, 0 = ptr, -16/-32/-64 = half/float/double.  Entry-block arguments are the function parameters.
  instr: ["const", r, ty, bits]                      bits: unsigned pattern (ints) / IEEE bits of the type (floats)
         ["bin", r, cls, ovf|None, exact, disjoint, [fastmath...], ty, a, b]
         ["icmp", r, pred, ty, a, b]   ["fcmp", r, pred, ty, a, b]
         ["cast", r, cls, [ovf flags]|None, nneg, ty, a, ty2]
         ["select", r, ty, c, a, b]   ["alloca", r, ty, tn, n, align]   ["load", r, ty, p, align]
         ["store", ty, v, p, align]
  term:  ["ret", ty, v] | ["retvoid"] | ["br", d, [args]] | ["condbr", c, t, [targs], e, [eargs]] | ["unreachable"]
"""
from __future__ import annotations

import re
import struct

F32, F64, F16, PTR = -32, -64, -16, 0


def signed(u: int, w: int) -> int:
    u &= (1 << w) - 1
    return u - (1 << w) if u >> (w - 1) else u


def f32_to_double_bits(bits32: int) -> int:
    v = struct.unpack("<f", struct.pack("<I", bits32 & 0xFFFFFFFF))[0]
    return struct.unpack("<Q", struct.pack("<d", v))[0]


def const_text_value(ty: int, bits: int) -> int:
    """the integer the emitted text shows for a constant: signed value (ints), 64-bit hex of the double (floats)"""
    if ty >= 1:
        return signed(bits, ty)
    if ty == F32:
        return f32_to_double_bits(bits)
    return bits & 0xFFFFFFFFFFFFFFFF


# ------------------------------------------------------------------------------------------------
# case -> xDSL


def xty(t: int):
    from xdsl.dialects import llvm
    from xdsl.dialects.builtin import Float16Type, Float32Type, Float64Type, IntegerType
    if t >= 1:
        return IntegerType(t)
    if t == PTR:
        return llvm.LLVMPointerType()
    return {F16: Float16Type, F32: Float32Type, F64: Float64Type}[t]()


def uses_of(ins) -> list[int]:
    k = ins[0]
    if k == "const":
        return []
    if k == "bin":
        return [ins[8], ins[9]]
    if k in ("icmp", "fcmp"):
        return [ins[4], ins[5]]
    if k == "cast":
        return [ins[6]]
    if k == "select":
        return [ins[3], ins[4], ins[5]]
    if k == "alloca":
        return [ins[4]]
    if k == "load":
        return [ins[3]]
    if k == "store":
        return [ins[2], ins[3]]
    raise ValueError(k)


def def_of(ins):
    return None if ins[0] == "store" else ins[1]


def term_uses(t) -> list[int]:
    if t[0] == "ret":
        return [t[2]]
    if t[0] == "br":
        return list(t[2])
    if t[0] == "condbr":
        return [t[1]] + list(t[3]) + list(t[5])
    return []


def make_op(ins, V):
    from xdsl.dialects import llvm
    from xdsl.dialects.arith import FastMathFlag
    from xdsl.dialects.builtin import FloatAttr, IntegerAttr, UnitAttr, i64
    k = ins[0]
    if k == "const":
        _, r, t, bits = ins
        if t >= 1:
            return llvm.ConstantOp(IntegerAttr(bits, xty(t)), xty(t))
        if t == F32:
            v = struct.unpack("<f", struct.pack("<I", bits))[0]
        else:
            v = struct.unpack("<d", struct.pack("<Q", bits))[0]
        return llvm.ConstantOp(FloatAttr(v, xty(t)), xty(t))
    if k == "bin":
        _, r, cls, ovf, ex, dj, fm, t, a, b = ins
        C = getattr(llvm, cls)
        if issubclass(C, llvm.ArithmeticBinOpOverflow):
            return C(V[a], V[b], overflow=None if ovf is None else IntegerAttr(ovf, 32))
        if issubclass(C, llvm.ArithmeticBinOpExact):
            return C(V[a], V[b], is_exact=UnitAttr() if ex else None)
        if issubclass(C, llvm.ArithmeticBinOpDisjoint):
            return C(V[a], V[b], is_disjoint=UnitAttr() if dj else None)
        if issubclass(C, llvm.AbstractFloatArithOp):
            return C(V[a], V[b], fast_math=llvm.FastMathAttr(tuple(FastMathFlag(x) for x in fm)))
        return C(V[a], V[b])
    if k == "icmp":
        return llvm.ICmpOp(V[ins[4]], V[ins[5]], IntegerAttr(ins[2], i64))
    if k == "fcmp":
        return llvm.FCmpOp(V[ins[4]], V[ins[5]], IntegerAttr(ins[2], i64))
    if k == "cast":
        _, r, cls, ofl, nneg, t, a, t2 = ins
        C = getattr(llvm, cls)
        if cls == "TruncOp":
            if ofl is None:
                op = C(V[a], xty(t2))
                del op.properties["overflowFlags"]
                return op
            return C(V[a], xty(t2), overflow=llvm.OverflowAttr(tuple(llvm.OverflowFlag(x) for x in ofl)))
        if cls == "ZExtOp":
            return C(V[a], xty(t2), non_neg=UnitAttr() if nneg else None)
        return C(V[a], xty(t2))
    if k == "select":
        return llvm.SelectOp(V[ins[3]], V[ins[4]], V[ins[5]])
    if k == "alloca":
        return llvm.AllocaOp(V[ins[4]], xty(ins[2]), alignment=ins[5])
    if k == "load":
        return llvm.LoadOp(V[ins[3]], xty(ins[2]), alignment=ins[4] or None)
    if k == "store":
        return llvm.StoreOp(V[ins[2]], V[ins[3]], alignment=ins[4] or None)
    raise ValueError(k)


def op_result(op):
    return op.results[0] if op.results else None


def build(case):
    """-> ModuleOp with llvm.func @f.  Ops are created in dependency order (a use may textually precede its
    definition across blocks) and then placed in their blocks in body order."""
    from xdsl.dialects import llvm
    from xdsl.dialects.builtin import ModuleOp
    from xdsl.ir import Block, Region
    blocks = [Block(arg_types=[xty(t) for _, t in b["args"]]) for b in case["blocks"]]
    V = {}
    for bl, b in zip(blocks, case["blocks"]):
        for (i, _), a in zip(b["args"], bl.args):
            V[i] = a
    pending = [(bi, ii, ins) for bi, b in enumerate(case["blocks"]) for ii, ins in enumerate(b["body"])]
    made = {}
    while pending:
        rest = []
        for bi, ii, ins in pending:
            if all(u in V for u in uses_of(ins)):
                op = make_op(ins, V)
                made[(bi, ii)] = op
                d = def_of(ins)
                if d is not None:
                    V[d] = op_result(op)
            else:
                rest.append((bi, ii, ins))
        if len(rest) == len(pending):
            raise ValueError("use of an undefined value / cyclic definitions in the case")
        pending = rest
    for bi, b in enumerate(case["blocks"]):
        for ii in range(len(b["body"])):
            blocks[bi].add_op(made[(bi, ii)])
        t = b["term"]
        if t[0] == "ret":
            blocks[bi].add_op(llvm.ReturnOp(V[t[2]]))
        elif t[0] == "retvoid":
            blocks[bi].add_op(llvm.ReturnOp())
        elif t[0] == "br":
            blocks[bi].add_op(llvm.BrOp(blocks[t[1]], *[V[a] for a in t[2]]))
        elif t[0] == "condbr":
            blocks[bi].add_op(llvm.CondBrOp(V[t[1]], blocks[t[2]], [V[a] for a in t[3]], blocks[t[4]], [V[a] for a in t[5]]))
        elif t[0] == "unreachable":
            blocks[bi].add_op(llvm.UnreachableOp())
        else:
            raise ValueError(t[0])
    ret = case.get("ret")
    ft = llvm.LLVMFunctionType([xty(t) for _, t in case["blocks"][0]["args"]], None if ret is None else xty(ret))
    return ModuleOp([llvm.FuncOp("f", ft, body=Region(blocks))])


# ------------------------------------------------------------------------------------------------
# .ll text -> nested ints (the shape coq/C23/Enc.v:enc_func prints)


class LLParseError(Exception):
    pass


def s_codes(s: str):
    return [ord(c) for c in s]


TY_RE = r"(?:i\d+\*?|ptr|float|double|half|void)"


def ty_code(tok: str) -> int:
    tok = tok.strip()
    if tok.endswith("*") or tok == "ptr":
        return PTR
    if tok == "float":
        return F32
    if tok == "double":
        return F64
    if tok == "half":
        return F16
    m = re.fullmatch(r"i(\d+)", tok)
    if not m:
        raise LLParseError(f"type {tok!r}")
    return int(m.group(1))


def unq(name: str) -> str:
    name = name.strip()
    if name.startswith('%'):
        name = name[1:]
    if name.startswith('"') and name.endswith('"'):
        name = name[1:-1]
    return name


class FuncParser:
    def __init__(self, text: str, fname: str = "f"):
        self.text = text
        lines = text.splitlines()
        start = None
        for i, ln in enumerate(lines):
            if ln.startswith("define ") and f'@"{fname}"(' in ln:
                start = i
                break
        if start is None:
            raise LLParseError("function not found")
        head = lines[start]
        m = re.match(r'define\s+(\S+)\s+@"[^"]*"\((.*)\)\s*$', head)
        if not m:
            raise LLParseError(f"header {head!r}")
        self.ret = m.group(1)
        self.params = []
        if m.group(2).strip():
            for p in m.group(2).split(","):
                toks = p.split()
                self.params.append((ty_code(toks[0]), unq(toks[-1])))
        body = []
        i = start + 1
        if lines[i].strip() != "{":
            raise LLParseError("expected {")
        i += 1
        while lines[i].strip() != "}":
            body.append(lines[i])
            i += 1
        self.blocks = []          # (label, [lines])
        for ln in body:
            if not ln.strip():
                continue
            m = re.fullmatch(r'("?[^\s"]+"?|"[^"]*"):', ln.strip()) if not ln.startswith(" ") else None
            if m:
                self.blocks.append((unq(m.group(1)), []))
            else:
                if not self.blocks:
                    raise LLParseError("instruction before the first label")
                self.blocks[-1][1].append(ln.strip())
        self.label_idx = {lab: i for i, (lab, _) in enumerate(self.blocks)}

    # operands: ('v', name) | ('c', ty, int)
    def opd(self, ty: int, tok: str):
        tok = tok.strip()
        if tok.startswith("%"):
            return ("v", unq(tok))
        if tok in ("true", "false"):
            return ("c", ty, -1 if tok == "true" else 0)
        if re.fullmatch(r"0x[0-9a-fA-F]+", tok):
            return ("c", ty, int(tok, 16))
        if re.fullmatch(r"-?\d+", tok):
            return ("c", ty, int(tok))
        raise LLParseError(f"operand {tok!r}")

    def parse_instr(self, ln: str):
        """-> ('phi', name, ty, [(opd, label)]) | ('ins', name|None, fields...) | ('term', ...)"""
        m = re.fullmatch(r'(%\S+)\s*=\s*(.*)', ln)
        name, rhs = (unq(m.group(1)), m.group(2)) if m else (None, ln)
        toks = rhs.split()
        opc = toks[0]
        if opc == "phi":
            m = re.fullmatch(rf'phi\s+({TY_RE})\s*(.*)', rhs)
            ty = ty_code(m.group(1))
            incs = []
            for a, b in re.findall(r'\[\s*([^,\]]+),\s*([^\]]+)\]', m.group(2)):
                incs.append((self.opd(ty, a), unq(b)))
            return ("phi", name, ty, incs)
        if opc in ("icmp", "fcmp"):
            m = re.fullmatch(rf'{opc}\s+(.*?)\s*({TY_RE})\s+([^,]+),\s*(\S+)', rhs)
            words = m.group(1).split()
            pred, ty = words[-1], ty_code(m.group(2))
            if len(words) != 1:
                raise LLParseError(f"flags on a comparison: {ln!r}")
            return ("ins", name, [2 if opc == "icmp" else 3, s_codes(pred), ty, self.opd(ty, m.group(3)), self.opd(ty, m.group(4))])
        if opc in ("trunc", "zext", "sext", "ptrtoint", "inttoptr", "bitcast", "fpext", "sitofp"):
            m = re.fullmatch(rf'{opc}\s+(.*?)\s*({TY_RE})\s+(\S+)\s+to\s+({TY_RE})', rhs)
            flags = m.group(1).split()
            ty = ty_code(m.group(2))
            return ("ins", name, [4, s_codes(opc), [s_codes(f) for f in flags], ty, self.opd(ty, m.group(3)), ty_code(m.group(4))])
        if opc == "select":
            m = re.fullmatch(rf'select\s+i1\s+([^,]+),\s*({TY_RE})\s+([^,]+),\s*({TY_RE})\s+(\S+)', rhs)
            ty = ty_code(m.group(2))
            return ("ins", name, [5, ty, self.opd(1, m.group(1)), self.opd(ty, m.group(3)), self.opd(ty, m.group(5))])
        if opc == "alloca":
            m = re.fullmatch(rf'alloca\s+({TY_RE}),\s*({TY_RE})\s+([^,]+)(?:,\s*align\s+(\d+))?', rhs)
            tn = ty_code(m.group(2))
            return ("ins", name, [6, ty_code(m.group(1)), tn, self.opd(tn, m.group(3)), int(m.group(4) or 0)])
        if opc == "load":
            m = re.fullmatch(rf'load\s+({TY_RE}),\s*({TY_RE})\s+([^,]+)(?:,\s*align\s+(\d+))?', rhs)
            return ("ins", name, [7, ty_code(m.group(1)), self.opd(PTR, m.group(3)), int(m.group(4) or 0)])
        if opc == "store":
            m = re.fullmatch(rf'store\s+({TY_RE})\s+([^,]+),\s*({TY_RE})\s+([^,]+)(?:,\s*align\s+(\d+))?', rhs)
            ty = ty_code(m.group(1))
            return ("ins", None, [8, ty, self.opd(ty, m.group(2)), self.opd(PTR, m.group(4)), int(m.group(5) or 0)])
        if opc == "ret":
            if rhs.strip() == "ret void":
                return ("term", [2])
            m = re.fullmatch(rf'ret\s+({TY_RE})\s+(\S+)', rhs)
            ty = ty_code(m.group(1))
            return ("term", [1, ty, self.opd(ty, m.group(2))])
        if opc == "br":
            m = re.fullmatch(r'br\s+label\s+(\S+)', rhs)
            if m:
                return ("term", [3, ("lab", unq(m.group(1)))])
            m = re.fullmatch(r'br\s+i1\s+([^,]+),\s*label\s+([^,]+),\s*label\s+(\S+)', rhs)
            return ("term", [4, self.opd(1, m.group(1)), ("lab", unq(m.group(2))), ("lab", unq(m.group(3)))])
        if opc == "unreachable":
            return ("term", [5])
        # binary operation: <opc> <flags...> <ty> a, b
        m = re.fullmatch(rf'(\w+)\s+(.*?)\s*({TY_RE})\s+([^,]+),\s*(\S+)', rhs)
        if not m:
            raise LLParseError(f"instruction {ln!r}")
        flags = m.group(2).split()
        ty = ty_code(m.group(3))
        return ("ins", name, [1, s_codes(m.group(1)), [s_codes(f) for f in flags], ty, self.opd(ty, m.group(4)), self.opd(ty, m.group(5))])

    def parse(self):
        """nested ints with ids renumbered in definition order (parameters, then per block phis and instructions)"""
        ids = {}
        for _, n in self.params:
            ids[n] = len(ids)
        parsed = []
        for lab, lines in self.blocks:
            items = [self.parse_instr(ln) for ln in lines]
            for it in items:
                if it[0] in ("phi", "ins") and it[1] is not None:
                    if it[1] in ids:
                        raise LLParseError(f"value {it[1]} defined twice")
                    ids[it[1]] = len(ids)
            parsed.append(items)

        def enc_opd(o):
            if o[0] == "v":
                if o[1] not in ids:
                    raise LLParseError(f"use of undefined value {o[1]}")
                return [0, ids[o[1]]]
            return [1, o[1], o[2]]

        def lab(o):
            if o[1] not in self.label_idx:
                raise LLParseError(f"unknown label {o[1]}")
            return self.label_idx[o[1]]

        out = []
        for items in parsed:
            phis, body, term = [], [], None
            for it in items:
                if it[0] == "phi":
                    phis.append([ids[it[1]], it[2], [[enc_opd(o), lab(("lab", l))] for o, l in it[3]]])
                elif it[0] == "ins":
                    f = list(it[2])
                    if f[0] in (1, 4):
                        f[2] = sorted(f[2])
                    row = [f[0]] + ([ids[it[1]]] if it[1] is not None else [])
                    for x in f[1:]:
                        row.append(enc_opd(x) if isinstance(x, tuple) else x)
                    body.append(row)
                else:
                    f = it[1]
                    row = [f[0]]
                    for x in f[1:]:
                        if isinstance(x, tuple) and x[0] == "lab":
                            row.append(lab(x))
                        elif isinstance(x, tuple):
                            row.append(enc_opd(x))
                        else:
                            row.append(x)
                    if term is not None:
                        raise LLParseError("two terminators in a block")
                    term = row
            if term is None:
                raise LLParseError("block without terminator")
            out.append([phis, body, term])
        return out


def parse_ll(text: str):
    return FuncParser(text).parse()


# ------------------------------------------------------------------------------------------------
# canonical renumbering of the MODEL's output (ids of the case -> definition order)


def canon_model(case, m):
    """m: parsed sx of enc_func.  [-1, code] stays; [0, blocks, k] -> [0, blocks'] with ids renumbered like the
    parser does (entry arguments first, then per block: phis, instruction results).  Returns (result, kernel_flag)."""
    if m[0] != 0:
        return m, None
    ids = {}
    for i, _ in case["blocks"][0]["args"]:
        ids[i] = len(ids)
    blocks = m[1]
    for phis, body, term in blocks:
        for p in phis:
            ids[p[0]] = len(ids)
        for ins in body:
            if ins[0] != 8:
                ids[ins[1]] = len(ids)

    def opd(o):
        if o[0] == 0:
            return [0, ids.get(o[1], -1000 - o[1])]
        return o

    out = []
    for phis, body, term in blocks:
        ph = [[ids[p[0]], p[1], [[opd(o), pr] for o, pr in p[2]]] for p in phis]
        bd = []
        for ins in body:
            k = ins[0]
            row = list(ins)
            if k != 8:
                row[1] = ids[ins[1]]
            bd.append(_map_operands(row, opd))
        tm = list(term)
        if tm[0] == 1:
            tm[2] = opd(tm[2])
        elif tm[0] == 4:
            tm[1] = opd(tm[1])
        out.append([ph, bd, tm])
    return [0, out], list(m[2:])


OPERAND_POS = {1: (5, 6), 2: (4, 5), 3: (4, 5), 4: (5,), 5: (3, 4, 5), 6: (4,), 7: (3,), 8: (2, 3)}


def _map_operands(row, opd):
    row = list(row)
    if row[0] in (1, 4):
        row[3] = sorted(row[3])          # flags are a set (python iterates a frozenset in hash order)
    for j in OPERAND_POS[row[0]]:
        row[j] = opd(row[j])
    return row
