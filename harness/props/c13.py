"""C13 -- Dead-code elimination removes only unobservable code.

Tie: hand-written Coq model (coq/C13/Model.v) of xdsl/transforms/dead_code_elimination.py and the
effect queries of xdsl/traits.py vs the real code on generated programs.  Every case is materialised
as real xDSL IR (test dialect ops + harness-defined ops carrying every combination of IsTerminator /
SymbolOpInterface / static MemoryEffect traits / RecursiveMemoryEffect / ALLOC on own result, on an
operand, on a nested block argument, UNREGISTERED ops in the middle of blocks (unknown effects) and as
branch-like last ops with successors, so that blocks are reachable only through them (has_trait answers
value_if_unregistered there), or parsed func/arith/cf/scf/memref text), dumped into the model's
program representation by reading traits, operands, successors and regions, and then transformed by
the real `region_dce` (mode region_dce, with its returned flag), by DeadCodeElimination.apply (mode
pass), by `region_dce` iterated until it reports no change (mode iter, the proposed repair), or by the
greedy driver's trivially-dead removal (mode greedy: `dce()` = PatternRewriteWalker(
RemoveUnusedOperations), cross-checked against PatternRewriteWalker(GreedyRewritePatternApplier([]))).
Compared: per-op get_effects / has_effects / only_has_effect / is_side_effect_free / result_only_effects
/ would_be_trivially_dead / is_trivially_dead, the returned `changed` flag and the complete remaining IR
(block and op ids, nesting).  Streams: SSA-valid wiring; wild wiring (uses before definitions, uses of
values of unreachable or nested code); malformed CFGs (blocks without terminator).
Oracle (independent of the model and of dead_code_elimination.py): an op removed on its own is not a
terminator, not a symbol, has no possibly observable effect (own recursion over the traits) and every
user of its results is removed too, and is outside my own least fixed point of "must stay" operations;
a block removed on its own is unreachable (never the entry block); afterwards no removable op and (for
the pass) no unreachable block is left; runnable programs (func/arith/cf/scf/memref, external @log
calls) verify and give the same results and call log before and after under the xDSL interpreter.
Non-trivial: at least one op or block was removed; distinct = distinct remaining-IR structure.
"""
from __future__ import annotations

import json

from harness.common import Ctx, DiffSpec, Untranslatable, coq_bool, coq_list, differential, exc_code, replay_findings

META = {
    "id": "C13",
    "title": "Dead-code elimination removes only unobservable code",
    "design_ref": "DESIGN.md section 8.C13",
    "technique": "Coq proof about an executable model of region_dce (liveness fixed point, delete_dead) against a least-fixed-point spec and a CFG semantics with effect log + model-vs-code correspondence on generated IR",
    "level_text": (
        "Theorems in coq/Props/C13.v, for EVERY program (any nesting, any CFG, any wiring of values): the "
        "`while changed` loop terminates within its fuel because the live set strictly grows; the final live set "
        "is exactly the least fixed point of the liveness rules; every operation deleted on its own by "
        "delete_dead is not a terminator, not a symbol, has only result-only effects and all users of its "
        "results are deleted too; every block deleted on its own has no live op and, if blocks end with "
        "terminators, is unreachable, and every unreachable block is deleted; for the single-region CFG "
        "fragment with uninterpreted op semantics and an effect log the program before and after region_dce "
        "returns the same results, memory and log. Completeness of ONE run is refuted (C13_complete_refuted, two "
        "witnesses: a value kept alive only by an op nested in a deleted op; an op whose only observable effect "
        "sits in an unreachable nested block) and proved for a run that reports no change and for region_dce "
        "iterated until it reports no change (the proposed repair, which is also proved to terminate). The "
        "greedy driver's trivially-dead removal (as rounds) terminates, removes only operations that are "
        "trivially dead at that moment or nested in one, and leaves none. The model is tied to the code by "
        "differential runs on generated IR built from real ops."),
    "level_note": (
        "Trusted: Coq kernel; hand-written model (op/block/value identity as nat ids, use lists recomputed from "
        "operand lists, Python sets as lists); the dump of real IR into the model (reads traits); correspondence "
        "harness. Modelled: would_be_trivially_dead, is_trivially_dead, result_only_effects, get_effects incl. "
        "RecursiveMemoryEffect, only_has_effect, is_side_effect_free, LiveSet.propagate_op/region_liveness, "
        "the while loop, delete_dead, region_dce, the pass; the greedy driver's trivially-dead removal only as its "
        "order-independent result (worklist order is C11). Not covered: listener callbacks, ErasedSSAValue "
        "book-keeping of safe_erase=False, successors pointing outside their region, MemoryEffect traits whose "
        "get_effects depends on IR that DCE itself deletes (static effects are read once); C13_semantics covers the "
        "region-free CFG fragment (nested regions are not given a semantics) and idealises ops that pass "
        "would_be_trivially_dead as total and state-preserving (this is the meaning xDSL gives to the traits)."),
}
COQ_TARGETS = ["C13/Enc.vo", "C13/Proofs.vo", "C13/ProofsIter.vo", "C13/ProofsGreedy.vo", "C13/ProofsSem.vo", "Props/C13.vo"]
REQ = ["C24.Model", "C13.Model", "C13.Enc"]
ASSUMPTIONS = [
    "op ids are pairwise distinct (object identity); uses of a value are exactly its occurrences in operand lists (C01)",
    "successors of a terminator are blocks of the same region",
    "block ids of a region are pairwise distinct and a terminator is the last op of its block (C13_semantics only)",
    "C13_semantics: ops passing would_be_trivially_dead always succeed and leave memory and log unchanged; environments are total maps",
]
TRUSTED = []

MODES = {"region_dce": 0, "iter": 1, "greedy": 2, "pass": 3}

# ---------------------------------------------------------------------------- real ops
_X = None


def X():
    """xDSL imports + harness-defined ops (one per trait combination the model distinguishes)."""
    global _X
    if _X is not None:
        return _X
    from types import SimpleNamespace

    from xdsl.dialects import test
    from xdsl.dialects.builtin import ModuleOp, UnregisteredOp, i32
    from xdsl.ir import Block, Operation, Region, SSAValue
    from xdsl.irdl import (IRDLOperation, irdl_op_definition, traits_def, var_operand_def, var_region_def,
                           var_result_def, var_successor_def)
    from xdsl.traits import (EffectInstance, IsTerminator, MemoryAllocEffect, MemoryEffect, MemoryEffectKind,
                             MemoryFreeEffect, MemoryReadEffect, MemoryWriteEffect, Pure, RecursiveMemoryEffect,
                             SymbolOpInterface)

    class AllocOwn(MemoryEffect):
        @classmethod
        def get_effects(cls, op):
            return {EffectInstance(MemoryEffectKind.ALLOC, op.results[0] if op.results else None)}

    class AllocArg(MemoryEffect):
        @classmethod
        def get_effects(cls, op):
            return {EffectInstance(MemoryEffectKind.ALLOC, op.operands[0] if op.operands else None)}

    class AllocInner(MemoryEffect):
        """ALLOC on the first argument of the entry block of a region of the op (owner is a Block nested in
        the op).  Entry blocks and block arguments are never deleted by DCE, so the effect is a function of
        the op alone, as the model's static `o_eff` requires."""
        @classmethod
        def get_effects(cls, op):
            for r in op.regions:
                b = r.first_block
                if b is not None and b.args:
                    return {EffectInstance(MemoryEffectKind.ALLOC, b.args[0])}
            return {EffectInstance(MemoryEffectKind.ALLOC, op.results[0] if op.results else None)}

    def mk(nm, *tr):
        @irdl_op_definition
        class _Op(IRDLOperation):
            name = "c13." + nm
            res = var_result_def()
            ops = var_operand_def()
            regs = var_region_def()
            successor = var_successor_def()
            traits = traits_def(*tr)
        _Op.__name__ = "C13_" + nm
        return _Op

    kinds = {
        "pure": test.TestPureOp, "unk": test.TestOp, "read": test.TestReadOp, "write": test.TestWriteOp,
        "term": test.TestTermOp,
        "sym": mk("sym", SymbolOpInterface()),
        "sympure": mk("sympure", SymbolOpInterface(), Pure()),
        "pureterm": mk("pureterm", IsTerminator(), Pure()),
        "rec": mk("rec", RecursiveMemoryEffect()),
        "recread": mk("recread", RecursiveMemoryEffect(), MemoryReadEffect()),
        "recterm": mk("recterm", RecursiveMemoryEffect(), IsTerminator()),
        "alloc": mk("alloc", MemoryAllocEffect()),
        "free": mk("free", MemoryFreeEffect()),
        "rw": mk("rw", MemoryReadEffect(), MemoryWriteEffect()),
        "allocown": mk("allocown", AllocOwn()),
        "allocarg": mk("allocarg", AllocArg()),
        "allocinner": mk("allocinner", AllocInner()),
        "readallocown": mk("readallocown", MemoryReadEffect(), AllocOwn()),
        # unregistered ops: has_trait(T) answers value_if_unregistered (default True), so PostOrderIterator
        # follows the successors of an unregistered last op, while would_be_trivially_dead asks with
        # value_if_unregistered=False and keeps the op because its effects are unknown
        "unreg": UnregisteredOp.with_name("c13u.op"),
        "unregbr": UnregisteredOp.with_name("c13u.br"),
    }
    _X = SimpleNamespace(**locals())
    return _X


NONTERM_KINDS = ["pure", "unk", "read", "write", "sym", "sympure", "rec", "recread", "alloc", "free", "rw",
                 "allocown", "allocarg", "allocinner", "readallocown", "unreg"]
NONTERM_W = [14, 3, 4, 3, 1, 1, 6, 2, 1, 1, 1, 3, 1, 2, 1, 2]
TERM_KINDS = ["term", "pureterm", "recterm", "unregbr"]
NO_SUCC = {"unk", "sym", "sympure"}       # these classes take no successors


# ---------------------------------------------------------------------------- materialise / number / dump
def build_recipe(prog):
    """recipe (region = list of {"args":[vid], "ops":[{"k","res","args","succs","regs"}]}) -> ModuleOp"""
    x = X()
    vals, pending = {}, []

    def mk_region(rr):
        blocks = [x.Block(arg_types=[x.i32] * len(b["args"])) for b in rr]
        for blk, b in zip(blocks, rr):
            for v, a in zip(b["args"], blk.args):
                vals[v] = a
        for blk, b in zip(blocks, rr):
            for o in b["ops"]:
                regs = [mk_region(r) for r in o["regs"]]
                succs = [blocks[s] for s in o["succs"]]
                op = x.kinds[o["k"]].create(result_types=[x.i32] * len(o["res"]), successors=succs, regions=regs)
                for v, r in zip(o["res"], op.results):
                    vals[v] = r
                pending.append((op, o["args"]))
                blk.add_op(op)
        return x.Region(blocks)

    body = mk_region(prog)
    for op, args in pending:
        op.operands = [vals[v] for v in args]
    return x.ModuleOp(body)


_CTX = None


def mlctx():
    global _CTX
    if _CTX is None:
        from xdsl.context import Context
        from xdsl.dialects import arith, builtin, cf, func, memref, scf, test
        _CTX = Context()
        for d in (builtin.Builtin, func.Func, arith.Arith, scf.Scf, cf.Cf, memref.MemRef, test.Test):
            _CTX.load_dialect(d)
    return _CTX


def materialize(case):
    if "mlir" in case:
        from xdsl.parser import Parser
        return Parser(mlctx(), case["mlir"]).parse_module()
    return build_recipe(case["prog"])


class Num:
    """ids by walk order of the ORIGINAL IR: ops, blocks, values"""

    def __init__(self, module):
        self.op, self.blk, self.val = {}, {}, {}
        self.ops, self.blks = [], []

        def region(r):
            for b in r.blocks:
                self.blk[id(b)] = len(self.blks)
                self.blks.append(b)
            for b in r.blocks:
                for a in b.args:
                    self.val[id(a)] = len(self.val)
                for o in b.ops:
                    self.op[id(o)] = len(self.ops)
                    self.ops.append(o)
                    for v in o.results:
                        self.val[id(v)] = len(self.val)
                    for rr in o.regions:
                        region(rr)
        region(module.body)


def static_effects(op, num):
    """(o_eff, o_rec) of the model, read from the traits"""
    x = X()
    traits = op.get_traits_of_type(x.MemoryEffect)
    rec = any(isinstance(t, x.RecursiveMemoryEffect) for t in traits)
    static = [t for t in traits if not isinstance(t, x.RecursiveMemoryEffect)]
    if not traits:
        return None, False
    effs = []
    for t in static:
        es = t.get_effects(op)
        if es is None:
            return None, False
        for e in sorted(es, key=lambda e: (e.kind.value, num.val.get(id(e.value), -1))):
            k = e.kind
            if k == x.MemoryEffectKind.READ:
                effs.append("RRead")
            elif k == x.MemoryEffectKind.WRITE:
                effs.append("RWrite")
            elif k == x.MemoryEffectKind.FREE:
                effs.append("RFree")
            else:
                v = e.value
                if isinstance(v, x.SSAValue) and id(v) in num.val:
                    effs.append(f"RAlloc (Some {num.val[id(v)]})")
                else:
                    effs.append("RAlloc None")
    return (effs if static else None), rec


def zs(ns):
    return "[" + ";".join(str(n) for n in ns) + "]"


def dump_region(r, num):
    x = X()

    def d_op(o):
        eff, rec = static_effects(o, num)
        e = "None" if eff is None else "(Some " + coq_list(eff) + ")"
        # o_term is what PostOrderIterator asks (has_trait default: an unregistered op counts as a
        # terminator).  would_be_trivially_dead asks with value_if_unregistered=False; the model's single
        # flag is faithful for both only because an unregistered op has no MemoryEffect trait (unknown
        # effects keep it alive either way) -- fail closed if that ever stops being true.
        term = o.has_trait(x.IsTerminator)
        if term != o.has_trait(x.IsTerminator, value_if_unregistered=False) and (eff is not None or rec):
            raise Untranslatable(f"unregistered op {o.name} with known effects: the model's o_term flag cannot "
                                 "serve both PostOrderIterator and would_be_trivially_dead")
        return ("(ROp " + " ".join([
            str(num.op[id(o)]), zs(num.val[id(v)] for v in o.results),
            zs(num.val[id(v)] for v in o.operands), zs(num.blk[id(s)] for s in o.successors),
            coq_list(d_region(rr) for rr in o.regions),
            coq_bool(term), coq_bool(o.has_trait(x.SymbolOpInterface, value_if_unregistered=False)), e,
            coq_bool(rec)]) + ")")

    def d_region(rr):
        return coq_list("(RBlk " + " ".join([str(num.blk[id(b)]), zs(num.val[id(a)] for a in b.args),
                                             coq_list(d_op(o) for o in b.ops)]) + ")" for b in rr.blocks)
    return d_region(r)


def extract(region, num):
    def e_op(o):
        return [num.op[id(o)], [e_region(r) for r in o.regions]]

    def e_region(r):
        return [[num.blk[id(b)], [e_op(o) for o in b.ops]] for b in r.blocks]
    return e_region(region)


def coq_expr(case):
    m = materialize(case)
    num = Num(m)
    return f"c13_caseZ {MODES[case['mode']]} {dump_region(m.body, num)}"


# ---------------------------------------------------------------------------- implementation
def real_preds(m, num):
    x = X()
    from xdsl.traits import get_effects, has_effects, is_side_effect_free, only_has_effect
    from xdsl.transforms.dead_code_elimination import (is_trivially_dead, result_only_effects,
                                                       would_be_trivially_dead)
    K = x.MemoryEffectKind
    out = []
    for o in num.ops:
        es = get_effects(o)
        enc = -1 if es is None else [int(has_effects(o, k)) for k in (K.READ, K.WRITE, K.ALLOC, K.FREE)]
        out.append([num.op[id(o)], enc, int(only_has_effect(o, K.READ)), int(is_side_effect_free(o)),
                    int(result_only_effects(o)), int(would_be_trivially_dead(o)), int(is_trivially_dead(o))])
    return out


def run_mode(case, m):
    """-> result list (without the preds)"""
    from xdsl.pattern_rewriter import GreedyRewritePatternApplier, PatternRewriteWalker
    from xdsl.transforms import dead_code_elimination as D
    mode = case["mode"]
    num = Num(m)
    if mode == "region_dce":
        ch = D.region_dce(m.body)
        return [int(bool(ch)), extract(m.body, num)]
    if mode == "pass":
        D.DeadCodeElimination().apply(mlctx(), m)
        return [extract(m.body, num)]
    if mode == "iter":
        while D.region_dce(m.body):
            pass
        return [extract(m.body, num)]
    D.dce(m)
    res = [extract(m.body, num)]
    m2 = materialize(case)
    n2 = Num(m2)
    PatternRewriteWalker(GreedyRewritePatternApplier([])).rewrite_module(m2)
    if extract(m2.body, n2) != res[0]:
        res.append(["applier-differs-from-dce", extract(m2.body, n2)])
    return res


def impl(case):
    m = materialize(case)
    num = Num(m)
    preds = real_preds(m, num)
    try:
        return [preds, run_mode(case, m)]
    except Exception as e:  # the pass is not expected to raise on any IR
        return [preds, [-1, exc_code(e)]]


# ---------------------------------------------------------------------------- independent reference (oracle)
def ref_effects(op, present):
    """None = unknown, else set of (kind, value); `present(op_or_block)` filters nested IR"""
    x = X()
    traits = op.get_traits_of_type(x.MemoryEffect)
    if not traits:
        return None
    out = set()
    for t in traits:
        if isinstance(t, x.RecursiveMemoryEffect):
            for r in op.regions:
                for b in r.blocks:
                    if not present(b):
                        continue
                    for c in b.ops:
                        if not present(c):
                            continue
                        e = ref_effects(c, present)
                        if e is None:
                            return None
                        out |= e
        else:
            e = type(t).get_effects(op)
            if e is None:
                return None
            out |= {(i.kind, i.value) for i in e}
    return out


def ref_inside(root, v):
    x = X()
    if not isinstance(v, x.SSAValue):
        return False
    n = v.owner
    while n is not None:
        if n is root:
            return True
        n = n.parent
    return False


def ref_observable(op, present):
    """possibly observable effect beyond the results"""
    x = X()
    es = ref_effects(op, present)
    if es is None:
        return True
    K = x.MemoryEffectKind
    return any(not (k == K.READ or (k == K.ALLOC and ref_inside(op, v))) for k, v in es)


def ref_intrinsic(op, present):
    x = X()
    # an unregistered op may be a terminator or a symbol for all we know (and has unknown effects anyway)
    return op.has_trait(x.IsTerminator) or op.has_trait(x.SymbolOpInterface) or ref_observable(op, present)


def ref_reachable(region, present):
    """blocks reachable from the entry along the successors of terminating last ops"""
    x = X()
    blocks = [b for b in region.blocks if present(b)]
    if not blocks:
        return set()
    seen, todo = {id(blocks[0])}, [blocks[0]]
    while todo:
        b = todo.pop()
        ops = [o for o in b.ops if present(o)]
        if ops and ops[-1].has_trait(x.IsTerminator):      # unregistered last op: its successors count
            for s in ops[-1].successors:
                if id(s) not in seen:
                    seen.add(id(s))
                    todo.append(s)
    return seen


def remaining_ids(struct):
    ops, blks = set(), set()

    def reg(r):
        for bid, os_ in r:
            blks.add(bid)
            for oid, regs in os_:
                ops.add(oid)
                for rr in regs:
                    reg(rr)
    reg(struct)
    return ops, blks


def users_of(op):
    return [u.operation for r in op.results for u in r.uses]


def reachable_only(m):
    """filter for ref_effects: nested blocks that are unreachable in the ORIGINAL IR never execute, so
    their effects are not "possibly observable"."""
    x = X()
    cache = {}

    def present(n):
        if isinstance(n, x.Block):
            r = n.parent
            if id(r) not in cache:
                cache[id(r)] = ref_reachable(r, lambda _: True)
            return id(n) in cache[id(r)]
        return True
    return present


def ref_must_stay(m, num):
    """least fixed point: an op must stay if it sits in a reachable block of a region whose parent op must
    stay (or of the top region) and it is intrinsically observable or one of its users must stay"""
    all_present = lambda n: True
    sem_present = reachable_only(m)
    stay = set()
    changed = True
    while changed:
        changed = False

        def region(r):
            nonlocal changed
            reach = ref_reachable(r, all_present)
            for b in r.blocks:
                if id(b) not in reach:
                    continue
                for o in b.ops:
                    if id(o) not in stay and (ref_intrinsic(o, sem_present)
                                              or any(id(u) in stay for u in users_of(o))):
                        stay.add(id(o))
                        changed = True
                    if id(o) in stay:
                        for rr in o.regions:
                            region(rr)
        region(m.body)
    return stay


def analyse(case, res):
    """evaluate the statement's clauses on the implementation's result; -> list of (clause, text, op)"""
    x = X()
    m = materialize(case)
    num = Num(m)
    mode = case["mode"]
    run = res[1]
    if run and run[0] == -1:
        return [("raises", f"the transformation raised (exception code {run[1]})", None)]
    struct = run[1] if mode == "region_dce" else run[0]
    extra = run[2:] if mode == "region_dce" else run[1:]
    bad = []
    if extra:
        bad.append(("variants", f"two entry points disagree: {extra[0][0]}", None))
    rem_ops, rem_blks = remaining_ids(struct)
    all_present = lambda n: True
    sem_present = reachable_only(m)
    op_present = lambda n: (num.op[id(n)] in rem_ops) if isinstance(n, x.Operation) else (num.blk[id(n)] in rem_blks)
    stay = ref_must_stay(m, num)

    def anc_ok(node):      # every enclosing block/op of `node` remains
        n = node.parent
        while n is not None and not isinstance(n, x.ModuleOp):
            if isinstance(n, x.Operation) and num.op[id(n)] not in rem_ops:
                return False
            if isinstance(n, x.Block) and num.blk[id(n)] not in rem_blks:
                return False
            n = n.parent
        return True

    # clause 1: ops removed on their own
    for o in num.ops:
        i = num.op[id(o)]
        if i in rem_ops:
            continue
        if not anc_ok(o):
            continue      # went away with its block / an enclosing op
        if o.has_trait(x.IsTerminator):
            bad.append(("only", f"removed op {i} ({o.name}) is (or, being unregistered, may be) a terminator", i))
        elif o.has_trait(x.SymbolOpInterface, value_if_unregistered=False):
            bad.append(("only", f"removed op {i} ({o.name}) is a symbol", i))
        elif ref_observable(o, sem_present):
            bad.append(("only", f"removed op {i} ({o.name}) has a possibly observable effect", i))
        else:
            left = [num.op[id(u)] for u in users_of(o) if num.op[id(u)] in rem_ops]
            if left:
                bad.append(("only", f"removed op {i} ({o.name}) has results still used by remaining ops {left}", i))
        if id(o) in stay:
            bad.append(("only", f"removed op {i} ({o.name}) is in the least fixed point of observable operations", i))
    # clause 2: blocks removed on their own are unreachable
    wf_cfg = True
    for b in num.blks:
        i = num.blk[id(b)]
        if i in rem_blks or not anc_ok(b):
            continue
        if mode == "greedy":
            bad.append(("blocks", f"greedy trivially-dead removal removed block {i}", None))
            continue
        reach = ref_reachable(b.parent, all_present)
        if id(b) in reach:
            last = b.last_op
            if b is b.parent.first_block:
                bad.append(("blocks", f"removed block {i} is the entry block of its region", None))
            elif last is None or not last.has_trait(x.IsTerminator):
                wf_cfg = False   # invalid IR (a branch target without terminator): outside the statement
            else:
                bad.append(("blocks", f"removed block {i} is reachable", None))
    # clause 3: nothing removable / unreachable is left -- demanded of the dce PASS (and of the iterated /
    # greedy forms), not of one direct call of the helper region_dce, which reports `changed` so that its
    # caller can iterate (the pass does since fix 12db68a)
    for o in (num.ops if mode != "region_dce" else []):
        i = num.op[id(o)]
        if i not in rem_ops or not anc_ok(o):
            continue
        if ref_intrinsic(o, op_present):
            continue
        if any(num.op[id(u)] in rem_ops for u in users_of(o)):
            continue
        bad.append(("complete", f"op {i} ({o.name}) is left although its results are unused and it has no observable effect", i))
    if mode not in ("greedy", "region_dce"):
        seen_regions = set()
        for b in num.blks:
            i = num.blk[id(b)]
            if i not in rem_blks or not anc_ok(b) or id(b.parent) in seen_regions:
                continue
            seen_regions.add(id(b.parent))
            reach = ref_reachable(b.parent, op_present)
            for bb in b.parent.blocks:
                if num.blk[id(bb)] in rem_blks and id(bb) not in reach:
                    bad.append(("complete", f"unreachable block {num.blk[id(bb)]} is left", None))
    return bad, m, num, rem_ops


def kf_class(case, res):
    """known-finding class of a failing case, or None.  Only for ONE run of region_dce, only when every
    complaint is an op that was NOT removable in the input program (it had a user or an observable effect)
    and became removable through this very run's removals."""
    if case["mode"] not in ("region_dce", "pass"):
        return None
    out = analyse(case, res)
    if not isinstance(out, tuple):
        return None
    bad, m, num, rem_ops = out
    if not bad or any(c != "complete" or i is None for c, _, i in bad):
        return None
    all_present = lambda n: True
    kinds = set()
    for _, _, i in bad:
        o = num.ops[i]
        us = users_of(o)
        if us and all(num.op[id(u)] not in rem_ops for u in us):
            kinds.add("C13-kf-1")      # lost its last users: they were nested in an op this run removed
        elif not us and ref_intrinsic(o, all_present):
            kinds.add("C13-kf-2")      # lost its observable effect: it sat in a nested block this run removed
        else:
            return None
    return sorted(kinds)[0]


def holds(case, res):
    out = analyse(case, res)
    if not isinstance(out, tuple):
        return False, out[0][1]
    bad = out[0]
    if not bad and "mlir" in case:
        ok, why = semantic_check(case)
        if not ok:
            return False, why
    if bad:
        return False, "; ".join(t for _, t, _ in bad[:4])
    return True, ""


def known(case, res):
    return kf_class(case, res)


def nontrivial(case, res):
    run = res[1]
    if run and run[0] == -1:
        return None
    struct = run[1] if case["mode"] == "region_dce" else run[0]
    rem_ops, _ = remaining_ids(struct)
    if len(rem_ops) == len(res[0]) and not (case["mode"] == "region_dce" and run[0]):
        return None
    return (case["mode"], json.dumps(struct))


# ---------------------------------------------------------------------------- interpreter (runnable family)
def interpret(m, inputs):
    from xdsl.interpreter import Interpreter, InterpreterFunctions, impl_external, register_impls
    from xdsl.interpreters.arith import ArithFunctions
    from xdsl.interpreters.cf import CfFunctions
    from xdsl.interpreters.func import FuncFunctions
    from xdsl.interpreters.memref import MemRefFunctions
    from xdsl.interpreters.scf import ScfFunctions
    log = []

    @register_impls
    class Ext(InterpreterFunctions):
        @impl_external("log")
        def log_(self, interp, op, args):
            log.append(int(args[0]))
            return ()

    it = Interpreter(m)
    for f in (ArithFunctions(), CfFunctions(), FuncFunctions(), MemRefFunctions(), ScfFunctions(), Ext()):
        it.register_implementations(f)
    try:
        r = it.call_op("main", tuple(inputs))
        return ["ok", [int(v) for v in r], log]
    except Exception as e:
        return ["exc", type(e).__name__, log]


def apply_mode(case, m):
    from xdsl.pattern_rewriter import GreedyRewritePatternApplier, PatternRewriteWalker
    from xdsl.transforms import dead_code_elimination as D
    if case["mode"] == "region_dce":
        D.region_dce(m.body)
    elif case["mode"] == "pass":
        D.DeadCodeElimination().apply(mlctx(), m)
    elif case["mode"] == "iter":
        while D.region_dce(m.body):
            pass
    else:
        PatternRewriteWalker(GreedyRewritePatternApplier([])).rewrite_module(m)


def semantic_check(case):
    for inputs in case.get("inputs", []):
        before = interpret(materialize(case), inputs)
        m = materialize(case)
        apply_mode(case, m)
        try:
            m.verify()
        except Exception as e:
            return False, f"IR does not verify after the transformation: {str(e)[:200]}"
        after = interpret(m, inputs)
        if before != after:
            return False, f"inputs {inputs}: before {before} after {after}"
    return True, ""


# ---------------------------------------------------------------------------- generators
class Gen:
    def __init__(self, rng, wild=False, allow_noterm=False):
        self.rng, self.wild, self.allow_noterm = rng, wild, allow_noterm
        self.unreg_w = 14 if rng.random() < 0.35 else 2     # some programs branch mostly through unregistered ops
        self.nv = 0
        self.allvals = []
        self.kinds = {}

    def fresh(self, n):
        out = list(range(self.nv, self.nv + n))
        self.nv += n
        self.allvals += out
        return out

    def pick_args(self, vis, lo=0, hi=3):
        rng = self.rng
        if not vis:
            return []
        n = rng.choice([0, 1, 1, 2, 2, 3])
        return [rng.choice(vis[-8:] if rng.random() < 0.6 else vis) for _ in range(n)]

    def region(self, depth, visible, top=False):
        rng = self.rng
        nb = rng.choice([1, 2, 3, 4, 5, 6] if top else [1, 1, 1, 2, 3])
        blocks = [{"args": self.fresh(rng.choice([0, 0, 1, 2]) if (bi or not top) else 0), "ops": []}
                  for bi in range(nb)]
        entry_vals = []
        for bi, b in enumerate(blocks):
            vis = list(visible) + list(b["args"]) + (list(entry_vals) if bi else [])
            for _ in range(rng.choice([0, 1, 2, 3, 4, 5, 6] if top else [0, 1, 2, 3])):
                k = rng.choices(NONTERM_KINDS, NONTERM_W)[0]
                res = self.fresh(rng.choice([0, 1, 1, 1, 2]))
                regs = []
                if depth > 0 and (k.startswith("rec") or k == "allocinner" or rng.random() < 0.12):
                    regs = [self.region(depth - 1, vis) for _ in range(rng.choice([1, 1, 2]))]
                o = {"k": k, "res": res, "args": self.pick_args(vis), "succs": [], "regs": regs}
                self.kinds[k] = self.kinds.get(k, 0) + 1
                b["ops"].append(o)
                vis += res
                if bi == 0:
                    entry_vals += res
            if not (self.allow_noterm and rng.random() < 0.15):
                k = rng.choices(TERM_KINDS, [8, 2, 1, self.unreg_w])[0]
                ns = rng.choice([0, 1, 1, 2, 2, 3]) if nb > 1 else rng.choice([0, 0, 0, 1])
                if k == "unregbr" and nb > 1:
                    ns = max(1, ns)      # blocks reachable only through an unregistered branch-like op
                succs = [rng.randrange(nb) if rng.random() < 0.35 else min(nb - 1, bi + rng.randint(1, 2))
                         for _ in range(ns)]
                regs = []
                if depth > 0 and k == "recterm":
                    regs = [self.region(depth - 1, vis)]
                self.kinds[k] = self.kinds.get(k, 0) + 1
                b["ops"].append({"k": k, "res": self.fresh(rng.choice([0, 0, 0, 1])),
                                 "args": self.pick_args(vis), "succs": succs, "regs": regs})
        return blocks

    def rewire(self, prog):
        rng = self.rng

        def reg(r):
            for b in r:
                for o in b["ops"]:
                    o["args"] = [rng.choice(self.allvals) if rng.random() < 0.3 else a for a in o["args"]]
                    if rng.random() < 0.15 and self.allvals:
                        o["args"].append(rng.choice(self.allvals))
                    for rr in o["regs"]:
                        reg(rr)
        reg(prog)


def gen_recipe(rng, wild, noterm):
    g = Gen(rng, wild, noterm)
    prog = g.region(rng.choice([0, 1, 2, 2, 3]), [], top=True)
    if wild:
        g.rewire(prog)
    return prog, g.kinds


def gen_mlir(rng):
    """a runnable module: @main(i32, i32, i1) -> (i32, i32) over a forward CFG with dead chains, effectful ops,
    scf.if, unreachable blocks; external @log records its argument"""
    lines = []
    nv = [0]

    def fresh():
        nv[0] += 1
        return f"%v{nv[0]}"

    def pure_op(vis, out):
        a, b = rng.choice(vis), rng.choice(vis)
        v = fresh()
        opn = rng.choice(["addi", "muli", "subi", "xori", "andi", "ori"])
        out.append(f"{v} = arith.{opn} {a}, {b} : i32")
        return v

    def body(vis, bools, out, depth, mem):
        """emit a few ops; returns nothing, extends vis"""
        for _ in range(rng.randint(1, 6)):
            c = rng.random()
            if c < 0.45:
                vis.append(pure_op(vis, out))
            elif c < 0.55:
                v = fresh()
                out.append(f"{v} = arith.constant {rng.randint(-5, 50)} : i32")
                vis.append(v)
            elif c < 0.63:
                out.append(f"func.call @log({rng.choice(vis)}) : (i32) -> ()")
            elif c < 0.70 and mem:
                out.append(f"memref.store {rng.choice(vis)}, {mem}[%i{rng.randint(0, 3)}] : memref<4xi32>")
            elif c < 0.78 and mem:
                v = fresh()
                out.append(f"{v} = memref.load {mem}[%i{rng.randint(0, 3)}] : memref<4xi32>")
                vis.append(v)
            elif c < 0.84:
                v = fresh()
                out.append(f"{v} = arith.cmpi {rng.choice(['slt', 'eq', 'ne', 'sge'])}, {rng.choice(vis)}, {rng.choice(vis)} : i32")
                bools.append(v)
            elif c < 0.91 and mem:
                out.append(f"func.call @helper({mem}, {rng.choice(vis)}) : (memref<4xi32>, i32) -> ()")
            elif depth > 0:
                v = fresh()
                cond = rng.choice(bools)
                out.append(f"{v} = scf.if {cond} -> (i32) {{")
                for _branch in range(2):
                    inner, ivis, ibools = [], list(vis), list(bools)
                    body(ivis, ibools, inner, depth - 1, mem if rng.random() < 0.7 else None)
                    out += ["  " + l for l in inner]
                    out.append(f"  scf.yield {rng.choice(ivis)} : i32")
                    if _branch == 0:
                        out.append("} else {")
                out.append("}")
                if rng.random() < 0.5:
                    vis.append(v)     # otherwise the scf.if result stays unused

    nb = rng.randint(1, 5)
    nargs = [0] + [rng.randint(0, 2) for _ in range(nb - 1)]
    unreachable_extra = rng.choice([0, 0, 1, 2])
    total = nb + unreachable_extra
    nargs += [rng.randint(0, 1) for _ in range(unreachable_extra)]
    entry_vis, entry_bools = ["%a", "%b"], ["%c"]
    blocks_txt = []
    for bi in range(total):
        out = []
        if bi == 0:
            out += [f"%i{k} = arith.constant {k} : index" for k in range(4)]
            out.append("%m = memref.alloc() : memref<4xi32>")
            out.append("%z = arith.constant 7 : i32")
            for k in range(4):
                out.append(f"memref.store %z, %m[%i{k}] : memref<4xi32>")
            vis, bools = entry_vis, entry_bools
            vis.append("%z")
        else:
            args = [f"%p{bi}_{k}" for k in range(nargs[bi])]
            vis, bools = list(entry_vis) + args, list(entry_bools)
        body(vis, bools, out, 2, "%m")
        # terminator: forward edges only (so every run terminates); unreachable blocks jump into reachable ones
        fw = [t for t in range(bi + 1, nb)] if bi < nb else [t for t in range(1, nb)]
        if fw and rng.random() < 0.85:
            def tgt():
                t = rng.choice(fw)
                a = ", ".join(rng.choice(vis) for _ in range(nargs[t]))
                return f"^bb{t}" + (f"({a} : {', '.join(['i32'] * nargs[t])})" if nargs[t] else "")
            if rng.random() < 0.5:
                out.append(f"cf.br {tgt()}")
            else:
                out.append(f"cf.cond_br {rng.choice(bools)}, {tgt()}, {tgt()}")
        else:
            out.append(f"func.return {rng.choice(vis)}, {rng.choice(vis)} : i32, i32")
        hdr = "" if bi == 0 else (f"^bb{bi}" + ("(" + ", ".join(f"%p{bi}_{k} : i32" for k in range(nargs[bi])) + ")"
                                              if nargs[bi] else "") + ":")
        blocks_txt.append((hdr, out))
    # textual block order: entry first, the rest shuffled (delete_dead walks region.blocks in reverse)
    rest = blocks_txt[1:]
    rng.shuffle(rest)
    lines.append("builtin.module {")
    lines.append("  func.func private @log(i32) -> ()")
    lines.append("  func.func @helper(%hm : memref<4xi32>, %hv : i32) {")
    lines.append("    %h0 = arith.constant 1 : index")
    lines.append("    %hd = arith.addi %hv, %hv : i32")
    lines.append("    memref.store %hv, %hm[%h0] : memref<4xi32>")
    lines.append("    func.return")
    lines.append("  }")
    lines.append("  func.func @main(%a : i32, %b : i32, %c : i1) -> (i32, i32) {")
    for hdr, out in [blocks_txt[0]] + rest:
        if hdr:
            lines.append("  " + hdr)
        lines += ["    " + l for l in out]
    lines.append("  }")
    lines.append("}")
    return "\n".join(lines)


WITNESS_KF1 = {"mode": "pass", "prog": [{"args": [], "ops": [
    {"k": "pure", "res": [0], "args": [], "succs": [], "regs": []},
    {"k": "pure", "res": [1], "args": [], "succs": [], "regs": [[{"args": [], "ops": [
        {"k": "pure", "res": [2], "args": [0], "succs": [], "regs": []},
        {"k": "term", "res": [], "args": [2], "succs": [], "regs": []}]}]]},
    {"k": "term", "res": [], "args": [], "succs": [], "regs": []}]}]}
WITNESS_KF2 = {"mode": "pass", "prog": [{"args": [], "ops": [
    {"k": "rec", "res": [0], "args": [], "succs": [], "regs": [[
        {"args": [], "ops": [{"k": "pureterm", "res": [], "args": [], "succs": [], "regs": []}]},
        {"args": [], "ops": [{"k": "write", "res": [], "args": [], "succs": [], "regs": []},
                             {"k": "term", "res": [], "args": [], "succs": [], "regs": []}]}]]},
    {"k": "term", "res": [], "args": [], "succs": [], "regs": []}]}]}


def replay_case(ctx, witness):
    case = witness.get("case", witness)
    if "mode" not in case:
        print("not a C13 case:", list(case)[:5])
        return 0
    from harness.common import to_jsonable
    r = to_jsonable(impl(case))
    ok, why = holds(case, r)
    m = ctx.coq_eval(REQ, [coq_expr(case)])[0]
    print("implementation:", r)
    print("model:         ", m)
    print("oracle:", ok, why, "| known-finding class:", known(case, r) if not ok else None)
    return 0 if ok and r == m else 1


def run(ctx: Ctx):
    thorough = ctx.tier == "thorough"
    rng = ctx.rng
    replay_findings(ctx, "programs", impl, holds)
    kinds_total: dict = {}
    sizes = []

    def batch(n, wild, noterm):
        cases = []
        for _ in range(n):
            prog, kinds = gen_recipe(rng, wild, noterm)
            for k, v in kinds.items():
                kinds_total[k] = kinds_total.get(k, 0) + v
            sizes.append(sum(kinds.values()))
            mode = rng.choices(["region_dce", "pass", "iter", "greedy"], [3, 3, 2, 0 if wild else 3])[0]
            cases.append({"mode": mode, "prog": prog})
        return cases

    corpus = [WITNESS_KF1, WITNESS_KF2, dict(WITNESS_KF1, mode="region_dce"), dict(WITNESS_KF2, mode="region_dce"),
              dict(WITNESS_KF1, mode="iter"), dict(WITNESS_KF2, mode="iter"),
              dict(WITNESS_KF1, mode="greedy"), dict(WITNESS_KF2, mode="greedy")]
    n = 1000 if thorough else 180
    differential(ctx, DiffSpec("programs", REQ, corpus + batch(n, False, False), impl, coq_expr, holds, known,
                               nontrivial, shard=20))
    differential(ctx, DiffSpec("programs-wild-wiring", REQ, batch(n // 4, True, False), impl, coq_expr, holds, known,
                               nontrivial, shard=20))
    differential(ctx, DiffSpec("programs-malformed-cfg", REQ, batch(n // 5, True, True), impl, coq_expr, holds, known,
                               nontrivial, shard=20))
    cases = []
    for _ in range(200 if thorough else 36):
        txt = gen_mlir(rng)
        mode = rng.choices(["region_dce", "pass", "iter", "greedy"], [3, 3, 2, 3])[0]
        inputs = [[rng.randint(-9, 9), rng.randint(-9, 9), rng.choice([0, 1])] for _ in range(2)]
        cases.append({"mode": mode, "mlir": txt, "inputs": inputs})
    differential(ctx, DiffSpec("runnable-func-arith-cf-scf-memref", REQ, cases, impl, coq_expr, holds, known,
                               nontrivial, shard=12))
    ctx.coverage["op_kinds_generated"] = dict(sorted(kinds_total.items()))
    ctx.coverage["ops_per_program"] = {"min": min(sizes), "max": max(sizes), "mean": round(sum(sizes) / len(sizes), 1)}
    ctx.coverage["rule"] = __doc__.split("\n\n", 1)[1][:2400]
