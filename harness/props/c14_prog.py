"""C14: generated func/arith/scf/cf programs and the whole-pass oracle.

A case = {"text": MLIR source, "inputs": [[bit patterns of @main's arguments], ...]}.  @main has signature
(T, T, F, i1) for an integer type T in i1..i64/index and a float type F in f32/f64; bodies mix constants at
boundary values, all arith integer/float/compare/select/cast ops, scf.if / scf.for (small constant trip
counts, also zero / one trip), calls to an external function (the observable effects), and, in the cf style,
diamonds, switches and counted loops over block arguments.
For every pass the program is re-parsed, the REAL pass is applied, the module is verified and both versions
are run by the independent evaluator harness/props/c14_ref.py on every input (runs that hit poison / UB in
the ORIGINAL program are excluded); results and the trace of external calls must agree.
"""
from __future__ import annotations

import struct
import traceback

from harness.common import exc_code
from harness.props import c14_ref as ref

W = {"i1": 1, "i8": 8, "i16": 16, "i32": 32, "i64": 64, "index": 64}
IBIN = ["addi", "subi", "muli", "divui", "divsi", "floordivsi", "ceildivsi", "ceildivui", "remui", "remsi",
        "minui", "maxui", "minsi", "maxsi", "andi", "ori", "xori", "shli", "shrui", "shrsi"]
FBIN = ["addf", "subf", "mulf", "divf", "minimumf", "maximumf", "minnumf", "maxnumf"]
CMPI = ["eq", "ne", "slt", "sle", "sgt", "sge", "ult", "ule", "ugt", "uge"]
CMPF = ["false", "oeq", "ogt", "oge", "olt", "ole", "one", "ord", "ueq", "ugt", "uge", "ult", "ule", "une", "uno",
        "true"]
F_BOUND = {"f64": [0x0, 0x8000000000000000, 0x7FF0000000000000, 0xFFF0000000000000, 0x7FF8000000000000, 0x1,
                   0x8000000000000001, 0x0010000000000000, 0x7FEFFFFFFFFFFFFF, 0x3FF0000000000000,
                   0xBFF0000000000000, 0x4000000000000000, 0x3FE0000000000000, 0x4008000000000000],
           "f32": [0x0, 0x80000000, 0x7F800000, 0xFF800000, 0x7FC00000, 0x1, 0x80000001, 0x00800000, 0x7F7FFFFF,
                   0x3F800000, 0xBF800000, 0x40000000, 0x3F000000, 0x40400000, 0x7F000000]}


def int_lits(t):
    w = W[t]
    if t == "i1":
        return [0, 1, -1]
    s = {0, 1, -1, 2, 3, -2, (1 << (w - 1)) - 1, -(1 << (w - 1)), w, w - 1, w + 1, 1 << (w // 2), (1 << (w // 2)) - 1,
         (1 << (w // 2)) + 1, (1 << (w - 1)) - 2, -(1 << (w - 1)) + 1}
    return sorted(s)


def flit(fmt, bits):
    return f"0x{bits:016X}" if fmt == "f64" else f"0x{bits:08X}"


class PG:
    def __init__(self, rng, T, F):
        self.rng, self.T, self.F = rng, T, F
        self.n = 0
        self.lines = []
        self.ind = 1
        self.watch = []          # values that must be returned (results of the scf.if pairs)

    def new(self):
        self.n += 1
        return f"%v{self.n}"

    def emit(self, s):
        self.lines.append("  " * self.ind + s)

    def lit(self, t):
        rng = self.rng
        return rng.choice(int_lits(t)) if rng.random() < 0.75 else rng.randint(-9, 9) if W[t] > 4 else rng.choice([0, 1])

    # pools: dict type -> list of names
    def const(self, pools, t):
        v = self.new()
        if t == "i1":
            self.emit(f"{v} = arith.constant {'true' if self.rng.random() < 0.5 else 'false'}")
        elif t in W:
            self.emit(f"{v} = arith.constant {self.lit(t)} : {t}")
        else:
            b = self.rng.choice(F_BOUND[t]) if self.rng.random() < 0.7 else None
            if b is None:
                x = self.rng.choice([-1, 1]) * self.rng.random() * 10 ** self.rng.randint(-3, 3)
                if t == "f32":
                    b = struct.unpack("<I", struct.pack("<f", x))[0]
                else:
                    b = struct.unpack("<Q", struct.pack("<d", x))[0]
            self.emit(f"{v} = arith.constant {flit(t, b)} : {t}")
        pools[t].append(v)
        return v

    def val(self, pools, t, p_const=0.35):
        if not pools[t] or self.rng.random() < p_const:
            return self.const(pools, t)
        pool = pools[t]
        return self.rng.choice(pool[-6:] if self.rng.random() < 0.7 else pool)

    def stmt(self, pools, depth, allow_call=True):
        rng, T, F = self.rng, self.T, self.F
        r = rng.random()
        if r < 0.34:
            op = rng.choice(IBIN)
            a, b = self.val(pools, T), self.val(pools, T)
            if rng.random() < 0.1:
                b = a
            if op == "shli":
                # constant-fold-interp evaluates `lhs << rhs` on unbounded Python ints: a constant shift amount
                # of 2^31 would materialise a 256 MB integer inside the harness.  Shift amounts of shli are
                # therefore arguments or constants from a small / extreme set.
                if rng.random() < 0.5:
                    b = rng.choice(["%a", "%b"])
                else:
                    b = self.new()
                    w = W[T]
                    amt = rng.choice([0, 1, 2, w - 1, w, w + 1, -1, -(1 << (w - 1)), 300] if w > 8 else [0, 1, 2, w - 1, w, w + 1, -1])
                    self.emit(f"{b} = arith.constant {amt if T != 'i1' else ('true' if amt % 2 else 'false')}" + ("" if T == "i1" else f" : {T}"))
            v = self.new()
            self.emit(f"{v} = arith.{op} {a}, {b} : {T}")
            pools[T].append(v)
        elif r < 0.44:
            a, b = self.val(pools, T), self.val(pools, T)
            if rng.random() < 0.15:
                b = a
            v = self.new()
            self.emit(f"{v} = arith.cmpi {rng.choice(CMPI)}, {a}, {b} : {T}")
            pools["i1"].append(v)
        elif r < 0.52:
            t = rng.choice([T, F, "i1"])
            c, a, b = self.val(pools, "i1"), self.val(pools, t), self.val(pools, t)
            if rng.random() < 0.15:
                b = a
            v = self.new()
            self.emit(f"{v} = arith.select {c}, {a}, {b} : {t}")
            pools[t].append(v)
        elif r < 0.66:
            op = rng.choice(FBIN if rng.random() < 0.3 else FBIN[:4])
            a, b = self.val(pools, F, 0.45), self.val(pools, F, 0.45)
            v = self.new()
            self.emit(f"{v} = arith.{op} {a}, {b} : {F}")
            pools[F].append(v)
        elif r < 0.71:
            a, b = self.val(pools, F), self.val(pools, F)
            v = self.new()
            self.emit(f"{v} = arith.cmpf {rng.choice(CMPF)}, {a}, {b} : {F}")
            pools["i1"].append(v)
        elif r < 0.74:
            a = self.val(pools, F)
            v = self.new()
            self.emit(f"{v} = arith.negf {a} : {F}")
            pools[F].append(v)
        elif r < 0.78 and self.T not in ("index", "i1"):
            a = self.val(pools, T)
            v, v2 = self.new(), self.new()
            self.emit(f"{v} = arith.index_cast {a} : {T} to index")
            self.emit(f"{v2} = arith.index_cast {v} : index to {T}")
            pools[T].append(v2)
        elif r < 0.82 and allow_call:
            a = self.val(pools, T)
            v = self.new()
            self.emit(f"{v} = func.call @ext({a}) : ({T}) -> {T}")
            pools[T].append(v)
        elif r < 0.855 and depth > 0 and self.T != "i1":
            self.if_pair(pools)
        elif r < 0.91 and depth > 0:
            self.scf_if(pools, depth)
        elif r < 0.97 and depth > 0:
            self.scf_for(pools, depth)
        else:
            self.const(pools, rng.choice([T, F, "i1"]))

    def body(self, pools, depth, n):
        for _ in range(n):
            self.stmt(pools, depth)

    def if_pair(self, pools):
        """two scf.if on the SAME condition whose regions are pure and equal except (sometimes) in one region:
        cse may merge them only when both regions agree"""
        rng, T = self.rng, self.T
        c = "%c" if rng.random() < 0.7 else self.val(pools, "i1")
        outer = self.val(pools, T, 0.2)
        ops = ["addi", "subi", "xori", "muli", "ori"]
        spec = [(rng.choice(int_lits(T)), rng.choice(ops)) for _ in range(2)]      # (constant, op) of then / else
        variants = [spec, list(spec)]
        how = rng.choice(["same", "then", "else", "else"])
        if how != "same":
            j = 0 if how == "then" else 1
            k, o = spec[j]
            variants[1][j] = (k + 1, o) if rng.random() < 0.5 else (k, rng.choice([x for x in ops if x != o]))
        for sp in variants:
            res = self.new()
            self.emit(f"{res} = scf.if {c} -> ({T}) {{")
            for j, (k, o) in enumerate(sp):
                kv, rv = self.new(), self.new()
                self.ind += 1
                self.emit(f"{kv} = arith.constant {k} : {T}")
                self.emit(f"{rv} = arith.{o} {outer}, {kv} : {T}")
                self.emit(f"scf.yield {rv} : {T}")
                self.ind -= 1
                self.emit("} else {" if j == 0 else "}")
            pools[T].append(res)
            self.watch.append(res)

    def scf_if(self, pools, depth):
        rng = self.rng
        c = self.val(pools, "i1")
        tys = [rng.choice([self.T, self.F]) for _ in range(rng.choice([0, 1, 1, 2]))]
        res = [self.new() for _ in tys]
        head = (", ".join(res) + " = " if res else "") + f"scf.if {c}" + (" -> (" + ", ".join(tys) + ")" if tys else "")
        self.emit(head + " {")
        for branch in (0, 1):
            inner = {k: list(v) for k, v in pools.items()}
            self.ind += 1
            self.body(inner, depth - 1, rng.randint(0, 3))
            if tys:
                ys = [self.val(inner, t) for t in tys]
                self.emit("scf.yield " + ", ".join(ys) + " : " + ", ".join(tys))
            self.ind -= 1
            if branch == 0:
                if not tys and rng.random() < 0.4:
                    break
                self.emit("} else {")
        self.emit("}")
        for t, v in zip(tys, res):
            pools[t].append(v)

    def scf_for(self, pools, depth):
        rng = self.rng
        lb, ub, st = self.new(), self.new(), self.new()
        l = rng.choice([0, 0, 1, 2, -1])
        u = l + rng.choice([0, 0, 1, 1, 2, 3, -1])
        s = rng.choice([1, 1, 2, 3])
        for v, x in ((lb, l), (ub, u), (st, s)):
            self.emit(f"{v} = arith.constant {x} : index")
        tys = [rng.choice([self.T, self.F]) for _ in range(rng.choice([0, 1, 1, 2]))]
        inits = [self.val(pools, t) for t in tys]
        res = [self.new() for _ in tys]
        iv = self.new()
        its = [self.new() for _ in tys]
        head = (", ".join(res) + " = " if res else "") + f"scf.for {iv} = {lb} to {ub} step {st}"
        if tys:
            head += " iter_args(" + ", ".join(f"{a} = {b}" for a, b in zip(its, inits)) + ") -> (" + ", ".join(tys) + ")"
        self.emit(head + " {")
        inner = {k: list(v) for k, v in pools.items()}
        inner["index"] = inner.get("index", []) + ([iv] if self.T == "index" else [])
        for t, v in zip(tys, its):
            inner[t].append(v)
        self.ind += 1
        self.body(inner, depth - 1, rng.randint(1, 3))
        if tys:
            ys = [self.val(inner, t, 0.15) for t in tys]
            self.emit("scf.yield " + ", ".join(ys) + " : " + ", ".join(tys))
        self.ind -= 1
        self.emit("}")
        for t, v in zip(tys, res):
            pools[t].append(v)


def gen_scf(rng):
    T = rng.choice(list(W))
    F = rng.choice(["f32", "f64"])
    g = PG(rng, T, F)
    pools = {T: ["%a", "%b"], F: ["%f"], "i1": ["%c"]}
    pools.setdefault("i1", [])
    if T == "i1":
        pools["i1"] = ["%a", "%b", "%c"]
    for t in (T, F, "i1", "index"):
        pools.setdefault(t, [])
    g.body(pools, 2, rng.randint(3, 10))
    # make the computed values observable: up to 7 integer, 4 i1 and 4 float top-level values are returned, each
    # in its own result slot (a poison slot of the original run is not compared, the others still are)
    def pick(vals, k):
        vals = list(dict.fromkeys(vals))
        return vals if len(vals) <= k else rng.sample(vals, k)
    ints = list(dict.fromkeys(g.watch[:4] + pick(pools[T][2:] if T != "i1" else [], 5)))
    bools = pick(pools["i1"][1:] if T != "i1" else pools["i1"][3:], 4)
    rets = [(v, T) for v in (ints or ["%a"])] + [(v, "i1") for v in bools] + [(v, F) for v in pick(pools[F][1:], 4)]
    g.emit("func.return " + ", ".join(v for v, _ in rets) + " : " + ", ".join(t for _, t in rets))
    text = ("builtin.module {\n"
            f"  func.func private @ext({T}) -> {T}\n"
            f"  func.func @main(%a: {T}, %b: {T}, %f: {F}, %c: i1) -> (" + ", ".join(t for _, t in rets) + ") {\n"
            + "\n".join("  " + l for l in g.lines) + "\n  }\n}\n")
    return text, T, F


def gen_cf(rng):
    """entry -> (diamond | switch | counted loop) -> exit; straight-line statements in every block"""
    T = rng.choice([t for t in W if t != "i1"])
    F = rng.choice(["f32", "f64"])
    g = PG(rng, T, F)
    g.ind = 2
    pools = {T: ["%a", "%b"], F: ["%f"], "i1": ["%c"], "index": []}
    out = []

    def block(label, n):
        g.lines = []
        for _ in range(n):
            g.stmt(pools_cur[0], 0)
        return g.lines

    pools_cur = [pools]
    shape = rng.choice(["diamond", "switch", "loop", "chain"])
    entry = block("entry", rng.randint(1, 4))
    if shape == "diamond":
        c = g.val(pools, "i1")
        x, y = g.val(pools, T), g.val(pools, T)
        entry = list(g.lines)
        same = rng.random() < 0.15
        entry.append(f"    cf.cond_br {c}, ^t({x} : {T}), ^{'t' if same else 'e'}({y} : {T})")
        pt = {k: list(v) for k, v in pools.items()}
        pt[T].append("%ta")
        pools_cur[0] = pt
        tb = block("t", rng.randint(0, 3))
        tv = g.val(pt, T, 0.1)
        tb = list(g.lines) + [f"    cf.br ^m({tv} : {T})"]
        pe = {k: list(v) for k, v in pools.items()}
        pe[T].append("%ea")
        pools_cur[0] = pe
        eb = block("e", rng.randint(0, 3))
        ev = g.val(pe, T, 0.1)
        eb = list(g.lines) + [f"    cf.br ^m({ev} : {T})"]
        pm = {k: list(v) for k, v in pools.items()}
        pm[T].append("%ma")
        pools_cur[0] = pm
        mb = block("m", rng.randint(0, 3))
        rv = g.val(pm, T, 0.05)
        mb = list(g.lines) + [f"    func.return {rv} : {T}"]
        out = entry + [f"  ^t(%ta: {T}):"] + tb + ([] if same else [f"  ^e(%ea: {T}):"] + eb) + [f"  ^m(%ma: {T}):"] + mb
    elif shape == "switch":
        if T == "index":
            T2 = "index"
        x = g.val(pools, T)
        entry = list(g.lines)
        cases = sorted(set(rng.choice(int_lits(T)) for _ in range(rng.randint(0, 3))))
        y = g.val(pools, T)
        entry = list(g.lines)
        lines = [f"    cf.switch {x} : {T}, ["]
        arms = [f"      default: ^d({y} : {T})"]
        for i, cv in enumerate(cases):
            arms.append(f"      {cv}: ^{'d' if rng.random() < 0.3 else 'k'}({g.val(pools, T)} : {T})")
        entry = list(g.lines)
        lines.append(",\n".join(arms))
        lines.append("    ]")
        entry += lines
        pd = {k: list(v) for k, v in pools.items()}
        pd[T].append("%da")
        pools_cur[0] = pd
        db = block("d", rng.randint(0, 3))
        dv = g.val(pd, T, 0.05)
        db = list(g.lines) + [f"    func.return {dv} : {T}"]
        pk = {k: list(v) for k, v in pools.items()}
        pk[T].append("%ka")
        pools_cur[0] = pk
        kb = block("k", rng.randint(0, 3))
        kv = g.val(pk, T, 0.05)
        kb = list(g.lines) + [f"    func.return {kv} : {T}"]
        out = entry + [f"  ^d(%da: {T}):"] + db + [f"  ^k(%ka: {T}):"] + kb
    elif shape == "loop":
        n = rng.choice([0, 1, 2, 3])
        acc0 = g.val(pools, T)
        entry = list(g.lines) + ["    %i0 = arith.constant 0 : index", f"    %n = arith.constant {n} : index",
                                 "    %one = arith.constant 1 : index",
                                 f"    cf.br ^h(%i0, {acc0} : index, {T})"]
        ph = {k: list(v) for k, v in pools.items()}
        ph[T].append("%acc")
        hb = [f"  ^h(%i: index, %acc: {T}):", "    %lt = arith.cmpi slt, %i, %n : index",
              f"    cf.cond_br %lt, ^body, ^x(%acc : {T})"]
        pools_cur[0] = ph
        bb = block("body", rng.randint(1, 3))
        nv = g.val(ph, T, 0.05)
        bb = ["  ^body:"] + list(g.lines) + ["    %i1n = arith.addi %i, %one : index", f"    cf.br ^h(%i1n, {nv} : index, {T})"]
        xb = [f"  ^x(%r: {T}):", f"    func.return %r : {T}"]
        out = entry + hb + bb + xb
    else:
        x = g.val(pools, T)
        entry = list(g.lines) + [f"    cf.br ^p({x} : {T})"]
        pp = {k: list(v) for k, v in pools.items()}
        pp[T].append("%pa")
        pools_cur[0] = pp
        pb = block("p", rng.randint(0, 3))
        y = g.val(pp, T, 0.05)
        pb = list(g.lines) + [f"    cf.br ^q({y} : {T})"]
        pq = {k: list(v) for k, v in pp.items()}
        pq[T].append("%qa")
        pools_cur[0] = pq
        qb = block("q", rng.randint(0, 2))
        z = g.val(pq, T, 0.05)
        qb = list(g.lines) + [f"    func.return {z} : {T}"]
        out = entry + [f"  ^p(%pa: {T}):"] + pb + [f"  ^q(%qa: {T}):"] + qb
    text = ("builtin.module {\n"
            f"  func.func private @ext({T}) -> {T}\n"
            f"  func.func @main(%a: {T}, %b: {T}, %f: {F}, %c: i1) -> {T} {{\n"
            + "\n".join(out) + "\n  }\n}\n")
    return text, T, F


def gen_cf_diamond(rng):
    """multi-block func bodies for cse: a cf.cond_br diamond whose two arms (sibling blocks, neither dominates the
    other) compute the SAME pure op on the same operands and feed a join block through block arguments; plain, or
    inside a cf loop with loop-carried block arguments where the arm taken alternates with the iteration"""
    T = rng.choice(["i8", "i16", "i32", "i64", "index"])
    F = rng.choice(["f32", "f64"])
    ops = ["addi", "subi", "muli", "xori", "andi", "ori", "minsi", "maxui"]
    op1 = rng.choice(ops)
    op2 = op1 if rng.random() < 0.8 else rng.choice(ops)
    k = rng.choice(int_lits(T))
    extra = rng.random() < 0.5
    if rng.random() < 0.5:
        x, y = rng.choice([("%a", "%b"), ("%b", "%a"), ("%a", "%a")])
        body = [f"    %k = arith.constant {k} : {T}",
                "    cf.cond_br %c, ^t, ^e",
                "  ^t:",
                f"    %x1 = arith.{op1} {x}, {y} : {T}"]
        body += [f"    %y1 = arith.xori %x1, %k : {T}", f"    cf.br ^m(%y1 : {T})"] if extra else [f"    cf.br ^m(%x1 : {T})"]
        body += ["  ^e:", f"    %x2 = arith.{op2} {x}, {y} : {T}"]
        body += [f"    %y2 = arith.addi %x2, %k : {T}", f"    cf.br ^m(%y2 : {T})"] if extra else [f"    cf.br ^m(%x2 : {T})"]
        body += [f"  ^m(%r: {T}):", f"    %s = arith.{rng.choice(ops)} %r, %a : {T}", f"    func.return %s : {T}"]
    else:
        n = rng.choice([2, 3, 4])
        body = ["    %i0 = arith.constant 0 : index", f"    %n = arith.constant {n} : index",
                "    %one = arith.constant 1 : index", f"    %k = arith.constant {k} : {T}",
                f"    cf.br ^h(%i0, %a : index, {T})",
                f"  ^h(%i: index, %acc: {T}):",
                "    %lt = arith.cmpi slt, %i, %n : index",
                f"    cf.cond_br %lt, ^body, ^x(%acc : {T})",
                "  ^body:",
                "    %bit = arith.andi %i, %one : index",
                "    %odd = arith.cmpi eq, %bit, %one : index",
                "    %sel = arith.xori %odd, %c : i1",
                "    cf.cond_br %sel, ^t, ^e",
                "  ^t:",
                f"    %x1 = arith.{op1} %acc, %b : {T}",
                f"    cf.br ^j(%x1 : {T})",
                "  ^e:",
                f"    %x2 = arith.{op2} %acc, %b : {T}"]
        body += [f"    %y2 = arith.addi %x2, %k : {T}", f"    cf.br ^j(%y2 : {T})"] if extra else [f"    cf.br ^j(%x2 : {T})"]
        body += [f"  ^j(%v: {T}):", "    %i1n = arith.addi %i, %one : index", f"    cf.br ^h(%i1n, %v : index, {T})",
                 f"  ^x(%r: {T}):", f"    func.return %r : {T}"]
    text = ("builtin.module {\n"
            f"  func.func private @ext({T}) -> {T}\n"
            f"  func.func @main(%a: {T}, %b: {T}, %f: {F}, %c: i1) -> {T} {{\n"
            + "\n".join(body) + "\n  }\n}\n")
    return text, T, F


def gen_case(rng):
    from harness.props.c14 import parse_module
    for _ in range(20):
        r = rng.random()
        text, T, F = (gen_cf_diamond if r < 0.15 else gen_cf if r < 0.4 else gen_scf)(rng)
        try:
            parse_module(text)
        except Exception:
            continue
        w = W[T]
        M = 1 << w
        ib = [0, 1 % M, M - 1, M >> 1, (M >> 1) - 1 if w > 1 else 0, 2 % M, w % M]
        inputs = []
        for _ in range(5):
            inputs.append([rng.choice(ib) if rng.random() < 0.6 else rng.randrange(M),
                           rng.choice(ib) if rng.random() < 0.6 else rng.randrange(M),
                           rng.choice(F_BOUND[F]) if rng.random() < 0.6 else rng.getrandbits(ref.FMT[F][2]),
                           rng.randrange(2)])
        for i, inp in enumerate(inputs):
            inp[3] = i % 2           # both values of the i1 argument occur (scf.if / select conditions)
        return {"text": text, "inputs": inputs}
    raise RuntimeError("program generator produced 20 unparsable programs in a row")


# ---------------------------------------------------------------------------- running one pass with instrumentation
class Probe:
    """harness-side instrumentation of the one defect class still recorded as an open known finding:
    constant-fold-interp folding cmpi on the signed stored values (C14-kf-4, interpreter defect of C15)"""

    def __init__(self):
        self.hits = set()
        self.cur = None

    def __enter__(self):
        from xdsl.dialects import arith
        from xdsl.ir import OpResult
        from xdsl.transforms import constant_fold_interp as cfi
        from xdsl.transforms.canonicalization_patterns import arith as pats
        self.pats, self.cfi = pats, cfi
        self.orig_match = cfi.ConstantFoldInterpPattern.match_and_rewrite
        probe = self

        def match(self_, op, rewriter):
            consts = [o.op.value.value.data for o in op.operands
                      if isinstance(o, OpResult) and isinstance(o.op, arith.ConstantOp)
                      and hasattr(o.op.value, "value") and isinstance(o.op.value.value.data, int)]
            wt = op.operands[0].type if op.operands else None
            w = 64 if wt is None or wt.name != "integer_type" else wt.width.data
            probe.cur = (op.name, w, consts if len(consts) == len(op.operands) else [])
            if isinstance(op, arith.CmpiOp) and all(isinstance(o, OpResult) and isinstance(o.op, arith.ConstantOp)
                                                    for o in op.operands):
                a, b = (o.op.value.value.data for o in op.operands)
                w = 64 if op.lhs.type.name == "index" else op.lhs.type.width.data
                canon = all(-(1 << (w - 1)) <= x < (1 << (w - 1)) for x in (a, b))
                if op.predicate.value.data >= 6 and ((a < 0) != (b < 0) or not canon):
                    probe.hits.add("C14-kf-4")
            return probe.orig_match(self_, op, rewriter)

        cfi.ConstantFoldInterpPattern.match_and_rewrite = match
        return self

    def __exit__(self, *a):
        self.cfi.ConstantFoldInterpPattern.match_and_rewrite = self.orig_match


def classify_exception(pass_name, e, probe):
    """known-finding id for an exception escaping a pass.  The classes that used to be listed here
    (C14-kf-2/3 constant-fold-interp aborting, C14-kf-5 f32 overflow in canonicalize, C14-kf-6/7 test folding)
    are FIXED: an exception escaping canonicalize, constant-fold-interp or cse is never suppressed."""
    return None


def eval_all(module, inputs, types):
    outs = []
    for inp in inputs:
        try:
            outs.append(ref.run_func(module, "main", inp))
        except ref.Excluded as e:
            outs.append(("excluded", str(e)))
        except ref.Unsupported as e:
            outs.append(("unsupported", str(e)))
    return outs


def canon_trace(trace):
    return [t for t in trace]


def run_pass(case, pass_name):
    """-> [status, detail...]; status 0 unchanged, 1 changed+equal, -1 raised, -2 mismatch, -3 evaluator cannot judge"""
    from harness.props.c14 import parse_module, pass_by_name, xctx
    m0 = parse_module(case["text"])
    main = [o for o in m0.body.block.ops if o.name == "func.func" and o.sym_name.data == "main"][0]
    rtypes = list(main.function_type.outputs.data)
    before = eval_all(m0, case["inputs"], rtypes)
    m1 = parse_module(case["text"])
    txt0 = str(m1)
    with Probe() as probe:
        try:
            pass_by_name(pass_name).apply(xctx(), m1)
            m1.verify()
        except Exception as e:
            kid = classify_exception(pass_name, e, probe)
            return [-1, exc_code(e), kid or "", f"{type(e).__name__}: {str(e)[:120]}"]
    changed = str(m1) != txt0
    after = eval_all(m1, case["inputs"], rtypes)
    judged = 0
    for inp, b, a in zip(case["inputs"], before, after):
        if b[0] in ("excluded",):
            continue
        if b[0] == "ok" and a[0] == "unsupported" and "undefined value" in a[1]:
            # the transformed program reads a value that is not defined on the executed path (a use that its
            # definition does not dominate): the pass broke the program even though the verifier accepts it
            return [-2, 0, "", f"inputs {inp}: after the pass the program reads an undefined value; before {b[:3]}"[:300]]
        if b[0] == "unsupported" or a[0] == "unsupported":
            return [-3, 0, "", (b if b[0] == "unsupported" else a)[1][:80]]
        judged += 1
        same = (a[0] == b[0] and a[2] == b[2]
                and (b[1] is None or ref.same_float_aware(rtypes, b[1], a[1] if a[1] is not None else [])))
        if a[0] == "excluded":
            same = False
        if not same:
            kid = sorted(probe.hits)[0] if probe.hits else ""
            return [-2, 0, kid, f"inputs {inp}: before {b[:3]} after {a[:3]}"[:300]]
    return [1 if changed else 0, judged, "", ""]


PROG_PASSES = ["canonicalize", "constant-fold-interp", "cse"]


def impl(case):
    out = []
    for p in PROG_PASSES:
        r = run_pass(case, p)
        # strings are not part of the canonical result; keep codes only (+ the text for the oracle message)
        out.append(r)
    return out


def holds(case, res):
    for p, r in zip(PROG_PASSES, res):
        if r[0] == -1:
            return False, f"pass {p} raised on a valid program: {r[3]}"
        if r[0] == -2:
            return False, f"pass {p} changed the observable behaviour: {r[3]}"
    return True, ""


def known(case, res):
    ids = []
    for p, r in zip(PROG_PASSES, res):
        if r[0] in (-1, -2):
            if not r[2]:
                return None
            ids.append(r[2])
    return ids[0] if ids else None


def nontrivial(case, res):
    if any(r[0] == 1 and r[1] > 0 for r in res):
        import zlib
        return zlib.crc32(case["text"].encode())
    return None
