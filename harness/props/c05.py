"""C05 -- Custom assembly formats round-trip for every registered operation.

Tie (two mechanisms): (T) a TRANSLATOR regenerates coq/Gen/C05_formats.v on every run: every
registered IRDL operation with a declarative `assembly_format` is asked for its parsed FormatProgram
(the real declarative_assembly_format_parser), and the directive tree + the facts of the OpDef the
directives look at (operand/result kinds and the shape of their type constraints, property/attribute
definitions with defaults, segment options) + the first-token class the REAL parser assigns to every
literal are serialised as Coq terms; a format that uses anything outside the modelled directive
subset is counted and listed as uncovered.  Props/C05.v then proves `fmt_ok` of every regenerated
format that passes the checker (vm_compute) and the soundness theorem of the checker.
(C) CORRESPONDENCE of the hand-written token-level interpreter coq/C05/Model.v with the real
print/parse: for instances of every covered operation taken from the verified .mlir corpus and
mutated (variadic lengths, optional operands dropped/added, default-valued and unit properties
toggled, extra attr-dict entries) the real custom printing, lexed with the real MLIR lexer, must be
the model's token stream (opaque attribute/type tokens expanded to their real lexemes), and the real
parse of that text (fresh Context, with a following operation in the block) must give the instance
the model's parser gives -- or both must fail.
ORACLE (independent of the model): real custom print -> real parse (fresh Context) -> structurally
equivalent to the original; generic print -> parse -> equivalent; for the generated instances of
declarative-format operations AND for every verified chunk of the .mlir corpus as a whole (all
operations, including the hand-written print/parse overrides, which are NOT modelled and NOT claimed
as proved).
VALUES (oracle only): on every operation with a custom format (declarative, covered or not, and
hand-written) that holds an integer dense array treated as plain data by its format, a symbol name or
a symbol reference, the value is replaced in place in its verified corpus module by boundary values
(negative / MIN / MAX / 0 elements, booleans for i1; symbol names with non-ASCII letters and digits,
spaces, punctuation, empty, keyword-like, leading digits, quotes, backslashes), the module is
re-verified and round-tripped as a whole (modules that do not round-trip unmutated are family B's).
The same value mutations are part of the generated instances of the covered operations (model + oracle).
Non-trivial: a case whose operation has an optional group, a variadic/optional operand or result, a
default-valued or unit property, or an inferred type; distinct = (operation, shape of the instance).
"""
from __future__ import annotations

import hashlib
import inspect
import io
import json
import re
import time
from pathlib import Path

from harness.common import (COQ, REPO, Ctx, ModelUnavailable, Untranslatable, coq_Z, replay_findings,
                            to_jsonable, write_if_changed)

META = {
    "id": "C05",
    "title": "Custom assembly formats round-trip for every registered operation",
    "design_ref": "DESIGN.md section 8.C05",
    "technique": "Coq token-level interpreter of the declarative assembly format + proved round-trip checker run over "
                 "the regenerated formats of all registered ops + model-vs-code correspondence + print/parse oracle",
    "level_text": (
        "PARTIAL. Proved (coq/Props/C05.v, all closed under the global context): C05_sound -- for EVERY operation "
        "definition and EVERY format of the modelled directive subset (punctuation/keyword literals, whitespace "
        "(dropped: prints no token), $operand single/variadic/optional, `operands`, type($x)/type(operands)/"
        "type(results), functional-type(a, b), attr-dict with and without keyword (reserved names, properties printed "
        "in the dictionary, default-valued entries elided), $attr/$prop variables in full syntax, in the short syntax "
        "of UniqueBase/Typed/DenseArray/SymbolName variables (qualified = full syntax) with and without default-value "
        "elision, unit-attribute properties, anchored optional groups without else-branch; inference of unprinted "
        "types from constant constraints and from top-level VarConstraint variables) that passes the decidable checker "
        "fmt_ok, every well-formed instance (inst_ok) that satisfies three side conditions (side_ok) and every admissible "
        "following token: parse(print(instance) ++ rest) consumes exactly the printed tokens and returns an instance "
        "with the same operands, operand types and result types and dictionaries equal up to declared defaults. "
        "C05_formats_checked / C05_roundtrip_registered: fmt_ok holds (vm_compute) for every format REGENERATED from "
        "the registered operations of the working tree on each run, except a listed handful (evidence: "
        "formats_not_shown). The three side conditions and two of the not-shown formats are shown necessary/ambiguous by "
        "refutation theorems on the regenerated formats (C05_funty_refuted, C05_dropped_attr_refuted, C05_clash_refuted, "
        "C05_trailing_optional_refuted, C05_optional_attr_before_dict_refuted); each is a known finding reproduced on the "
        "real code. The model is tied to xdsl/irdl/declarative_assembly_format.py by (T) the translator (formats, "
        "definition facts and first-token classes are asked from xDSL itself every run) and (C) the correspondence of "
        "printed token streams and parse results on corpus instances and their mutations for every covered operation "
        "that occurs in the verified corpus. NOT proved, oracle only: the hand-written print/parse overrides, custom "
        "directives, region/successor variables, nested optional groups (counted and listed as uncovered), and the "
        "generic form (C04)."),
    "level_note": (
        "Trusted: Coq kernel; the hand-written model coq/C05/Model.v and the abstraction it rests on (attributes, types "
        "and SSA names are opaque tokens whose own text round-trips -- C04/C06 --, observed only through the class of "
        "their first lexeme, which is measured on the real parser; an attribute dictionary is one token; token-level: "
        "lexeme merging through the empty-whitespace directive is checked by the correspondence only); the translator "
        "harness/props/c05.py (constraint classification TCConst/TCVar/TCAny/TCOther; operations whose unprinted types "
        "need any other inference are counted as uncovered); the harness. Instances of the correspondence come from the "
        "verified .mlir corpus and single-step mutations re-verified in place; 12 covered operations have no corpus "
        "instance (listed). The oracle treats a name that is absent as equal to its declared default value."),
}
COQ_TARGETS = ["Gen/C05_formats.vo", "C05/Enc.vo", "C05/Proofs.vo", "C05/ProofsWit.vo", "Props/C05.vo"]
REQ = ["C05.Model", "C05.Check", "C05.Enc", "Gen.C05_formats"]
ASSUMPTIONS = [
    "the text of an attribute, type or SSA name printed inside an operation parses back to the same object (C04, C06)",
    "an operation is followed in its block by a %result, a bare operation name, a quoted operation name, `}` or a block "
    "label (a terminator only by `}` or a block label)",
    "instances: no discardable attribute named like a reserved-but-unprinted dictionary name or like a property printed "
    "in the dictionary; no lone function-typed result under functional-type on the unrepaired printer (side_ok; each "
    "exclusion is a known finding)",
]
TRUSTED = [
    "first-token classes (starts a type / an attribute / `(` `{` `[` @) of every literal and value are measured by "
    "probing the real parser's parse_optional_type / parse_optional_attribute on that token",
    "xDSL's own FormatProgram.from_str, OpDef, constraint API (variables(), can_infer(), infer()) as used by the translator",
]

GEN_FILE = COQ / "Gen" / "C05_formats.v"

# ------------------------------------------------------------------------------------------------
# registry


class Unsupported(Exception):
    """the format / definition uses something outside the modelled subset (reason = args[0])"""


_REG = None


def registered_ops():
    """op name -> class, for every operation of every registered dialect (first registration wins)"""
    global _REG
    if _REG is None:
        from xdsl.dialects import get_all_dialects
        _REG = {}
        for dn, f in sorted(get_all_dialects().items()):
            try:
                d = f()
            except BaseException:
                continue
            for op in d.operations:
                _REG.setdefault(op.name, op)
    return _REG


def op_class_kind(cls) -> str:
    """'declarative' | 'hand-written' | 'generic'"""
    from xdsl.ir import Operation
    from xdsl.irdl import IRDLOperation
    if issubclass(cls, IRDLOperation):
        try:
            if cls.get_irdl_definition().assembly_format is not None:
                return "declarative"
        except BaseException:
            pass
    if cls.print is not Operation.print or cls.parse.__func__ is not Operation.parse.__func__:
        return "hand-written"
    return "generic"


_MLCTX = None


def new_context():
    from xdsl.context import Context
    from xdsl.dialects import get_all_dialects
    c = Context(allow_unregistered=True)
    for name, factory in get_all_dialects().items():
        c.register_dialect(name, factory)
    return c


def shared_context():
    global _MLCTX
    if _MLCTX is None:
        _MLCTX = new_context()
    return _MLCTX


# ------------------------------------------------------------------------------------------------
# first-token classes, measured on the real lexer / parser

LEADS = ["LNone", "LAttr", "LType", "LParen", "LBrace", "LSquare", "LAt"]
_LEAD_CACHE: dict[str, str] = {}


def lex_texts(text: str) -> list[str]:
    """token texts of `text` under the real MLIR lexer"""
    from xdsl.utils.lexer import Input
    from xdsl.utils.mlir_lexer import MLIRLexer, MLIRTokenKind
    lx = MLIRLexer(Input(text, "<c05>"))
    out = []
    while True:
        t = lx.lex()
        if t.kind == MLIRTokenKind.EOF:
            return out
        out.append(t.text)


def first_token(text: str):
    from xdsl.utils.lexer import Input
    from xdsl.utils.mlir_lexer import MLIRLexer
    return MLIRLexer(Input(text, "<c05>")).lex()


def lead_of_token_text(tok_text: str) -> str:
    """class of one token: asks the real parser whether parse_optional_type / parse_optional_attribute
    commit on it (return something or raise) or decline (None, nothing consumed)"""
    if tok_text in _LEAD_CACHE:
        return _LEAD_CACHE[tok_text]
    from xdsl.parser import Parser
    from xdsl.utils.mlir_lexer import MLIRTokenKind
    tk = first_token(tok_text)
    if tk.kind == MLIRTokenKind.L_PAREN:
        r = "LParen"
    elif tk.kind == MLIRTokenKind.L_BRACE:
        r = "LBrace"
    elif tk.kind == MLIRTokenKind.L_SQUARE:
        r = "LSquare"
    elif tk.kind == MLIRTokenKind.AT_IDENT:
        r = "LAt"
    elif tk.kind == MLIRTokenKind.EOF:
        r = "LNone"
    else:
        def commits(fn_name):
            p = Parser(shared_context(), tok_text)
            try:
                v = getattr(p, fn_name)()
            except BaseException:
                return True
            return v is not None
        if commits("parse_optional_type"):
            r = "LType"
        elif commits("parse_optional_attribute"):
            r = "LAttr"
        else:
            r = "LNone"
    _LEAD_CACHE[tok_text] = r
    return r


def lead_of_text(text: str) -> str:
    """class of the first token of a printed piece ('' -> LNone)"""
    tk = first_token(text)
    return lead_of_token_text(tk.text) if tk.text else "LNone"


def attr_text(a) -> str:
    from xdsl.printer import Printer
    s = io.StringIO()
    Printer(stream=s).print_attribute(a)
    return s.getvalue()


# ------------------------------------------------------------------------------------------------
# translator: OpDef + FormatProgram -> model terms (python structures, then Coq text)


def _kind(d) -> str:
    from xdsl.irdl import OptionalDef, VariadicDef
    return "KOpt" if isinstance(d, OptionalDef) else "KVar" if isinstance(d, VariadicDef) else "KSingle"


class OpInfo:
    """everything the model needs about one operation; constants (types inferred from constraints,
    default values, unit values) get the av ids 1..len(consts)"""

    def __init__(self, name, cls):
        self.name, self.cls = name, cls
        self.od = cls.get_irdl_definition()
        self.consts: list = []         # attribute objects, id = index + 1
        self.operands: list = []       # (kind, tyc)
        self.results: list = []
        self.props: list = []          # (name, optional, default_const_id|None, unit_const_id|None)
        self.attrs: list = []
        self.hidden: list[str] = []        # segment-size ATTRIBUTE names (recomputed by build)
        self.hidden_props: list[str] = []  # segment-size PROPERTY names
        self.fmt: list = []            # directive terms
        self.short_names: dict = {}    # (isprop, name) -> directive object printing the short form
        self.vars: dict[str, int] = {}
        self.features: set[str] = set()

    def const_id(self, a, owner=None) -> int:
        """owner = (isprop, name) of the attribute definition holding the value (None for a type):
        the short syntax of a value depends on the variable that prints it"""
        if owner not in self.short_names:
            owner = None
        for i, c in enumerate(self.consts):
            if c == (a, owner):
                return i + 1
        self.consts.append((a, owner))
        return len(self.consts)

    def var_id(self, name: str) -> int:
        return self.vars.setdefault(name, len(self.vars) + 1)


def classify_constraint(info: OpInfo, constr):
    """tyc of an operand/result definition's range constraint"""
    from xdsl.irdl import ConstraintContext
    from xdsl.irdl import constraints as C
    if not isinstance(constr, (C.SingleOf, C.RangeOf)):
        return ("TCOther",)
    c = constr.constr
    try:
        vs = c.variables()
        if isinstance(c, C.VarConstraint):
            inner = c.constraint
            if not inner.variables() and not inner.can_infer(set()):
                return ("TCVar", info.var_id(c.name))
            return ("TCOther",)
        if not vs:
            if c.can_infer(set()):
                return ("TCConst", info.const_id(c.infer(ConstraintContext())))
            return ("TCAny",)
    except BaseException:
        return ("TCOther",)
    return ("TCOther",)


def translate_op(name, cls) -> OpInfo:
    """raises Unsupported(reason) when the operation is outside the modelled subset"""
    from xdsl.dialects.builtin import UnitAttr
    from xdsl.irdl import (AttrSizedOperandSegments, AttrSizedResultSegments, AttrSizedSegments, OptionalDef,
                           SameVariadicOperandSize, SameVariadicResultSize)
    from xdsl.irdl import declarative_assembly_format as D
    info = OpInfo(name, cls)
    od = info.od
    prog = D.FormatProgram.from_str(od.assembly_format, od)
    info.prog = prog
    from xdsl.traits import IsTerminator
    info.terminator = bool(cls.has_trait(IsTerminator))
    if od.regions or od.successors:
        raise Unsupported("regions/successors")
    def prepass(x):
        if isinstance(x, D.OptionalGroupDirective):
            for y in (x.then_first, *x.then_elements, *x.else_elements):
                prepass(y)
        elif type(x) in (D.UniqueBaseAttributeVariable, D.TypedAttributeVariable, D.DenseArrayAttributeVariable,
                         D.SymbolNameAttributeVariable):
            info.short_names[(bool(x.is_property), x.name)] = x
    for s_ in prog.stmts:
        prepass(s_)
    for n, d in od.operands:
        info.operands.append((_kind(d), classify_constraint(info, d.constr)))
    for n, d in od.results:
        info.results.append((_kind(d), classify_constraint(info, d.constr)))
    for opt in od.options:
        if isinstance(opt, AttrSizedSegments):
            (info.hidden_props if opt.as_property else info.hidden).append(opt.attribute_name)
    seg_o = [o for o in od.options if isinstance(o, (AttrSizedOperandSegments, SameVariadicOperandSize))]
    seg_r = [o for o in od.options if isinstance(o, (AttrSizedResultSegments, SameVariadicResultSize))]

    def adef(n, d, isprop):
        bases = d.constr.get_bases()
        unit = info.const_id(UnitAttr(), (isprop, n)) if bases is not None and bases == {UnitAttr} else None
        dv = None if d.default_value is None else info.const_id(d.default_value, (isprop, n))
        return (n, isinstance(d, OptionalDef), dv, unit)
    for n, d in od.properties.items():
        if n in info.hidden_props:
            continue
        info.props.append(adef(n, d, True))
    for n, d in od.attributes.items():
        if n in info.hidden:
            continue
        info.attrs.append(adef(n, d, False))

    def src_of(x):
        if isinstance(x, D.OperandsDirective):
            if sum(k != "KSingle" for k, _ in info.operands) > 1 or seg_o:
                raise Unsupported("`operands` with several variadic definitions / segment option")
            info.features.add("operands-directive")
            return ("SOperands",)
        if isinstance(x, D.ResultsDirective):
            if sum(k != "KSingle" for k, _ in info.results) > 1 or seg_r:
                raise Unsupported("`results` with several variadic definitions / segment option")
            info.features.add("results-directive")
            return ("SResults",)
        if isinstance(x, (D.OperandVariable, D.VariadicOperandVariable, D.OptionalOperandVariable)):
            return ("SOperand", x.index)
        if isinstance(x, (D.ResultVariable, D.VariadicResultVariable, D.OptionalResultVariable)):
            return ("SResult", x.index)
        raise Unsupported(f"typeable {type(x).__name__}")

    def attr_elem(x):
        owner = (bool(x.is_property), x.name)
        dv = None if x.default_value is None else info.const_id(x.default_value, owner)
        if type(x) is D.OptionalUnitAttrVariable:
            k = ("AKUnit", info.const_id(UnitAttr(), owner))
            info.features.add("unit-attr")
        elif type(x) is D.AttributeVariable:
            k = ("AKGeneric",)
        elif type(x) in (D.UniqueBaseAttributeVariable, D.TypedAttributeVariable):
            k = ("AKShort", None)
        elif type(x) is D.DenseArrayAttributeVariable:
            k = ("AKShort", "LSquare")
        elif type(x) is D.SymbolNameAttributeVariable:
            k = ("AKShort", "LAt")
        else:
            raise Unsupported(f"attribute variable {type(x).__name__}")
        if dv is not None:
            info.features.add("default-valued")
        return ("EAttr", x.name, bool(x.is_property), k, bool(x.is_optional), dv)

    def elem(x):
        """-> elem term, or None for whitespace"""
        if isinstance(x, D.WhitespaceDirective):
            return None
        if isinstance(x, D.PunctuationDirective):
            return ("ELit", x.punctuation, lead_of_token_text(x.punctuation))
        if isinstance(x, D.KeywordDirective):
            return ("ELit", x.keyword, lead_of_token_text(x.keyword))
        if isinstance(x, D.AttrDictDirective):
            return ("EAttrDict", bool(x.with_keyword), sorted(x.reserved_attr_names), sorted(x.expected_properties))
        if isinstance(x, D.OperandsDirective):
            return ("EVals", src_of(x))
        if isinstance(x, (D.OperandVariable, D.VariadicOperandVariable, D.OptionalOperandVariable)):
            return ("EVals", src_of(x))
        if isinstance(x, D.TypeDirective):
            return ("ETypes", src_of(x.inner))
        if isinstance(x, D.FunctionalTypeDirective):
            info.features.add("functional-type")
            return ("EFunTy", src_of(x.operand_typeable_directive), src_of(x.result_typeable_directive))
        if isinstance(x, D.AttributeVariable):
            return attr_elem(x)
        if isinstance(x, D.OptionalGroupDirective):
            raise Unsupported("nested optional group")
        raise Unsupported(f"directive {type(x).__name__}")

    def anchor(x):
        if isinstance(x, D.TypeDirective):
            return ("AnTypes", src_of(x.inner))
        if isinstance(x, D.AttributeVariable):
            return ("AnAttr", x.name, bool(x.is_property),
                    None if x.default_value is None else info.const_id(x.default_value, (bool(x.is_property), x.name)))
        if isinstance(x, (D.VariadicOperandVariable, D.OptionalOperandVariable, D.OperandsDirective)):
            return ("AnVals", src_of(x))
        raise Unsupported(f"anchor {type(x).__name__}")

    for s in prog.stmts:
        if isinstance(s, D.OptionalGroupDirective):
            if s.else_elements:
                raise Unsupported("optional group with else-branch")
            info.features.add("optional-group")
            first = elem(s.then_first)
            thens = [e for e in (elem(x) for x in s.then_elements) if e is not None]
            info.fmt.append(("DGroup", anchor(s.anchor), first, thens))
        else:
            e = elem(s)
            if e is not None:
                info.fmt.append(("DE", e))

    # inference: every unprinted position must be inferable by the MODEL's constraint abstraction
    printed_o, printed_r = set(), set()

    def note_types(s):
        if s[0] == "SOperand":
            printed_o.add(s[1])
        elif s[0] == "SResult":
            printed_r.add(s[1])
        elif s[0] == "SOperands":
            printed_o.update(range(len(info.operands)))
        else:
            printed_r.update(range(len(info.results)))

    def walk(e):
        if e[0] == "ETypes":
            note_types(e[1])
        elif e[0] == "EFunTy":
            note_types(e[1])
            note_types(e[2])
    for dterm in info.fmt:
        if dterm[0] == "DE":
            walk(dterm[1])
        else:
            walk(dterm[2])
            for e in dterm[3]:
                walk(e)
    other_vars = set()
    for (n, d), (k, c) in list(zip(od.operands, info.operands)) + list(zip(od.results, info.results)):
        if c[0] == "TCOther":
            try:
                other_vars |= set(d.constr.variables())
            except BaseException:
                raise Unsupported("constraint without variables()")
    for n, d in list(od.properties.items()) + list(od.attributes.items()):
        try:
            other_vars |= set(d.constr.variables())
        except BaseException:
            raise Unsupported("constraint without variables()")
    inv = {v: k for k, v in info.vars.items()}
    inferred = 0
    for idx, (k, c) in enumerate(info.operands):
        if idx not in printed_o:
            inferred += 1
            if c[0] not in ("TCConst", "TCVar") or (c[0] == "TCVar" and inv[c[1]] in other_vars):
                raise Unsupported("type inference outside the modelled constraint shapes")
    for idx, (k, c) in enumerate(info.results):
        if idx not in printed_r:
            inferred += 1
            if c[0] not in ("TCConst", "TCVar") or (c[0] == "TCVar" and inv[c[1]] in other_vars):
                raise Unsupported("type inference outside the modelled constraint shapes")
    if inferred:
        info.features.add("inferred-type")
    if any(k != "KSingle" for k, _ in info.operands + info.results):
        info.features.add("variadic/optional")
    return info


# ---- Coq text


def coq_str(s: str) -> str:
    assert all(32 <= ord(c) < 127 for c in s), s
    return '"' + s.replace('"', '""') + '"'


def coq_strs(l) -> str:
    return "[" + "; ".join(coq_str(x) for x in l) + "]"


def coq_av(i: int, full: str, short: str = "LNone") -> str:
    return f"(mkAv {coq_Z(i)} {full} {short})"


def coq_opt(x) -> str:
    return "None" if x is None else f"(Some {x})"


def coq_src(s) -> str:
    return f"({s[0]} {s[1]})" if len(s) == 2 else s[0]


class ConstTable:
    """av terms of the per-operation constants"""

    def __init__(self, info: OpInfo):
        self.info = info

    def av(self, cid: int, owner=None) -> str:
        a, owner = self.info.consts[cid - 1]
        d = self.info.short_names.get(owner) if owner else None
        short = "LNone" if d is None else lead_of_text(short_text(d, a))
        return coq_av(cid, lead_of_text(attr_text(a)), short)


def short_text(directive, a) -> str:
    from xdsl.printer import Printer
    s = io.StringIO()
    directive.print_attr(Printer(stream=s), a)
    return s.getvalue()


def coq_tyc(ct: ConstTable, c) -> str:
    if c[0] == "TCConst":
        return f"(TCConst {ct.av(c[1])})"
    if c[0] == "TCVar":
        return f"(TCVar {coq_Z(c[1])})"
    return c[0]


def coq_elem(ct: ConstTable, e) -> str:
    t = e[0]
    if t == "ELit":
        return f"ELit {coq_str(e[1])} {e[2]}"
    if t == "EAttrDict":
        return f"EAttrDict {'true' if e[1] else 'false'} {coq_strs(e[2])} {coq_strs(e[3])}"
    if t == "EVals":
        return f"EVals {coq_src(e[1])}"
    if t == "ETypes":
        return f"ETypes {coq_src(e[1])}"
    if t == "EFunTy":
        return f"EFunTy {coq_src(e[1])} {coq_src(e[2])}"
    if t == "EAttr":
        _, name, isprop, k, optional, dv = e
        if k[0] == "AKUnit":
            ks = f"(AKUnit {ct.av(k[1], (isprop, name))})"
        elif k[0] == "AKShort":
            ks = f"(AKShort {coq_opt(k[1])})"
        else:
            ks = "AKGeneric"
        dvs = coq_opt(None if dv is None else ct.av(dv, (isprop, name)))
        return f"EAttr {coq_str(name)} {'true' if isprop else 'false'} {ks} {'true' if optional else 'false'} {dvs}"
    raise AssertionError(e)


def coq_anchor(ct: ConstTable, a) -> str:
    if a[0] == "AnAttr":
        dvs = coq_opt(None if a[3] is None else ct.av(a[3], (a[2], a[1])))
        return f"(AnAttr {coq_str(a[1])} {'true' if a[2] else 'false'} {dvs})"
    return f"({a[0]} {coq_src(a[1])})"


def coq_format(info: OpInfo) -> str:
    ct = ConstTable(info)
    parts = []
    for d in info.fmt:
        if d[0] == "DE":
            parts.append(f"DE ({coq_elem(ct, d[1])})")
        else:
            thens = "[" + "; ".join(f"({coq_elem(ct, e)})" if " " in coq_elem(ct, e) else coq_elem(ct, e) for e in d[3]) + "]"
            parts.append(f"DGroup {coq_anchor(ct, d[1])} ({coq_elem(ct, d[2])}) {thens}")
    return "[" + ";\n   ".join(parts) + "]"


def coq_opdef(info: OpInfo) -> str:
    ct = ConstTable(info)

    def vdefs(l):
        return "[" + "; ".join(f"mkVdef {k} {coq_tyc(ct, c)}" for k, c in l) + "]"

    def adefs(l, isprop):
        out = []
        for n, optional, dv, unit in l:
            out.append(f"mkAdef {coq_str(n)} {'true' if optional else 'false'} "
                       f"{coq_opt(None if dv is None else ct.av(dv, (isprop, n)))} "
                       f"{coq_opt(None if unit is None else ct.av(unit, (isprop, n)))}")
        return "[" + "; ".join(out) + "]"
    return (f"mkOpdef {vdefs(info.operands)}\n   {vdefs(info.results)}\n   {adefs(info.props, True)}\n   "
            f"{adefs(info.attrs, False)}\n   {coq_strs(info.hidden)} {'true' if info.terminator else 'false'}")


def coq_comment(s: str) -> str:
    """a Coq comment that cannot open a string or a nested comment"""
    s = s.replace('"', "'").replace("(*", "( *").replace("*)", "* )").replace("\n", " ")
    return "(* " + "".join(c if 32 <= ord(c) < 127 else "?" for c in s) + " *)"


_TRANSLATED = None


def translate_all():
    """-> (covered: name -> OpInfo (ordered), uncovered: name -> reason, classes: name -> kind)"""
    global _TRANSLATED
    if _TRANSLATED is not None:
        return _TRANSLATED
    covered, uncovered, classes = {}, {}, {}
    for name, cls in sorted(registered_ops().items()):
        k = op_class_kind(cls)
        classes[name] = k
        if k != "declarative":
            continue
        try:
            covered[name] = translate_op(name, cls)
        except Unsupported as e:
            uncovered[name] = str(e.args[0])
        except BaseException as e:      # fail closed: anything unexpected makes the op uncovered, and is listed
            uncovered[name] = f"translator error: {type(e).__name__}: {e}"[:200]
    for k, (name, info) in enumerate(covered.items()):
        info.index = k
    _TRANSLATED = (covered, uncovered, classes)
    return _TRANSLATED


def gen_text() -> str:
    covered, uncovered, classes = translate_all()
    out = ["(* GENERATED by harness/props/c05.py (translator) from the FormatProgram of every registered",
           "   IRDL operation of /repo's working tree -- do not edit; regenerated on every run. *)",
           "From Coq Require Import ZArith String List.",
           "From XV Require Import C05.Model.",
           "Import ListNotations.",
           "Local Open Scope string_scope.",
           "Local Open Scope list_scope.", ""]
    for name, info in covered.items():
        k = info.index
        out.append(coq_comment(f"{name}: {info.od.assembly_format}"))
        out.append(f"Definition od_{k} : opdef :=\n  {coq_opdef(info)}.")
        out.append(f"Definition fmt_{k} : format :=\n  {coq_format(info)}.")
    out.append("")
    out.append("Definition all_formats : list (string * (opdef * format)) :=\n  [" +
               ";\n   ".join(f"({coq_str(n)}, (od_{i.index}, fmt_{i.index}))" for n, i in covered.items()) + "].")
    out.append("")
    return "\n".join(out) + "\n"


def generate(ctx: Ctx):
    covered, uncovered, classes = translate_all()
    if not covered:
        raise Untranslatable("no declarative format could be translated")
    write_if_changed(GEN_FILE, gen_text())


# ------------------------------------------------------------------------------------------------
# corpus

_CORPUS = None


def corpus_chunks():
    """every chunk of every .mlir file under /repo/tests that parses and verifies:
    list of (relative path, chunk index, text)"""
    global _CORPUS
    if _CORPUS is not None:
        return _CORPUS
    from xdsl.parser import Parser
    out, stats = [], {"files": 0, "chunks": 0, "parse": 0, "verified": 0}
    ctx = shared_context()
    for f in sorted((REPO / "tests").rglob("*.mlir")):
        stats["files"] += 1
        try:
            text = f.read_text()
        except Exception:
            continue
        for ci, ch in enumerate(text.split("// -----")):
            stats["chunks"] += 1
            try:
                m = Parser(ctx, ch).parse_module()
            except BaseException:
                continue
            stats["parse"] += 1
            try:
                m.verify()
            except BaseException:
                continue
            stats["verified"] += 1
            out.append((str(f.relative_to(REPO)), ci, ch, m))
    _CORPUS = (out, stats)
    return _CORPUS


# ------------------------------------------------------------------------------------------------
# real instances <-> model instances


def segs_of(op, defs):
    """per definition: list of values (operands) / results, through the real accessors"""
    out = []
    for n, _ in defs:
        v = getattr(op, n)
        if v is None:
            out.append([])
        elif isinstance(v, (list, tuple)) or hasattr(v, "__iter__") and not hasattr(v, "type"):
            out.append(list(v))
        else:
            out.append([v])
    return out


class Table:
    """attribute values of one case <-> ids.  Key = (attribute, short text or None): ids 1..m are the
    operation's constants (as in the generated Coq file), others get 100, 101, ..."""

    def __init__(self, info: OpInfo):
        self.info = info
        self.keys = []          # (attr, short_text|None) for ids >= 100
        self.consts = [(a, self._short(owner, a)) for a, owner in info.consts]

    def _short(self, owner, a):
        d = self.info.short_names.get(owner) if owner else None
        if d is None:
            return None
        try:
            return short_text(d, a)
        except BaseException:
            return "<unprintable>"

    def id_of(self, a, owner=None) -> int:
        key = (a, self._short(owner, a))
        for i, k in enumerate(self.consts):
            if k == key:
                return i + 1
        for i, k in enumerate(self.keys):
            if k == key:
                return 100 + i
        self.keys.append(key)
        return 100 + len(self.keys) - 1

    def entry(self, i: int):
        return self.consts[i - 1] if i < 100 else self.keys[i - 100]

    def coq_av(self, i: int) -> str:
        a, short = self.entry(i)
        return coq_av(i, lead_of_text(attr_text(a)), "LNone" if short is None else lead_of_text(short))


def abstract_op(info: OpInfo, op, table: Table, val_id) -> dict:
    """model instance of a real operation (hidden segment-size names stripped)"""
    od = info.od
    return {
        "operands": [[[val_id(v), table.id_of(v.type)] for v in seg] for seg in segs_of(op, od.operands)],
        "results": [[table.id_of(r.type) for r in seg] for seg in segs_of(op, od.results)],
        "props": [[n, table.id_of(a, (True, n))] for n, a in op.properties.items() if n not in info.hidden_props],
        "attrs": [[n, table.id_of(a, (False, n))] for n, a in op.attributes.items() if n not in info.hidden],
    }


def coq_inst(inst: dict, table: Table) -> str:
    def dct(l):
        return "[" + "; ".join(f"({coq_str(n)}, {table.coq_av(a)})" for n, a in l) + "]"
    ops = "[" + "; ".join("[" + "; ".join(f"({coq_Z(v)}, {table.coq_av(t)})" for v, t in seg) + "]"
                          for seg in inst["operands"]) + "]"
    res = "[" + "; ".join("[" + "; ".join(table.coq_av(t) for t in seg) + "]" for seg in inst["results"]) + "]"
    return f"(mkInst {ops} {res} {dct(inst['props'])} {dct(inst['attrs'])})"


FOLLOWERS = ["end", "val", "str", "kw"]
FOLLOW_COQ = {
    "end": '[TLit "}" LNone]',
    "val": '[TVal 999%Z; TLit "=" LNone]',
    "str": '[TLit "str.follower" LAttr; TLit "(" LParen]',
    "kw": '[TLit "func.return" LNone]',
}


class HookPrinter:
    """Printer that records the text span of one operation"""

    @staticmethod
    def make(stream, target, generic=False):
        from xdsl.printer import Printer

        class P(Printer):
            span = None

            def print_op(self, op):
                if op is target:
                    a = self.stream.tell()
                    super().print_op(op)
                    P.span = (a, self.stream.tell())
                else:
                    super().print_op(op)
        return P(stream=stream, print_generic_format=generic)


def host_module(op, follower: str):
    """a module holding a clone of `op` whose operands are block arguments %v0, %v1, ... of the
    same types, followed by the follower operation.  -> (module, clone, distinct values)"""
    from xdsl.dialects import builtin, func, test
    from xdsl.ir import Block, Region
    vals = list(dict.fromkeys(op.operands))
    block = Block(arg_types=[v.type for v in vals])
    for k, a in enumerate(block.args):
        a.name_hint = f"v{k}"
    new = op.clone(value_mapper=dict(zip(vals, block.args)), clone_name_hints=False)
    for r in new.results:
        r.name_hint = None
    block.add_op(new)
    if follower == "val":
        block.add_op(test.TestOp(result_types=[builtin.i32]))
    elif follower == "str":
        block.add_op(test.TestOp())
    elif follower == "kw":
        block.add_op(func.ReturnOp())
    host = test.TestOp(regions=[Region(block)])
    return builtin.ModuleOp([host]), new, vals


def print_module(module, target, generic=False):
    s = io.StringIO()
    p = HookPrinter.make(s, target, generic)
    p.print_op(module)
    text = s.getvalue()
    span = type(p).span
    return text, (text[span[0]:span[1]] if span else None)


def parse_module_text(text):
    from xdsl.parser import Parser
    return Parser(new_context(), text).parse_module()


def hosted_op(module):
    host = module.body.block.first_op
    block = host.regions[0].block
    return block.first_op, block


def norm_dict(d: dict, defs) -> dict:
    """absent == declared default (for the definitions that have one)"""
    d = dict(d)
    for n, df in defs.items():
        if df.default_value is not None:
            d.setdefault(n, df.default_value)
    return d


def real_equiv(info: OpInfo, a, ablock, b, bblock) -> tuple[bool, str]:
    """statement-level comparison of two real operations hosted in two blocks (independent of the model)"""
    if a.name != b.name or type(a) is not type(b):
        return False, f"parsed back as {b.name}"
    ia = {v: k for k, v in enumerate(ablock.args)}
    ib = {v: k for k, v in enumerate(bblock.args)}
    if [ia.get(v, -1) for v in a.operands] != [ib.get(v, -2) for v in b.operands]:
        return False, "operands differ"
    if [v.type for v in a.operands] != [v.type for v in b.operands]:
        return False, "operand types differ"
    if [r.type for r in a.results] != [r.type for r in b.results]:
        return False, f"result types differ: {[str(r.type) for r in a.results]} vs {[str(r.type) for r in b.results]}"
    od = info.od if info is not None else None
    pa, pb = dict(a.properties), dict(b.properties)
    aa, ab = dict(a.attributes), dict(b.attributes)
    if od is not None:
        pa, pb = norm_dict(pa, od.properties), norm_dict(pb, od.properties)
        aa, ab = norm_dict(aa, od.attributes), norm_dict(ab, od.attributes)
    if pa != pb:
        return False, f"properties differ: {sorted(set(pa.items()) ^ set(pb.items()), key=str)[:2]}"
    if aa != ab:
        return False, f"attributes differ: {sorted(set(aa.items()) ^ set(ab.items()), key=str)[:2]}"
    if len(a.regions) != len(b.regions) or len(a.successors) != len(b.successors):
        return False, "regions/successors differ"
    return True, ""



# ------------------------------------------------------------------------------------------------
# boundary values for the attribute kinds that have their own short syntax in custom formats

SYM_VARIANTS = ["caf\u00e9", "gr\u00f6\u00dfe", "\u03c0", "x\u00b2", "a b", "a.b", "a-b", "a$b", "", "func", "i32", "true",
                "1abc", "42", "x\"y", "a\\b", "_", "A_z.9$"]


def dense_variants(a):
    """same-length DenseArrayBase values with negative / boundary elements, or [] when `a` is not an
    integer dense array"""
    from xdsl.dialects.builtin import DenseArrayBase, IntegerType
    if not isinstance(a, DenseArrayBase) or not isinstance(a.elt_type, IntegerType):
        return []
    w = a.elt_type.width.data
    n = len(a.get_values())
    if n == 0:
        return []
    if w == 1:
        pats = [[0], [1], [1, 0], [-1]]
    else:
        lo, hi = -(1 << (w - 1)), (1 << (w - 1)) - 1
        pats = [[-1], [0, -1], [lo], [hi], [lo, -1, 0, 1, hi], [0], [-2, 3]]
    out = []
    for pat in pats:
        vals = [pat[k % len(pat)] for k in range(n)]
        try:
            out.append(DenseArrayBase.from_list(a.elt_type, vals))
        except BaseException:
            continue
    return out


def value_variant(cur, kind, k):
    """the k-th variant of the current value, or None when not applicable"""
    from xdsl.dialects.builtin import StringAttr, SymbolRefAttr
    if kind == "dense":
        vs = dense_variants(cur)
        return vs[k % len(vs)] if vs else None
    if kind == "sym":
        name = SYM_VARIANTS[k % len(SYM_VARIANTS)]
        if isinstance(cur, StringAttr):
            return StringAttr(name)
        if isinstance(cur, SymbolRefAttr):
            return SymbolRefAttr(name, list(cur.nested_references.data)) if len(cur.nested_references.data) else SymbolRefAttr(name)
    return None


# ------------------------------------------------------------------------------------------------
# instance sources: the corpus + mutations

_INDEX = None


def corpus_index():
    """-> (instances: op name -> list of (chunk number, walk index), pools: (op name, prop name) -> values)"""
    global _INDEX
    if _INDEX is not None:
        return _INDEX
    chunks, _ = corpus_chunks()
    covered, _, _ = translate_all()
    inst, pools = {}, {}
    for cn, (_, _, _, m) in enumerate(chunks):
        for wi, op in enumerate(m.walk()):
            if op.name in covered:
                inst.setdefault(op.name, []).append((cn, wi))
                for n, a in op.properties.items():
                    pl = pools.setdefault((op.name, n), [])
                    if a not in pl and len(pl) < 8:
                        pl.append(a)
    _INDEX = (inst, pools)
    return _INDEX


def nth_op(module, wi):
    for k, op in enumerate(module.walk()):
        if k == wi:
            return op
    raise IndexError(wi)


class NotApplicable(Exception):
    pass


def mutate(info: OpInfo, op, steps):
    """-> a new (detached) operation of the same class built from `op` with the mutation steps applied
    (operands are the same SSA values); raises NotApplicable"""
    from xdsl.dialects.builtin import DenseArrayBase, IntegerAttr, UnitAttr, i32
    od = info.od
    osegs = segs_of(op, od.operands)
    rsegs = [[r.type for r in seg] for seg in segs_of(op, od.results)]
    props = {n: a for n, a in op.properties.items() if n not in info.hidden_props}
    attrs = {n: a for n, a in op.attributes.items() if n not in info.hidden}
    _, pools = corpus_index()
    for st in steps:
        if st[0] == "oper":
            _, di, n = st
            if di >= len(osegs) or info.operands[di][0] == "KSingle" or (info.operands[di][0] == "KOpt" and n > 1):
                raise NotApplicable
            seg = osegs[di]
            pool = seg or [v for s in osegs for v in s]
            if n > len(seg) and not pool:
                raise NotApplicable
            osegs[di] = (seg + [pool[-1]] * n)[:n] if seg else ([pool[0]] * n if n else [])
        elif st[0] == "res":
            _, di, n = st
            if di >= len(rsegs) or info.results[di][0] == "KSingle" or (info.results[di][0] == "KOpt" and n > 1):
                raise NotApplicable
            seg = rsegs[di]
            pool = seg or [t for s in rsegs for t in s] or [v.type for s in osegs for v in s]
            if n > len(seg) and not pool:
                raise NotApplicable
            rsegs[di] = (seg + [pool[-1]] * n)[:n] if seg else ([pool[0]] * n if n else [])
        elif st[0] == "prop":
            _, n, how = st
            if n not in od.properties:
                raise NotApplicable
            if how == "default":
                if od.properties[n].default_value is None:
                    raise NotApplicable
                props[n] = od.properties[n].default_value
            elif how == "drop":
                if n not in props:
                    raise NotApplicable
                del props[n]
            elif how == "unit":
                props[n] = UnitAttr()
            elif isinstance(how, list):
                nv = value_variant(props.get(n), how[0], how[1]) if n in props else None
                if nv is None or nv == props[n]:
                    raise NotApplicable
                props[n] = nv
            else:
                pl = pools.get((op.name, n), [])
                if not pl:
                    raise NotApplicable
                props[n] = pl[how % len(pl)]
        elif st[0] == "attr":
            if st[1] == "extra":
                attrs["c05_extra"] = IntegerAttr(7, i32)
            elif st[1] == "segsz":
                if "operandSegmentSizes" in info.hidden:
                    raise NotApplicable
                attrs["operandSegmentSizes"] = DenseArrayBase.from_list(i32, [len(s) for s in osegs])
            elif st[1] == "propname":
                names = sorted(n for n in od.properties if n not in info.hidden_props)
                if not names:
                    raise NotApplicable
                attrs[names[(st[2] if len(st) > 2 else 0) % len(names)]] = IntegerAttr(7, i32)
            else:
                raise NotApplicable
        else:
            raise NotApplicable
    try:
        return info.cls.build(operands=osegs, result_types=rsegs, properties=props, attributes=attrs)
    except BaseException:
        raise NotApplicable


def instance_for(case):
    """-> (info, detached-or-attached op to host, verified?)  The op lives in (a clone of) its corpus module;
    `verified` is module.verify() after the mutation."""
    covered, _, _ = translate_all()
    chunks = corpus_chunks()[0] if case.get("src") is None else None
    info = covered[case["op"]]
    cn, wi = case["at"]
    if case.get("src") is not None:         # self-contained witness: the module text travels with the case
        from xdsl.parser import Parser
        m = Parser(new_context(), case["src"]).parse_module()
        m.verify()
    else:
        m = chunks[cn][3]
    if nth_op(m, wi).name != case["op"]:
        raise NotApplicable(f"operation {wi} of the module is {nth_op(m, wi).name}, not {case['op']}")
    if not case["mut"]:
        return info, nth_op(m, wi), True
    m2 = m.clone()
    old = nth_op(m2, wi)
    new = mutate(info, old, case["mut"])
    from xdsl.rewriter import Rewriter
    blk = old.parent
    if blk is None:
        raise NotApplicable
    blk.insert_op_before(new, old)
    if len(new.results) == len(old.results):
        for a, b in zip(old.results, new.results):
            a.replace_all_uses_with(b)
    elif any(r.first_use is not None for r in old.results):
        raise NotApplicable
    blk.erase_op(old)
    try:
        m2.verify()
        ok = True
    except BaseException:
        ok = False
    return info, new, ok


def mutation_menu(info: OpInfo):
    """every single-step mutation that makes sense for the operation"""
    out = []
    for di, (k, _) in enumerate(info.operands):
        if k == "KVar":
            out += [[["oper", di, n]] for n in (0, 1, 2, 3)]
        elif k == "KOpt":
            out += [[["oper", di, n]] for n in (0, 1)]
    for di, (k, _) in enumerate(info.results):
        if k == "KVar":
            out += [[["res", di, n]] for n in (0, 1, 2)]
        elif k == "KOpt":
            out += [[["res", di, n]] for n in (0, 1)]
    for n, optional, dv, unit in info.props:
        if dv is not None:
            out.append([["prop", n, "default"]])
        if unit is not None:
            out.append([["prop", n, "unit"]])
        if optional or dv is not None:
            out.append([["prop", n, "drop"]])
        out += [[["prop", n, k]] for k in range(3)]
        kind = value_kind(info, n)
        if kind == "dense":
            out += [[["prop", n, ["dense", k]]] for k in range(7)]
        elif kind == "sym":
            out += [[["prop", n, ["sym", k]]] for k in range(len(SYM_VARIANTS))]
    out.append([["attr", "extra"]])
    out.append([["attr", "segsz"]])
    for k in range(min(3, len(info.props))):
        out.append([["attr", "propname", k]])
    return out


def value_kind(info: OpInfo, n: str):
    """'dense' / 'sym' when the property is a dense integer array / a symbol name or reference"""
    from xdsl.dialects.builtin import DenseArrayBase, StringAttr, SymbolRefAttr
    from xdsl.irdl import declarative_assembly_format as D
    d = info.short_names.get((True, n))
    if isinstance(d, D.DenseArrayAttributeVariable):
        return "dense"
    if isinstance(d, D.SymbolNameAttributeVariable):
        return "sym"
    try:
        bases = info.od.properties[n].constr.get_bases()
    except BaseException:
        bases = None
    if bases == {DenseArrayBase}:
        return "dense"
    if bases == {SymbolRefAttr} or (bases == {StringAttr} and n == "sym_name"):
        return "sym"
    return None


# ------------------------------------------------------------------------------------------------
# one case on the real code


def run_real(case):
    """-> dict: verified, tokens (real lexemes of the custom format part), table, inst (model instance),
    parsed (model instance of the real parse, or None), oracle verdicts"""
    info, op, verified = instance_for(case)
    table = Table(info)
    module, clone, vals = host_module(op, case["follower"])
    vid = {a: k for k, a in enumerate(module.body.block.first_op.regions[0].block.args)}
    inst = abstract_op(info, clone, table, lambda v: vid[v])
    res = {"verified": verified, "inst": inst, "table": table, "info": info, "print_error": None,
           "tokens": None, "parsed": None, "custom_ok": None, "custom_why": "", "generic_ok": None, "generic_why": ""}
    try:
        text, optext = print_module(module, clone)
    except BaseException as e:
        res["print_error"] = f"{type(e).__name__}: {e}"[:200]
        res["custom_ok"], res["custom_why"] = False, "custom printing raises " + res["print_error"]
        text = None
    if text is not None:
        toks = lex_texts(optext)
        if info.name not in toks:
            res["custom_ok"], res["custom_why"] = False, "operation name not found in its own printing"
        res["tokens"] = toks[toks.index(info.name) + 1:] if info.name in toks else toks
        res["text"] = optext
        try:
            m2 = parse_module_text(text)
            op2, blk2 = hosted_op(m2)
            ok, why = real_equiv(info, clone, clone.parent, op2, blk2)
            n_ops = len(list(blk2.ops))
            if ok and n_ops != len(list(clone.parent.ops)):
                ok, why = False, "the following operation was not parsed back"
            res["custom_ok"], res["custom_why"] = ok, why
            vid2 = {a: k for k, a in enumerate(blk2.args)}
            if type(op2) is type(clone) and n_ops == len(list(clone.parent.ops)):
                res["parsed"] = abstract_op(info, op2, table, lambda v: vid2.get(v, -1))
        except BaseException as e:
            res["custom_ok"], res["custom_why"] = False, f"parsing the custom form raises {type(e).__name__}: {e}"[:300]
    # generic form
    try:
        gtext, _ = print_module(module, clone, generic=True)
        m3 = parse_module_text(gtext)
        op3, blk3 = hosted_op(m3)
        res["generic_ok"], res["generic_why"] = real_equiv(info, clone, clone.parent, op3, blk3)
    except BaseException as e:
        res["generic_ok"], res["generic_why"] = False, f"generic round trip raises {type(e).__name__}: {e}"[:300]
    return res


_FUNTY = None


def funty_fixed() -> bool:
    """does the real FunctionalTypeDirective print a lone function-typed result inside parentheses?
    (behavioural probe of the working tree; selects the version of the model)"""
    global _FUNTY
    if _FUNTY is None:
        from xdsl.dialects import builtin, func
        from xdsl.printer import Printer
        ft = builtin.FunctionType.from_lists([], [])
        op = func.CallOp("f", [], [ft])
        s = io.StringIO()
        Printer(stream=s).print_op(op)
        _FUNTY = "-> (() -> ())" in s.getvalue()
    return _FUNTY


def coq_case(case, real) -> str:
    info, table = real["info"], real["table"]
    fx = "true" if funty_fixed() else "false"
    return f"c05_case {fx} od_{info.index} fmt_{info.index} {coq_inst(real['inst'], table)} {FOLLOW_COQ[case['follower']]}"


def dec_str(l) -> str:
    return "".join(chr(c) for c in l)


def expand_tokens(model_toks, real) -> list[str]:
    """the real lexemes the model's token stream stands for"""
    table = real["table"]
    out = []
    for t in model_toks:
        if t[0] == 0:
            out.append(dec_str(t[1]))
        elif t[0] == 1:
            out.append(f"%v{t[1]}")
        elif t[0] == 2:
            out += lex_texts(attr_text(table.entry(t[1])[0]))
        elif t[0] == 3:
            out += lex_texts(table.entry(t[1])[1] or "")
        else:
            from xdsl.printer import Printer
            s = io.StringIO()
            if t[1]:
                s.write("attributes ")
            Printer(stream=s).print_attr_dict({dec_str(n): table.entry(a)[0] for n, a in t[2]})
            out += lex_texts(s.getvalue())
    return out


def canon_model_inst(mi):
    """model instance -> the python shape of abstract_op (dictionaries: first binding wins, sorted)"""
    def dct(l):
        seen = {}
        for n, a in l:
            seen.setdefault(dec_str(n), a)
        return sorted([n, a] for n, a in seen.items())
    return {"operands": [[list(vt) for vt in seg] for seg in mi[0]], "results": [list(s) for s in mi[1]],
            "props": dct(mi[2]), "attrs": dct(mi[3])}


def norm_inst(info: OpInfo, inst):
    """absent == declared default"""
    def dct(l, defs):
        d = {n: a for n, a in l}
        for n, optional, dv, unit in defs:
            if dv is not None:
                d.setdefault(n, dv)
        return sorted([n, a] for n, a in d.items())
    return {"operands": inst["operands"], "results": inst["results"], "props": dct(inst["props"], info.props),
            "attrs": dct(inst["attrs"], info.attrs)}


# ------------------------------------------------------------------------------------------------
# known-finding classes (predicates on the case / operation, never "any failure")


def known_class(case, real, active=None) -> str | None:
    """id of the known finding whose witness CLASS this failing case belongs to.  A case may belong to
    several classes (e.g. a mutation of one class on an operation of another): a class that is still
    listed as unfixed is preferred; a class that only matches a fixed entry suppresses nothing."""
    hits = []
    for kid, pred in KNOWN_CLASSES:
        try:
            if pred(case, real):
                hits.append(kid)
        except BaseException:
            continue
    for kid in hits:
        if active is None or kid in active:
            return kid
    return hits[0] if hits else None


KNOWN_CLASSES: list = []     # filled in below, next to the descriptions of the findings
FMT_CODES: dict[str, int] = {}      # op name -> fmt_code of its regenerated format (evaluated in Coq each run)


def eval_fmt_codes(ctx: Ctx):
    covered, _, _ = translate_all()
    res = ctx.coq_eval(REQ, ["c05_flags all_formats"], shard=1, prelude=CASE_PRELUDE)[0]
    if len(res) != len(covered):
        raise ModelUnavailable("c05_flags: length mismatch")
    FMT_CODES.clear()
    FMT_CODES.update(dict(zip(covered.keys(), res)))
    return FMT_CODES


# ------------------------------------------------------------------------------------------------
# family A: generated instances of covered operations (correspondence + oracle)


def gen_cases(ctx: Ctx, per_op_mut: int, ops_limit: int | None):
    covered, uncovered, _ = translate_all()
    inst, _ = corpus_index()
    rng = ctx.rng
    names = [n for n in covered if n in inst]
    if ops_limit is not None and len(names) > ops_limit:
        # operations with a rare feature are always in the sample
        rare = [n for n in names if "unit-attr" in covered[n].features or n in NOT_SHOWN_HINT]
        rest = [n for n in names if n not in rare]
        names = sorted(rare + rng.sample(rest, max(0, ops_limit - len(rare))))
    cases = []
    for n in names:
        info = covered[n]
        locs = inst[n]
        fol = ["end"] if info.terminator else FOLLOWERS      # a terminator is the last operation of its block
        base = [locs[0]] + ([rng.choice(locs)] if len(locs) > 1 else [])
        for at in dict.fromkeys(base):
            cases.append({"op": n, "at": list(at), "mut": [], "follower": rng.choice(fol)})
        menu = mutation_menu(info)
        rng.shuffle(menu)
        # the mutations that exercise optional groups / unit and default-valued properties come first
        prio = [m for m in menu if m[0][0] == "prop" and m[0][2] in ("unit", "default")]
        vm = [m for m in menu if m[0][0] == "prop" and isinstance(m[0][2], list)]
        # a negative dense-array element / a non-ASCII-letter symbol name always, then other boundary values
        prio += [m for m in vm if m[0][2][1] == (0 if m[0][2][0] == "dense" else rng.randrange(3))][:2] + vm[:2]
        prio += [m for m in menu if m[0][0] in ("oper", "res") and m[0][2] in (0, 1)][:2]
        others = [m for m in menu if m not in prio]
        for mut in (prio + others)[:max(per_op_mut, min(len(prio), per_op_mut + 2))]:
            cases.append({"op": n, "at": list(rng.choice(locs)), "mut": mut, "follower": rng.choice(fol)})
    return cases, [n for n in covered if n not in inst]


NOT_SHOWN_HINT = {"csl.activate", "irdl.region", "pdl.replace", "seq.compreg", "shard.shift", "smt.declare_fun"}


def shape_key(case, real):
    i = real["inst"]
    return (case["op"], tuple(len(s) for s in i["operands"]), tuple(len(s) for s in i["results"]),
            tuple(n for n, _ in i["props"]), tuple(n for n, _ in i["attrs"]), case["follower"])


def family_generated(ctx: Ctx, cases):
    t0 = time.time()
    active = ctx.active_known_ids()
    covered, _, _ = translate_all()
    reals, kept = [], []
    na = 0
    for c in cases:
        try:
            r = run_real(c)
        except NotApplicable:
            na += 1
            continue
        reals.append(r)
        kept.append(c)
    exprs = [coq_case(c, r) for c, r in zip(kept, reals)]
    fam = {"cases": len(kept), "mutations_not_applicable": na}
    model_err = None
    try:
        # the checker's verdict on every regenerated format travels in the same coqc round
        model = ctx.coq_eval(REQ, ["c05_flags all_formats"] + exprs, shard=max(200, (len(exprs) + 6) // 6),
                             prelude=CASE_PRELUDE)
        flags = model.pop(0)
        if len(flags) != len(covered):
            raise ModelUnavailable("c05_flags: length mismatch")
        FMT_CODES.clear()
        FMT_CODES.update(dict(zip(covered.keys(), flags)))
    except ModelUnavailable as e:
        model, model_err = None, str(e)
        ctx.broken.append({"correspondence": "generated-instances", "model_unavailable": model_err[-800:]})
    fails, diverge, known_hits = [], [], {}
    stats = {"verified": 0, "unverified": 0, "model_roundtrip_fail": 0, "real_roundtrip_fail": 0,
             "instok_false_on_verified": 0, "theorem_applies": 0, "side_condition_false": 0}
    ops_seen, ops_verified = set(), set()
    for k, (c, r) in enumerate(zip(kept, reals)):
        info = r["info"]
        ops_seen.add(c["op"])
        ctx.evaluations += 1
        if r["verified"]:
            stats["verified"] += 1
            ops_verified.add(c["op"])
            if info.features:
                ctx.nontrivial.add(("generated", repr(shape_key(c, r))))
            ok = bool(r["custom_ok"]) and bool(r["generic_ok"])
            if not ok:
                why = r["custom_why"] if not r["custom_ok"] else "generic form: " + r["generic_why"]
                kid = known_class(c, r, active)
                if kid and kid in active:
                    known_hits[kid] = known_hits.get(kid, 0) + 1
                else:
                    fails.append((c, {"text": r.get("text"), "print_error": r["print_error"]}, why))
        else:
            stats["unverified"] += 1
        if not r["custom_ok"]:
            stats["real_roundtrip_fail"] += 1
        if model is None or not r["verified"]:
            continue        # the model is only claimed on instances of verified modules
        m = model[k]
        # --- correspondence: printing
        if m == [-1]:
            if r["print_error"] is None:
                diverge.append((c, "real printing succeeds", "model printing raises"))
            continue
        if r["print_error"] is not None:
            diverge.append((c, "real printing raises " + r["print_error"], "model prints"))
            continue
        exp = expand_tokens(m[0], r)
        if exp != r["tokens"]:
            diverge.append((c, {"real_tokens": r["tokens"]}, {"model_tokens": exp}))
            continue
        # --- correspondence: parsing back
        nrest = {"end": 1, "val": 2, "str": 2, "kw": 1}[c["follower"]]
        model_ok = bool(m[1]) and m[1][1] == nrest
        if not model_ok:
            stats["model_roundtrip_fail"] += 1
        # the model's parse failure means: the round trip does not succeed (the real parser raises, or
        # returns an operation that is not the original one)
        if (model_ok and r["parsed"] is None) or (not model_ok and r["custom_ok"]):
            diverge.append((c, {"real_parse": "ok" if r["parsed"] is not None else r["custom_why"],
                                "real_roundtrip_ok": r["custom_ok"]},
                            {"model_parse": "ok" if model_ok else "fails"}))
            continue
        if model_ok:
            mi = norm_inst(info, canon_model_inst(m[1][0]))
            ri = norm_inst(info, r["parsed"])
            if mi != ri:
                diverge.append((c, {"real_parsed": ri}, {"model_parsed": mi}))
                continue
        if m[2] != 1:
            stats["instok_false_on_verified"] += 1
            diverge.append((c, "instance of a verified module", "model inst_ok = false"))
            continue
        # what the theorem predicts: checked format + inst_ok + side_ok + admissible follower => round trip
        if FMT_CODES.get(c["op"]) == 0 and m[3] == 1:
            stats["theorem_applies"] += 1
            if not (r["custom_ok"] and model_ok):
                diverge.append((c, {"real_roundtrip_ok": r["custom_ok"], "why": r["custom_why"]},
                                "C05_sound applies (fmt_ok, inst_ok, side_ok) and predicts a successful round trip"))
        elif m[3] != 1:
            stats["side_condition_false"] += 1
    for c, r in list(zip(kept, reals))[:3]:
        ctx.sample({"family": "generated-instances", "case": c, "text": r.get("text"), "verified": r["verified"]})
    fam.update(stats)
    ctx._c05_debug = (fails, diverge)
    fam.update({"oracle_failures": len(fails), "known_finding_hits": known_hits, "divergences": len(diverge),
                "ops_with_cases": len(ops_seen), "ops_with_verified_cases": len(ops_verified),
                "wall_s": round(time.time() - t0, 2)})
    ctx.coverage.setdefault("families", {})["generated-instances"] = fam
    if fails:
        fails.sort(key=lambda x: len(json.dumps(to_jsonable(x[0]))))
        c, r, why = fails[0]
        ctx.violation({"family": "generated-instances", "case": c, "impl_result": r, "oracle": why,
                       "other_failing_cases": len(fails) - 1,
                       "other_failing_ops": sorted({x[0]["op"] for x in fails})[:40]})
    if diverge:
        diverge.sort(key=lambda x: len(json.dumps(to_jsonable(x[0]))))
        c, a, b = diverge[0]
        ctx.broken.append({"correspondence": "generated-instances", "first_diverging_case": c, "impl": a, "model": b,
                           "count": len(diverge), "ops": sorted({x[0]["op"] for x in diverge})[:40]})
    return fam


CASE_PRELUDE = "Local Open Scope string_scope.\nLocal Open Scope list_scope."


# ------------------------------------------------------------------------------------------------
# family B: whole verified corpus chunks, every operation incl. hand-written formats (oracle only)


class SpanPrinter:
    @staticmethod
    def make(stream, generic=False):
        from xdsl.printer import Printer

        class P(Printer):
            def __init__(self, **kw):
                super().__init__(**kw)
                self.spans = []

            def print_op(self, op):
                a = self.stream.tell()
                super().print_op(op)
                self.spans.append((a, self.stream.tell(), op.name))
        return P(stream=stream, print_generic_format=generic)


def module_diff(m1, m2):
    """first difference between two modules, None when equivalent.  Values are numbered in
    definition order; `absent == declared default` for IRDL definitions with a default value."""
    from xdsl.irdl import IRDLOperation
    num1, num2 = {}, {}
    bl1, bl2 = {}, {}

    def defs(op):
        if isinstance(op, IRDLOperation):
            od = op.get_irdl_definition()
            return od.properties, od.attributes
        return {}, {}

    def walk_block(b1, b2):
        if [a.type for a in b1.args] != [a.type for a in b2.args]:
            return ("<block arguments>", "types differ")
        for a, b in zip(b1.args, b2.args):
            num1[a] = len(num1)
            num2[b] = len(num2)
        ops1, ops2 = list(b1.ops), list(b2.ops)
        for o1, o2 in zip(ops1, ops2):
            r = walk_op(o1, o2)
            if r:
                return r
        if len(ops1) != len(ops2):
            return (ops1[len(ops2)].name if len(ops1) > len(ops2) else ops2[len(ops1)].name, "number of operations in a block differs")
        return None

    def walk_op(o1, o2):
        if o1.name != o2.name:
            return (o1.name, f"parsed back as {o2.name}")
        for a, b in zip(o1.results, o2.results):
            num1[a] = len(num1)
            num2[b] = len(num2)
        if [r.type for r in o1.results] != [r.type for r in o2.results]:
            return (o1.name, "result types differ")
        if len(o1.regions) != len(o2.regions):
            return (o1.name, "number of regions differs")
        # blocks first (forward references of successors / values defined in nested regions are numbered on entry)
        for r1, r2 in zip(o1.regions, o2.regions):
            if len(r1.blocks) != len(r2.blocks):
                return (o1.name, "number of blocks differs")
            for b1, b2 in zip(r1.blocks, r2.blocks):
                bl1[b1] = len(bl1)
                bl2[b2] = len(bl2)
        pend = (o1, o2)
        for r1, r2 in zip(o1.regions, o2.regions):
            for b1, b2 in zip(r1.blocks, r2.blocks):
                r = walk_block(b1, b2)
                if r:
                    return r
        p1, a1 = defs(o1)
        if norm_dict(o1.properties, p1) != norm_dict(o2.properties, p1):
            return (o1.name, "properties differ")
        if norm_dict(o1.attributes, a1) != norm_dict(o2.attributes, a1):
            return (o1.name, "attributes differ")
        deferred.append(pend)
        return None

    deferred = []
    r = walk_op(m1, m2)
    if r:
        return r
    for o1, o2 in deferred:
        if [num1.get(v, -1) for v in o1.operands] != [num2.get(v, -2) for v in o2.operands]:
            return (o1.name, "operands differ")
        if [v.type for v in o1.operands] != [v.type for v in o2.operands]:
            return (o1.name, "operand types differ")
        if [bl1.get(b, -1) for b in o1.successors] != [bl2.get(b, -2) for b in o2.successors]:
            return (o1.name, "successors differ")
    return None


def roundtrip_module(m, generic: bool):
    """-> None when print -> parse gives an equivalent module, else (culprit op name, what)"""
    from xdsl.parser import Parser
    from xdsl.utils.exceptions import ParseError
    s = io.StringIO()
    p = SpanPrinter.make(s, generic)
    try:
        p.print_op(m)
    except BaseException as e:
        return ("<printer>", f"printing raises {type(e).__name__}: {e}"[:200])
    text = s.getvalue()
    try:
        m2 = Parser(new_context(), text).parse_module()
    except BaseException as e:
        pos = None
        sp = getattr(e, "span", None)
        if sp is not None:
            pos = getattr(sp, "start", None)
        culprit = "<unknown>"
        if pos is not None:
            # the innermost printed operation whose text contains (or immediately precedes) the error position
            best = None
            for a, b, n in p.spans:
                if a <= pos <= b + 1 and (best is None or b - a < best[1] - best[0]):
                    best = (a, b, n)
            if best is None:
                before = [(a, b, n) for a, b, n in p.spans if b <= pos]
                best = max(before, key=lambda x: x[1]) if before else None
            culprit = best[2] if best else culprit
        return (culprit, f"parsing raises {type(e).__name__}: {str(e)[:160]}")
    return module_diff(m, m2)


def family_corpus(ctx: Ctx, limit: int | None):
    t0 = time.time()
    chunks, stats = corpus_chunks()
    _, _, classes = translate_all()
    idx = list(range(len(chunks)))
    if limit is not None and len(idx) > limit:
        idx = sorted(ctx.rng.sample(idx, limit))
    active = ctx.active_known_ids()
    fails, known_hits = [], {}
    ops_seen = {}
    for k in idx:
        path, ci, text, m = chunks[k]
        ctx.evaluations += 1
        names = {op.name for op in m.walk()}
        for n in names:
            ops_seen[n] = classes.get(n, "unregistered")
        ctx.nontrivial.add(("corpus", f"{path}#{ci}"))
        for generic in (False, True):
            r = roundtrip_module(m, generic)
            if r is None:
                continue
            case = {"file": path, "chunk": ci, "generic": generic, "culprit": r[0], "what": r[1],
                    "dense_resource": "dense_resource" in text}
            kid = known_corpus_class(case)
            if kid and kid in active:
                known_hits[kid] = known_hits.get(kid, 0) + 1
            else:
                fails.append((case, r))
    kinds = {}
    for n, k in ops_seen.items():
        kinds[k] = kinds.get(k, 0) + 1
    fam = {"chunks": len(idx), "corpus": stats, "distinct_ops_seen_by_format_kind": kinds,
           "oracle_failures": len(fails), "known_finding_hits": known_hits, "wall_s": round(time.time() - t0, 2)}
    ctx.coverage.setdefault("families", {})["corpus-chunks-all-ops(oracle only)"] = fam
    ctx._c05_corpus_fails = fails
    if fails:
        c, r = fails[0]
        ctx.violation({"family": "corpus-chunks", "case": c, "oracle": f"{r[0]}: {r[1]}",
                       "other_failing_cases": len(fails) - 1,
                       "other_culprits": sorted({x[0]["culprit"] for x in fails})[:40]})
    return fam


def known_corpus_class(case) -> str | None:
    for kid, pred in KNOWN_CORPUS_CLASSES:
        try:
            if pred(case):
                return kid
        except BaseException:
            continue
    return None


KNOWN_CORPUS_CLASSES: list = []


# ------------------------------------------------------------------------------------------------
# hand-made seeds (always run first) and the classes of the known findings

SEED_CASES = [
    # functional-type(...) prints a lone function-typed result without parentheses
    {"op": "func.call", "at": [None, 3], "mut": [], "follower": "end", "seed": "funty-function-result",
     "src": 'builtin.module {\n  func.func private @get_fn() -> (() -> ())\n  func.func @main() {\n'
            '    %f = "func.call"() <{callee = @get_fn}> : () -> (() -> ())\n    func.return\n  }\n}\n'},
    # the same call with an ordinary result: must round-trip
    {"op": "func.call", "at": [None, 3], "mut": [], "follower": "val", "seed": "funty-plain-result",
     "src": 'builtin.module {\n  func.func private @get_i() -> i32\n  func.func @main() {\n'
            '    %f = "func.call"() <{callee = @get_i}> : () -> i32\n    func.return\n  }\n}\n'},
    # a discardable attribute named operandSegmentSizes on an operation without the AttrSized option
    {"op": "func.return", "at": [None, 2], "mut": [["attr", "segsz"]], "follower": "end", "seed": "segsz-dropped",
     "src": 'builtin.module {\n  func.func @f(%a : f32) -> f32 {\n    func.return %a : f32\n  }\n}\n'},
    # pdl.replace without replacement operation, followed by an operation that defines a value
    {"op": "pdl.replace", "at": [None, 6], "mut": [], "follower": "val", "seed": "pdl-replace-trailing-optional",
     "src": 'builtin.module {\n  pdl.pattern : benefit(1) {\n    %t = pdl.type\n    %v = pdl.operand : %t\n'
            '    %o = pdl.operation "a.b"(%v : !pdl.value)\n    pdl.rewrite %o {\n      pdl.replace %o with (%v : !pdl.value)\n'
            '    }\n  }\n}\n'},
    # smt.declare_fun without name prefix but with a discardable attribute
    {"op": "smt.declare_fun", "at": [None, 1], "mut": [["attr", "extra"]], "follower": "end", "seed": "smt-declare-fun-dict",
     "src": 'builtin.module {\n  %0 = "smt.declare_fun"() : () -> !smt.bool\n}\n'},
    # a discardable attribute named like a property that is printed inside the attribute dictionary
    {"op": "llvm.or", "at": [None, 2], "mut": [["attr", "propname"]], "follower": "end", "seed": "attr-named-like-property",
     "src": 'builtin.module {\n  %a, %b = "test.op"() : () -> (i32, i32)\n  %r = llvm.or %a, %b : i32\n}\n'},
]


def _has_step(case, kind, what):
    return any(st[0] == kind and st[1] == what for st in case.get("mut", []))


def _is_function_type_result(case, real):
    from xdsl.dialects.builtin import FunctionType
    info, inst, table = real["info"], real["inst"], real["table"]
    if "functional-type" not in info.features:
        return False
    tys = [t for seg in inst["results"] for t in seg]
    return len(tys) == 1 and isinstance(table.entry(tys[0])[0], FunctionType)


def _attr_named_like_property_observed(case, real) -> bool:
    """C05-kf-2 class, by the behaviour OBSERVED on the unchanged tree for a discardable attribute named like a
    property NAME of the operation: (a) NAME is printed inside attr-dict (ParsePropInAttrDict) and the custom
    printing raises the deliberate ValueError, or (b) the custom form keeps the attribute (or reads it back as
    the property) and the parser(s) turn it into the property: `properties differ` on NAME in the custom or in
    the generic round trip.  Anything else on these inputs (attribute silently dropped, parse error ...) is not
    in the class."""
    steps = [st for st in case.get("mut", []) if st[0] == "attr" and st[1] == "propname"]
    if not steps:
        return False
    info = real["info"]
    names = sorted(n for n in info.od.properties if n not in info.hidden_props)
    if not names:
        return False
    name = names[(steps[0][2] if len(steps[0]) > 2 else 0) % len(names)]
    if real["print_error"] is not None:
        expected = next((d[1][3] for d in info.fmt if d[0] == "DE" and d[1][0] == "EAttrDict"), [])
        return (name in expected and real["print_error"].startswith(
            "ValueError: Cannot print attributes and properties with the same name"))
    if not real["custom_ok"]:
        return (real["custom_why"] or "").startswith("properties differ: [('%s'" % name)
    return (real["generic_why"] or "").startswith("properties differ: [('%s'" % name)


def _opt_attr_before_dict(info: OpInfo):
    """(isprop, name, reserved, expected) when the format has an OPTIONAL attribute variable in full syntax
    (parse_optional_attribute) whose next element is an attr-dict without keyword -- as the only element of an
    optional group anchored on itself, or at top level -- else None.  (smt.declare_fun: ($namePrefix^)? attr-dict)"""
    fmt = info.fmt
    for k, dterm in enumerate(fmt[:-1]):
        nxt = fmt[k + 1]
        if not (nxt[0] == "DE" and nxt[1][0] == "EAttrDict" and not nxt[1][1]):
            continue
        if dterm[0] == "DGroup":
            last = dterm[3][-1] if dterm[3] else dterm[2]
        else:
            last = dterm[1]
        if last[0] == "EAttr" and last[3] == ("AKGeneric",) and last[4]:
            return (last[2], last[1], nxt[1][2], nxt[1][3])
    return None


def _optional_attr_swallows_dict(case, real) -> bool:
    """C05-kf-4 class: the optional attribute in front of attr-dict is absent and the dictionary that is
    printed is not empty (whatever put an entry into it); the failure is that the dictionary became the
    attribute (properties/attributes differ on that name) or that the text no longer parses"""
    hit = _opt_attr_before_dict(real["info"])
    if hit is None:
        return False
    isprop, name, reserved, expected = hit
    inst = real["inst"]
    held = dict(map(tuple, inst["props" if isprop else "attrs"]))
    if name in held:
        return False
    printed = [n for n, _ in inst["attrs"] if n not in reserved] + [n for n, _ in inst["props"] if n in expected]
    if not printed:
        return False
    why = real["custom_why"] or ""
    return (why.startswith(("properties differ: [('%s'" % name, "attributes differ: [('%s'" % name))
            or why.startswith("parsing the custom form raises"))


KNOWN_CLASSES += [
    # (fixed by 0150b3e) the discardable operandSegmentSizes attribute is LOST by the custom round trip
    ("C05-kf-1", lambda c, r: _has_step(c, "attr", "segsz")
        and "operandSegmentSizes" not in r["info"].hidden
        and (r["custom_why"] or "").startswith("attributes differ: [('operandSegmentSizes'")),
    ("C05-kf-2", lambda c, r: _attr_named_like_property_observed(c, r)),
    ("C05-kf-3", lambda c, r: c["op"] == "pdl.replace" and c["follower"] == "val"
        and not r["inst"]["operands"][[n for n, _ in r["info"].od.operands].index("repl_operation")]),
    ("C05-kf-4", lambda c, r: _optional_attr_swallows_dict(c, r)),
    ("C05-kf-5", _is_function_type_result),
]

ACC_WAIT_OPS = {"acc.serial", "acc.parallel", "acc.kernels", "acc.update", "acc.wait"}
KNOWN_CORPUS_CLASSES += [
    ("C05-kf-6", lambda c: not c["generic"] and c["culprit"] in ACC_WAIT_OPS and c["what"] == "properties differ"),
    ("C05-kf-7", lambda c: not c["generic"] and c["culprit"] in ("affine.load", "affine.store") and c["what"] == "properties differ"),
    ("C05-kf-8", lambda c: not c["generic"] and c["culprit"] == "air.herd" and c["what"].startswith("parsing raises ParseError")),
    ("C05-kf-9", lambda c: not c["generic"] and c["culprit"] in ("riscv_func.func", "x86_func.func")
        and "expect symbol name" in c["what"]),
    ("C05-kf-10", lambda c: not c["generic"] and c["culprit"] in ("llvm.func", "stencil.access")
        and c["what"] in ("properties differ", "attributes differ")),
    ("C05-kf-11", lambda c: c["generic"] and c["culprit"] in ("acc.copyin", "llvm.func") and c["what"] == "properties differ"),
    ("C05-kf-12", lambda c: c.get("dense_resource") and c["culprit"] in ("arith.constant", "func.func")
        and c["what"] in ("properties differ", "attributes differ")),
]


# ------------------------------------------------------------------------------------------------


def corpus_impl(w):
    """replay of a corpus witness {file, chunk, generic}: -> [culprit, what] or []"""
    from xdsl.parser import Parser
    text = (REPO / w["file"]).read_text().split("// -----")[w["chunk"]]
    m = Parser(new_context(), text).parse_module()
    m.verify()
    r = roundtrip_module(m, w["generic"])
    return [] if r is None else [r[0], r[1]]


def corpus_holds(w, res):
    return (not res), (f"{res[0]}: {res[1]}" if res else "")


def generated_impl(w):
    r = run_real(w)
    return [int(bool(r["verified"])), int(bool(r["custom_ok"])), r["custom_why"], int(bool(r["generic_ok"])), r["generic_why"]]


def generated_holds(w, res):
    if not res[0]:
        return True, "not a verified instance"
    if not res[1]:
        return False, res[2]
    if not res[3]:
        return False, "generic form: " + res[4]
    return True, ""


def run(ctx: Ctx):
    thorough = ctx.tier == "thorough"
    covered, uncovered, classes = translate_all()
    # translator evidence
    kinds = {}
    for k in classes.values():
        kinds[k] = kinds.get(k, 0) + 1
    reasons = {}
    for n, r in uncovered.items():
        reasons.setdefault(r, []).append(n)
    ctx.coverage["registered_ops"] = {"total": len(classes), **kinds}
    ctx.coverage["declarative_formats_covered_by_model"] = len(covered)
    ctx.coverage["declarative_formats_uncovered"] = {r: sorted(v) for r, v in sorted(reasons.items())}
    ctx.coverage["declarative_formats_uncovered_count"] = len(uncovered)
    ctx.coverage["translator_sha"] = hashlib.sha1(GEN_FILE.read_bytes()).hexdigest() if GEN_FILE.exists() else None
    ctx.coverage["funty_fix_detected"] = funty_fixed()
    # known findings first
    replay_findings(ctx, "generated-instances", generated_impl, generated_holds)
    replay_findings(ctx, "corpus-chunks", corpus_impl, corpus_holds)
    # family A
    cases, noinst = gen_cases(ctx, 5 if thorough else 2, None if thorough else 200)
    cases = [dict(c) for c in SEED_CASES] + cases
    family_generated(ctx, cases)
    ctx.coverage["covered_ops_without_corpus_instance"] = noinst
    if FMT_CODES:
        notshown = {n: c for n, c in FMT_CODES.items() if c != 0}
        ctx.coverage["formats_checked_ok"] = sum(1 for c in FMT_CODES.values() if c == 0)
        ctx.coverage["formats_not_shown"] = {n: {1: "shape outside the proved fragment", 2: "lookahead conflict",
                                                 3: "operand/type neither printed nor inferable by the model",
                                                 4: "attribute/property bookkeeping"}[c] for n, c in sorted(notshown.items())}
    # family B
    family_corpus(ctx, None if thorough else 160)
    # family C
    replay_findings(ctx, "attribute-values", value_replay_impl, value_holds)
    family_values(ctx, 1200 if thorough else 160)
    ctx.coverage["rule"] = __doc__.split("\n\n", 1)[1][:1800] if "\n\n" in __doc__ else __doc__[:1800]
    ctx.coverage["exhaustive"] = False


def replay_case(ctx: Ctx, witness: dict) -> int:
    case = witness.get("case", witness)
    if witness.get("family") == "corpus-chunks" or "file" in case:
        res = corpus_impl(case)
        ok, why = corpus_holds(case, res)
        print("impl:", res)
    else:
        r = run_real(case)
        print("text:", r.get("text"))
        print("verified:", r["verified"], "custom_ok:", r["custom_ok"], r["custom_why"], "generic_ok:", r["generic_ok"], r["generic_why"])
        try:
            m = ctx.coq_eval(REQ, [coq_case(case, r)], prelude=CASE_PRELUDE)[0]
            print("model:", m)
        except ModelUnavailable as e:
            print("model unavailable:", e)
        ok = bool(r["custom_ok"] and r["generic_ok"]) or not r["verified"]
        why = r["custom_why"] or r["generic_why"]
    print("oracle:", "holds" if ok else f"FAILS: {why}")
    return 0 if ok else 1


# ------------------------------------------------------------------------------------------------
# family C: boundary values of dense-array / symbol attributes on EVERY operation with a custom format
# (declarative -- covered or not -- and hand-written), mutated in place in its verified corpus module;
# oracle only (whole-module custom and generic round trip)

_VALUE_SITES = None


def value_sites():
    """every (chunk, walk index, op name, 'prop'|'attr', name, kind) of the verified corpus where an operation
    that has a custom format holds an integer dense array / a symbol name / a symbol reference"""
    global _VALUE_SITES
    if _VALUE_SITES is not None:
        return _VALUE_SITES
    from xdsl.dialects.builtin import DenseArrayBase, IntegerType, StringAttr, SymbolRefAttr
    chunks, _ = corpus_chunks()
    _, _, classes = translate_all()
    out = []
    for cn, (_, _, _, m) in enumerate(chunks):
        for wi, op in enumerate(m.walk()):
            if classes.get(op.name) not in ("declarative", "hand-written"):
                continue
            for where, dct in (("prop", op.properties), ("attr", op.attributes)):
                for n, a in dct.items():
                    if isinstance(a, DenseArrayBase) and isinstance(a.elt_type, IntegerType):
                        if dense_site_ok(op, where, n):
                            out.append((cn, wi, op.name, where, n, "dense"))
                    elif isinstance(a, SymbolRefAttr) or (isinstance(a, StringAttr) and n == "sym_name"):
                        out.append((cn, wi, op.name, where, n, "sym"))
    _VALUE_SITES = out
    return out


_DENSE_OK: dict = {}


def dense_site_ok(op, where, n) -> bool:
    """a dense integer array may take arbitrary element values only where the FORMAT treats it as plain data: a
    property/attribute of a declarative operation that is printed by a DenseArray / plain attribute variable or
    inside attr-dict.  Arrays consumed by custom directives or hand-written print/parse (static sizes with a
    dynamic sentinel, segment tables, positions) are coupled to operands in ways the verifier does not check."""
    key = (op.name, where, n)
    if key in _DENSE_OK:
        return _DENSE_OK[key]
    from xdsl.irdl import IRDLOperation
    from xdsl.irdl import declarative_assembly_format as D
    ok = False
    cls = type(op)
    if issubclass(cls, IRDLOperation) and n not in ("operandSegmentSizes", "resultSegmentSizes"):
        od = cls.get_irdl_definition()
        if od.assembly_format is not None:
            try:
                prog = D.FormatProgram.from_str(od.assembly_format, od)
            except BaseException:
                prog = None
            if prog is not None:
                bound_plain, bound_other, custom = [], [], [False]

                def walk(x):
                    if isinstance(x, D.OptionalGroupDirective):
                        for y in (x.then_first, *x.then_elements, *x.else_elements):
                            walk(y)
                    elif isinstance(x, D.CustomDirective):
                        custom[0] = True
                    elif isinstance(x, D.AttributeVariable) and x.name == n and bool(x.is_property) == (where == "prop"):
                        (bound_plain if type(x) in (D.AttributeVariable, D.DenseArrayAttributeVariable) else bound_other).append(x)
                for st in prog.stmts:
                    walk(st)
                ok = bool(bound_plain) or (not bound_other and not custom[0])
    _DENSE_OK[key] = ok
    return ok


_BASELINE: dict = {}


def baseline_failure(cn, generic):
    """round-trip failure of the UNMUTATED corpus module (those are family B's business)"""
    key = (cn, generic)
    if key not in _BASELINE:
        r = roundtrip_module(corpus_chunks()[0][cn][3], generic)
        _BASELINE[key] = None if r is None else f"{r[0]}: {r[1]}"
    return _BASELINE[key]


def value_impl(case):
    """-> [verified, custom failure or "", generic failure or ""]"""
    cn, wi = case["at"]
    if case.get("src") is not None:
        from xdsl.parser import Parser
        m2 = Parser(new_context(), case["src"]).parse_module()
        m2.verify()
    else:
        m2 = corpus_chunks()[0][cn][3].clone()
    op = nth_op(m2, wi)
    if op.name != case["op"]:
        raise NotApplicable
    dct = op.properties if case["where"] == "prop" else op.attributes
    nv = value_variant(dct.get(case["name"]), case["kind"], case["variant"])
    if nv is None or nv == dct[case["name"]]:
        raise NotApplicable
    dct[case["name"]] = nv
    try:
        m2.verify()
    except BaseException:
        return [0, "", "", ""]
    out = [1]
    for generic in ((False, True) if case.get("both", True) else (False,)):
        if case.get("src") is None and baseline_failure(cn, generic) is not None:
            out.append("")          # the module does not round-trip even unmutated: not attributable
            continue
        r = roundtrip_module(m2, generic)
        out.append("" if r is None else f"{r[0]}: {r[1]}")
    s = io.StringIO()
    try:
        from xdsl.printer import Printer
        Printer(stream=s).print_op(op)
    except BaseException:
        pass
    if len(out) == 2:
        out.append("")
    out.append(s.getvalue()[:300])
    return out


def family_values(ctx: Ctx, limit: int):
    t0 = time.time()
    rng = ctx.rng
    sites = value_sites()
    # one site per (operation, name) first, so that every operation/attribute pair is exercised, then random ones
    by_key = {}
    for sidx, st in enumerate(sites):
        by_key.setdefault((st[2], st[4], st[5]), []).append(sidx)
    keys = sorted(by_key)
    rng.shuffle(keys)
    chunks, _ = corpus_chunks()
    size = {}

    def small(k):
        # one of the three smallest modules that hold such a site (the whole module is printed and parsed)
        c = sorted(by_key[k], key=lambda sidx: size.setdefault(sites[sidx][0], sum(1 for _ in chunks[sites[sidx][0]][3].walk())))
        return rng.choice(c[:3])
    picks = []
    for k in keys:
        if k[2] == "sym":      # a non-ASCII letter name (a Python identifier, not an MLIR one) + any other odd name
            vs = [rng.randrange(3), rng.randrange(3, len(SYM_VARIANTS))]
        else:                  # a pattern with a negative element + any other boundary pattern
            vs = [rng.choice([0, 1, 2, 4, 6]), rng.randrange(7)]
        picks += [(small(k), v) for v in vs]
    extra = [(rng.randrange(len(sites)), rng.randrange(18)) for _ in range(max(0, limit - len(picks)))]
    picks = (picks + extra)[:limit]
    both = ctx.tier == "thorough"        # the generic form of the mutated module only in the thorough tier
    active = ctx.active_known_ids()
    fails, known_hits, stats = [], {}, {"cases": 0, "verified": 0, "not_applicable": 0, "dense": 0, "sym": 0}
    ops = set()
    for sidx, variant in picks:
        cn, wi, opname, where, n, kind = sites[sidx]
        case = {"at": [cn, wi], "op": opname, "where": where, "name": n, "kind": kind, "variant": variant, "both": both}
        try:
            res = value_impl(case)
        except NotApplicable:
            stats["not_applicable"] += 1
            continue
        stats["cases"] += 1
        ctx.evaluations += 1
        if not res[0]:
            continue
        stats["verified"] += 1
        stats[kind] += 1
        ops.add(opname)
        ctx.nontrivial.add(("values", repr((opname, n, kind, variant))))
        for generic, why in ((False, res[1]), (True, res[2])):
            if not why:
                continue
            c2 = dict(case, generic=generic, what=why, text=res[3])
            kid = known_value_class(c2)
            if kid and kid in active:
                known_hits[kid] = known_hits.get(kid, 0) + 1
            else:
                fails.append((c2, why))
    fam = dict(stats, sites=len(sites), distinct_site_kinds=len(by_key), ops_with_verified_cases=len(ops),
               oracle_failures=len(fails), known_finding_hits=known_hits, wall_s=round(time.time() - t0, 2))
    ctx.coverage.setdefault("families", {})["attribute-values-all-custom-format-ops(oracle only)"] = fam
    ctx._c05_value_fails = fails
    if fails:
        fails.sort(key=lambda x: len(json.dumps(to_jsonable(x[0]))))
        c, why = fails[0]
        ctx.violation({"family": "attribute-values", "case": c, "oracle": why, "other_failing_cases": len(fails) - 1,
                       "other_failing": sorted({(x[0]["op"], x[0]["name"], x[0]["kind"]) for x in fails})[:40]})
    return fam


def known_value_class(case) -> str | None:
    for kid, pred in KNOWN_VALUE_CLASSES:
        try:
            if pred(case):
                return kid
        except BaseException:
            continue
    return None


def _needs_quotes(case) -> bool:
    from xdsl.utils.mlir_lexer import MLIRLexer
    name = SYM_VARIANTS[case["variant"] % len(SYM_VARIANTS)]
    return MLIRLexer.bare_identifier_regex.fullmatch(name) is None


KNOWN_VALUE_CLASSES: list = [
    # hand-written printers that write `@` + the raw symbol text
    ("C05-kf-13", lambda c: c["op"] in ("ml_program.global", "pdl.pattern") and c["name"] == "sym_name"
        and c["kind"] == "sym" and not c["generic"] and _needs_quotes(c)
        and c["what"].startswith(c["op"] + ": parsing raises ParseError")),
]


def value_replay_impl(w):
    try:
        return value_impl(w)
    except NotApplicable:
        return [0, "", "", ""]


def value_holds(w, res):
    if not res[0]:
        return True, "not a verified module"
    why = res[2] if w.get("generic") else res[1]
    return (not why), why
