"""C19 -- Register allocation never gives one register to two live values.

Tie: hand-written Coq model (coq/C19/Model.v) of RegisterStack, ValueAllocator,
HasRegisterConstraints.allocate_registers, BlockNaiveAllocator.allocate_block, the RISC-V zero rule,
allocate_func's exclusion of pre-allocated registers and riscv_scf.for allocation (loop nests of depth one and
two) vs the real classes on generated single-block riscv_func / x86_func functions (x86: general-purpose pool
with aliasing names rcx/ecx/cx/cl, and the vector pool with xmm/ymm/zmm aliases; registers compared by pool index).  Compared exactly: the register of
every value (block arguments, results, loop-body values) and the final RegisterStack (available list in
order, allocatable set, reservation counts, next infinite index), or the kind of failure.
Oracle (independent of the model): backward liveness + interference check on the allocated IR, pre-assigned
registers kept, fresh registers drawn only from the pool handed to the allocator (or infinite ones if allowed,
or `zero` for constants 0), and a register-machine run of the allocated ops against an SSA evaluation with
pseudo-random uninterpreted op functions (every loop of a nest unrolled for 0, 1 and 2 iterations).
Non-trivial: the allocation succeeded on a program in which at least two values are live simultaneously
and some register is reused by two different values; distinct = distinct case.
"""
from __future__ import annotations

import json

from harness.common import (Ctx, DiffSpec, coq_bool, coq_list, coq_Z, coq_nat, differential, replay_findings)

META = {
    "id": "C19",
    "title": "Register allocation never gives one register to two live values",
    "design_ref": "DESIGN.md section 8.C19",
    "technique": ("Coq proof of the allocator invariant (available registers disjoint from registers of live values) by "
                  "induction over the backward walk, a register-machine simulation theorem, refutation witnesses for the two "
                  "findings, and exact model-vs-code correspondence on generated riscv/x86 functions incl. riscv_scf.for"),
    "level_text": (
        "Theorems in coq/Props/C19.v about a statement-by-statement Gallina model of RegisterStack, ValueAllocator, "
        "HasRegisterConstraints.allocate_registers, BlockNaiveAllocator.allocate_block, the RISC-V zero rule and allocate_func, "
        "for EVERY straight-line SSA block (any length, any in/out/inout operand lists, any pre-assignment, any pool, "
        "allow_infinite on or off, zero rule on (riscv) or off (x86)): at every point of the backward walk no register of a "
        "live value is available (C19_allocator_invariant); hence after a successful allocation two values live at one "
        "program point share a register only if both are constants 0 in `zero` (C19_no_interference), no result -- even a "
        "dead one -- is written over a live value (C19_no_clobber), pre-assigned registers are kept, fresh registers come only "
        "from the pool / allowed infinite registers / zero (C19_reserved_respected), in/out pairs share a register, and a "
        "register-machine run of the allocated code reads, at every operation, the same operand values as the SSA program "
        "for arbitrary uninterpreted operation functions (C19_semantics). Failure (OutOfRegisters, clashing in/out "
        "registers) is an explicit result. The model is that of /repo after the repairs d11e3b9 / 26a8b63 (two findings "
        "of this check: a pre-assigned infinite register was re-issued; pre-assigned registers on operations without "
        "register effects were not excluded); the old code is kept as allocate_func_old with the two recorded refutations "
        "(C19_*_old_refuted), their witnesses are replayed as fixed findings. Hypotheses left: input_ok (zero neither "
        "allocatable nor pre-assigned, pool of real registers) and forced_ok (the input's own ties/pre-assignments are "
        "satisfiable); without forced_ok, C19_interference_confined shows any sharing is confined to registers the input "
        "itself pre-assigned. "
        "riscv_scf.for allocation (live-ins incl. those of inner loops, loop-carried groups, reserved registers; nests of "
        "depth one and two) is modelled and tied by correspondence and the oracle. For a function with ONE riscv_scf.for "
        "(one nesting level) and no pre-assigned register, C19_no_interference_loop proves: every value live at any "
        "point before, inside or after the loop has a register and two values live together never share one (except "
        "zero), where loop liveness is the fixed point over the back edge (induction variable, live-ins, ub/step and "
        "yield operands live throughout the body), under the hypotheses: SSA + in/out contract on the virtual block "
        "(incl. iter operands die at the loop), loop-carried groups do not overlap, the induction variable / live-ins / "
        "bounds are not group members (every yield operand is a value of its own; excludes the open finding C19-kf-3, "
        "`yield %iv`, C19_loop_yield_iv_refuted), values tied into one register are never live together. Building "
        "blocks: C19_loop_groups/reserve/rebase/body_partial; C19_no_clobber_loop: no result of an operation before, inside or after the loop (nor the header write of the induction variable) is written over a live value; C19_loop_hypotheses_satisfiable: all hypotheses hold on a loop carrying a value. C19_semantics_loop: for EVERY trip count the lowered loop on the register machine (no moves for carried values) and the SSA semantics of riscv_scf.for agree on everything live after the loop (results included), by induction on the trip count over C19_semantics_loop_iteration; C19_loop_live_ins_complete. Not proved: loops with pre-assigned registers, "
        "theorems for two-level nests (modelled and tied by correspondence/oracle only). "
        "Tie: the model is run next to the real "
        "riscv/x86 allocate_func on generated functions and the complete value->register map and final RegisterStack are "
        "compared exactly; an independent liveness/interference checker and register-machine simulation judge the real "
        "output."),
    "level_note": (
        "Trusted: Coq kernel; the hand-written model (one register pool per function -- riscv integer, x86 general-purpose "
        "incl. aliasing sub-register names, or x86 vector incl. xmm/ymm/zmm aliases; registers are pool indices; values as ids); the "
        "correspondence harness and its generic test operation (a RISCVInstruction / X86Instruction subclass with variadic "
        "in/out/inout operands, as in xDSL's own tests). Not covered: the riscv float pool and functions mixing pools (pools are "
        "independent, keyed by register_pool_key), x86_scf.for, riscv_snitch frep ops, loop nests deeper than two levels, add_regalloc_stats, "
        "loops whose loop-carried groups overlap (a carried block argument yielded in another position, one value in two "
        "iter_args slots: the real allocator then re-replaces a stale value object and leaves the IR ill-formed), a value in "
        "two in/out slots of one operation; the legalisation passes (x86-regalloc-legalize / verify-liveness) that establish "
        "the in/out contract."),
}
COQ_TARGETS = ["C19/Enc.vo", "C19/ProofsSem.vo", "C19/ProofsFunc.vo", "C19/ProofsRefute.vo", "C19/ProofsLoop.vo", "C19/ProofsLoop2.vo", "C19/ProofsLoopEx.vo", "C19/ProofsLoopSem.vo", "Props/C19.vo"]
REQ = ["C19.Model", "C19.Enc"]
ASSUMPTIONS = [
    "the input's own register constraints are satisfiable without inserting copies: values it forces into one register "
    "(an in/out operand and its result -- documented contract of HasRegisterConstraints, 'the use of a register value as "
    "inout must be its last use', checked by x86-regalloc-verify-liveness; the members of a riscv_scf.for loop-carried group "
    "-- xDSL's own lowering copies iter_args with mv; values pre-assigned the same register) are never live together; "
    "the allocator silently accepts inputs violating this (observed, reported in the findings notes, not judged)",
    "SSA: every value is defined once, before its uses, in a single block (IR well-formedness, C01)",
    "a value pre-assigned the zero register is the constant 0",
]
TRUSTED = []

# ------------------------------------------------------------------------------------------------
# case format (JSON):
#   arch  "riscv" | "x86"
#   pool  list of register indices handed to RegisterStack.get in this order, or None = the target default
#   inf   allow_infinite
#   args  block-argument types: None (unallocated) or a register index (negative = infinite register)
#   ops   list of {"k": kind, "ins": [v..], "outs": [t..], "io": [[v, t]..], "imm": int}
#         kinds: li mv add sub mul addi sw pmv gen  (riscv)   dimov dsmov rsadd rneg dsimul msmov gen (x86)
#         "for": {"k":"for","lb":v,"ub":v,"step":v|None,"iters":[v..],"res":[t..],
#                 "bargs":[t.. (iv, carried..)], "body":[ops..], "yield":[v..]}
#   ret   values used by the final return (riscv) / sink op (x86)
# values are numbered by definition order: args, then per op its `outs` results followed by its `io` results
# (for a loop: its results, then the body block arguments, then the body values).


def _classes(arch):
    if arch == "x86v":
        arch = "x86"
    from xdsl.backend.register_allocatable import RegisterConstraints
    from xdsl.backend.register_type import RegisterAllocatedMemoryEffect
    from xdsl.irdl import (AttrSizedOperandSegments, AttrSizedResultSegments, irdl_op_definition, traits_def,
                           var_operand_def, var_result_def)
    global _CACHE
    try:
        return _CACHE[arch]
    except (NameError, KeyError):
        pass
    if "_CACHE" not in globals():
        _CACHE = {}
    if arch == "riscv":
        from xdsl.dialects import riscv

        @irdl_op_definition
        class GenOp(riscv.RISCVInstruction):
            name = "riscv.c19_gen"
            in_operands = var_operand_def()
            inout_operands = var_operand_def()
            out_results = var_result_def()
            inout_results = var_result_def()
            irdl_options = (AttrSizedOperandSegments(), AttrSizedResultSegments())

            def get_register_constraints(self):
                return RegisterConstraints(self.in_operands, self.out_results,
                                           tuple(zip(self.inout_operands, self.inout_results)))

            def assembly_line_args(self):
                return ()
    else:
        from xdsl.dialects.x86 import ops as x86ops

        @irdl_op_definition
        class GenOp(x86ops.X86Instruction):
            name = "x86.c19_gen"
            in_operands = var_operand_def()
            inout_operands = var_operand_def()
            out_results = var_result_def()
            inout_results = var_result_def()
            irdl_options = (AttrSizedOperandSegments(), AttrSizedResultSegments())

            def get_register_constraints(self):
                return RegisterConstraints(self.in_operands, self.out_results,
                                           tuple(zip(self.inout_operands, self.inout_results)))

            def assembly_line_args(self):
                return ()
    _CACHE[arch] = GenOp
    return GenOp


def tidx(t):
    """register index of a case type: None | index | [alias class, index] (x86: r32 r16 r8 / sse avx512)"""
    return t[1] if isinstance(t, list) else t


def reg_type(arch, t):
    if arch == "riscv":
        from xdsl.dialects import riscv
        cls = riscv.IntRegisterType
    else:
        from xdsl.dialects.x86 import registers as R
        cls = R.AVX2RegisterType if arch == "x86v" else R.Reg64Type
        if isinstance(t, list):
            cls = {"r64": R.Reg64Type, "r32": R.Reg32Type, "r16": R.Reg16Type, "r8": R.Reg8Type,
                   "sse": R.SSERegisterType, "avx2": R.AVX2RegisterType, "avx512": R.AVX512RegisterType}[t[0]]
            t = t[1]
    if t is None:
        return cls.unallocated()
    return cls.from_index(t)


def default_pool(arch):
    """the include order of the target's default stack, restricted to the modelled pool"""
    if arch == "riscv":
        from xdsl.backend.riscv.register_stack import RiscvRegisterStack
        from xdsl.dialects import riscv
        return [r.index.data for r in RiscvRegisterStack.DEFAULT_ALLOCATABLE_REGISTERS
                if isinstance(r, riscv.IntRegisterType)]
    from xdsl.backend.x86.register_stack import X86RegisterStack
    from xdsl.dialects.x86 import registers
    base = registers.X86VectorRegisterType if arch == "x86v" else registers.GeneralRegisterType
    return [r.index.data for r in X86RegisterStack.DEFAULT_ALLOCATABLE_REGISTERS if isinstance(r, base)]


def pool_key(arch):
    return {"riscv": "riscv.reg", "x86": "x86.reg", "x86v": "x86.vector"}[arch]


def build_ops(arch, ops, vals, GenOp):
    """append the real operations for `ops` to a list; `vals` is the value table (extended in place)"""
    out = []
    for o in ops:
        k = o["k"]
        ins = [vals[v] for v in o.get("ins", [])]
        outs = [reg_type(arch, t) for t in o.get("outs", [])]
        io = o.get("io", [])
        if arch == "riscv":
            from xdsl.dialects import riscv, riscv_scf, rv32
            from xdsl.dialects.builtin import DenseArrayBase, i32
            from xdsl.ir import Block, Region
            if k == "li":
                op = rv32.LiOp(o["imm"], rd=outs[0])
            elif k == "mv":
                op = riscv.MVOp(ins[0], rd=outs[0])
            elif k in ("add", "sub", "mul"):
                op = {"add": riscv.AddOp, "sub": riscv.SubOp, "mul": riscv.MulOp}[k](ins[0], ins[1], rd=outs[0])
            elif k == "addi":
                op = riscv.AddiOp(ins[0], o["imm"], rd=outs[0])
            elif k == "sw":
                op = riscv.SwOp(ins[0], ins[1], 0)
            elif k == "getreg":
                op = rv32.GetRegisterOp(outs[0])
            elif k == "pmv":
                op = riscv.ParallelMovOp(ins, outs, DenseArrayBase.from_list(i32, [32] * len(ins)))
            elif k == "gen":
                op = GenOp.build(operands=[ins, [vals[v] for v, _ in io]],
                                 result_types=[outs, [reg_type(arch, t) for _, t in io]])
            elif k == "for":
                bargs = [reg_type(arch, t) for t in o["bargs"]]
                blk = Block(arg_types=bargs)
                op = riscv_scf.ForOp.__new__(riscv_scf.ForOp)
                # ForOp.__init__ derives the result types from the iter_args; build generically to allow
                # pre-allocated result types that differ from the operands' types
                from xdsl.irdl import IRDLOperation
                step = None if o.get("step") is None else vals[o["step"]]
                from xdsl.dialects.builtin import IntegerAttr
                IRDLOperation.__init__(
                    op, operands=[vals[o["lb"]], vals[o["ub"]], step, [vals[v] for v in o["iters"]]],
                    properties={"step_attr": IntegerAttr(1, 32) if step is None else None},
                    result_types=[[reg_type(arch, t) for t in o["res"]]], regions=[Region(blk)])
                vals.extend(op.results)
                vals.extend(blk.args)
                for bop in build_ops(arch, o["body"], vals, GenOp):
                    blk.add_op(bop)
                blk.add_op(riscv_scf.YieldOp(*[vals[v] for v in o["yield"]]))
                out.append(op)
                continue
            else:
                raise ValueError(k)
        else:
            from xdsl.dialects.x86 import ops as x
            if k == "dimov":
                op = x.DI_MovOp(o["imm"], destination=outs[0])
            elif k == "dsmov":
                op = x.DS_MovOp(ins[0], destination=outs[0])
            elif k == "dsimul":
                op = x.DSI_ImulOp(ins[0], o["imm"], destination=outs[0])
            elif k == "rsadd":
                op = x.RS_AddOp(vals[io[0][0]], ins[0], register_out=reg_type(arch, io[0][1]))
            elif k == "rneg":
                op = x.R_NegOp(vals[io[0][0]], register_out=reg_type(arch, io[0][1]))
            elif k == "msmov":
                op = x.MS_MovOp(ins[0], ins[1], memory_offset=0)
            elif k == "gen":
                op = GenOp.build(operands=[ins, [vals[v] for v, _ in io]],
                                 result_types=[outs, [reg_type(arch, t) for _, t in io]])
            else:
                raise ValueError(k)
        vals.extend(op.results)
        out.append(op)
    return out


def build(case):
    arch = case["arch"]
    GenOp = _classes(arch)
    from xdsl.dialects.builtin import ModuleOp
    from xdsl.ir import Block, Region
    blk = Block(arg_types=[reg_type(arch, t) for t in case["args"]])
    vals = list(blk.args)
    for op in build_ops(arch, case["ops"], vals, GenOp):
        blk.add_op(op)
    ret = [vals[v] for v in case["ret"]]
    if arch == "riscv":
        from xdsl.dialects import riscv_func
        blk.add_op(riscv_func.ReturnOp(*ret))
        func = riscv_func.FuncOp("f", Region(blk), ([a.type for a in blk.args], [v.type for v in ret]))
    else:
        from xdsl.dialects import x86_func
        blk.add_op(GenOp.build(operands=[ret, []], result_types=[[], []]))
        blk.add_op(x86_func.RetOp())
        func = x86_func.FuncOp("f", Region(blk), ([a.type for a in blk.args], []))
    return ModuleOp([func]), func, blk


def current_values(blk):
    """values in definition order (the case numbering), read from the IR after allocation"""
    out = list(blk.args)
    def ops_of(b):
        for op in b.ops:
            if op.name in ("riscv_func.return", "x86_func.ret", "riscv_scf.yield"):
                continue
            out.extend(op.results)
            for r in op.regions:
                out.extend(r.block.args)
                ops_of(r.block)
    ops_of(blk)
    return out


E_OUT_OF_REGS, E_SAME_REG, E_ASSERT, E_VALUE, E_OTHER = 1, 2, 3, 4, 9


def impl(case):
    from xdsl.backend.register_stack import OutOfRegisters
    from xdsl.dialects.builtin import IntAttr
    from xdsl.utils.exceptions import DiagnosticException
    arch = case["arch"]
    _, func, blk = build(case)
    if arch == "riscv":
        from xdsl.backend.riscv.register_allocation import RegisterAllocatorLivenessBlockNaive as Alloc
        from xdsl.backend.riscv.register_stack import RiscvRegisterStack as Stack
    else:
        from xdsl.backend.x86.register_allocation import X86RegisterAllocator as Alloc
        from xdsl.backend.x86.register_stack import X86RegisterStack as Stack
    pool = case["pool"]
    stack = Stack.get(None if pool is None else [reg_type(arch, i) for i in pool], allow_infinite=case["inf"])
    alloc = Alloc(stack)
    try:
        alloc.allocate_func(func)
    except OutOfRegisters:
        return [-1, E_OUT_OF_REGS]
    except DiagnosticException:
        return [-1, E_SAME_REG]
    except AssertionError:
        return [-1, E_ASSERT]
    except ValueError:
        return [-1, E_VALUE]
    regs = []
    for v in current_values(blk):
        idx = getattr(v.type, "index", None)
        regs.append([idx.data] if isinstance(idx, IntAttr) else [])
    # uses must see the same (current) value objects: a detached value would make the IR ill-formed
    key = pool_key(arch)
    st = [list(stack.available_registers[key]), sorted(stack.allocatable_registers[key]),
          sorted([k, n] for k, n in stack.reserved_registers[key].items()),
          stack.next_infinite_indices[key]]
    return [regs, st]


# ------------------------------------------------------------------------------------------------
# independent oracle (its own reading of the case format; nothing below calls xDSL or the model)


def _mix(*xs):
    h = 0x9E3779B97F4A7C15
    for x in xs:
        h = ((h ^ (x & 0xFFFFFFFFFFFFFFFF)) * 0x100000001B3 + 0x632BE59BD9B4E019) & 0xFFFFFFFFFFFFFFFF
        h ^= h >> 29
    return (h | 1) & 0xFFFFFFFF          # never 0: a computed value is never mistaken for the constant zero


class _Flat:
    """value numbering of a case: args, then per op its results (loop: results, block args, body values)"""

    def __init__(self, case):
        self.case = case
        self.pre = []          # pre-assigned register per value id (None = unallocated)
        self.kind = {}         # value id -> ("arg",) | ("li", imm) | ("mv", src) | ("op",) | ("barg",)
        nv = 0
        for t in case["args"]:
            self.pre.append(tidx(t)); self.kind[nv] = ("arg",); nv += 1
        def number(ops):
            nonlocal nv
            outl = []
            for o in ops:
                if o["k"] == "for":
                    res = list(range(nv, nv + len(o["res"])))
                    for t in o["res"]:
                        self.pre.append(tidx(t)); self.kind[nv] = ("op",); nv += 1
                    bargs = list(range(nv, nv + len(o["bargs"])))
                    for t in o["bargs"]:
                        self.pre.append(tidx(t)); self.kind[nv] = ("barg",); nv += 1
                    body = number(o["body"])
                    outl.append((o, res, (bargs, body)))
                    continue
                rts = list(o.get("outs", [])) + [t for _, t in o.get("io", [])]
                res = list(range(nv, nv + len(rts)))
                for t in rts:
                    t = tidx(t)
                    self.pre.append(t)
                    if o["k"] in ("li", "dimov"):
                        self.kind[nv] = ("li", o["imm"])
                    elif o["k"] == "getreg" and t == 0 and case["arch"] == "riscv":
                        self.kind[nv] = ("li", 0)
                    elif o["k"] in ("mv", "dsmov"):
                        self.kind[nv] = ("mv", o["ins"][0])
                    else:
                        self.kind[nv] = ("op",)
                    nv += 1
                outl.append((o, res, None))
            return outl
        self.ops = number(case["ops"])
        self.nv = nv

    def ties(self):
        """groups of values the input forces into one register: in/out pairs, loop-carried groups"""
        out = []
        def go(ops):
            for o, res, extra in ops:
                if o["k"] == "for":
                    bargs, body = extra
                    for b, it, y, r in zip(bargs[1:], o["iters"], o["yield"], res):
                        if y == bargs[0]:
                            continue      # `yield %iv` is ordinary IR, not a constraint of the input (C19-kf-3)
                        out.append([b, it, y, r])
                    go(body)
                else:
                    no = len(o.get("outs", []))
                    for (v, _), r in zip(o.get("io", []), res[no:]):
                        out.append([v, r])
        go(self.ops)
        return out


def operands_of(o):
    if o["k"] == "for":
        return [o["lb"], o["ub"]] + ([] if o.get("step") is None else [o["step"]]) + list(o["iters"])
    return list(o.get("ins", [])) + [v for v, _ in o.get("io", [])]


def _defined_inside(bargs, body):
    d = set(bargs)
    for _, br, extra in body:
        d |= set(br)
        if extra:
            d |= _defined_inside(extra[0], extra[1])
    return d


def _used_inside(o, body):
    u = set(o["yield"])
    for bo, _, extra in body:
        u |= set(operands_of(bo))
        if extra:
            u |= _used_inside(bo, extra[1])
    return u


def find_conflict(fl, case, same):
    """Backward liveness over the program straight from the definitions.  Reports the first pair of
    distinct values (a, b) with same(a, b) such that both are live at one program point, or a is written by
    an operation while b is live after it.  A loop body may run again: every value live after the loop,
    the loop's ub/step, the induction variable and every outer value read in the body are live throughout
    the body; the yield operands are live at its end.  (An in/out operand that dies at its in/out use is
    not live after the operation, so sharing its register with the result is no conflict.)"""
    def clash(live, where):
        lv = sorted(live)
        for x, a in enumerate(lv):
            for b in lv[x + 1:]:
                if same(a, b):
                    return f"{where}: values {a} and {b} are live together"
        return None
    def walk(ops, live_out, tag):
        live = set(live_out)
        for oi in range(len(ops) - 1, -1, -1):
            o, resids, extra = ops[oi]
            where = f"{tag}op{oi}({o['k']})"
            for r in resids:
                for v in sorted(live - {r}):
                    if same(r, v):
                        return None, f"{where}: result {r} is written while value {v} is live"
            e = clash(live, where + " (after)")
            if e:
                return None, e
            live -= set(resids)
            if o["k"] == "for":
                bargs, body = extra
                inner = _defined_inside(bargs, body)
                outer_used = {v for v in _used_inside(o, body) if v not in inner}
                through = live | outer_used | {o["ub"]} | ({o["step"]} if o.get("step") is not None else set())
                bl, e = walk(body, through | set(o["yield"]) | {bargs[0]}, where + ".")
                if e:
                    return None, e
                e = clash(bl | {bargs[0]}, where + " (body entry)")
                if e:
                    return None, e
                # the induction variable is written (mv iv <- lb) at loop entry while everything that is
                # live throughout the body and the carried inputs (iter operands) are live
                for v in sorted((through | set(o["iters"]) | {o["ub"]}) - {bargs[0]}):
                    if same(bargs[0], v):
                        return None, f"{where}: the induction variable {bargs[0]} is written at loop entry while value {v} is live"
                live = through | set(operands_of(o))
            else:
                live |= set(operands_of(o))
            e = clash(live, where + " (before)")
            if e:
                return None, e
        return live, None
    _, e = walk(fl.ops, set(case["ret"]), "")
    return e


def precondition(case):
    """None if the input is inside the property's quantifier, else why not.  The register constraints the
    INPUT itself imposes must be satisfiable: values it forces into one register -- an in/out operand and
    its result (documented contract of HasRegisterConstraints: the in/out use is the last use, checked by
    x86-regalloc-verify-liveness), the members of a loop-carried group, values pre-assigned the same
    register, and anything tied to those -- are never live together.  No allocator can repair such an input
    without inserting copies, which is the job of the legalisation passes, not of the allocator."""
    fl = _Flat(case)
    parent = list(range(fl.nv))
    def find(x):
        while parent[x] != x:
            parent[x] = parent[parent[x]]
            x = parent[x]
        return x
    groups = fl.ties()
    seen = {}
    for g in groups:
        for v in g:
            if v in seen and seen[v] is not g and len(g) == 4:
                return "a value belongs to two loop-carried groups (the lowering needs a copy)"
            seen.setdefault(v, g)
        for v in g[1:]:
            parent[find(v)] = find(g[0])
    for o, _, _ in _all_ops(fl.ops):
        ios = [v for v, _ in o.get("io", [])] if o["k"] != "for" else list(o["iters"])
        if len(set(ios)) != len(ios):
            return "a value occupies two in/out slots of one operation"
    forced = {}
    for v, t in enumerate(fl.pre):
        if t is not None:
            forced.setdefault(find(v), set()).add(t)
    if case["arch"] == "riscv":
        for v, t in enumerate(fl.pre):
            if t == 0 and (fl.kind[v] != ("li", 0) or v in seen):
                return "a value that is not the constant 0 is pre-assigned (or tied to) the zero register"
    def same(a, b):
        ra, rb = find(a), find(b)
        if ra == rb:
            return True
        fa, fb = forced.get(ra), forced.get(rb)
        if fa and fb and (fa & fb):
            if case["arch"] == "riscv" and fa == {0} and fb == {0}:
                return False
            return True
        return False
    e = find_conflict(fl, case, same)
    return None if e is None else "the input's own register constraints are unsatisfiable: " + e


def _all_ops(ops):
    for o, r, extra in ops:
        yield o, r, extra
        if extra:
            yield from _all_ops(extra[1])


def holds(case, res):
    if res and res[0] == -1:
        return True, "allocation failed (explicit failure); the property speaks about successful allocation"
    pc = precondition(case)
    if pc is not None:
        return True, "outside the quantifier: " + pc
    regs_l, _st = res
    fl = _Flat(case)
    if len(regs_l) != fl.nv:
        return False, f"allocated IR has {len(regs_l)} values, the input {fl.nv}"
    reg = [r[0] if r else None for r in regs_l]
    riscv = case["arch"] == "riscv"
    ZERO = 0 if riscv else None
    pool = set(default_pool(case["arch"]) if case["pool"] is None else case["pool"])
    pre_regs = {t for t in fl.pre if t is not None}
    has_loop = any(o["k"] == "for" for o, _, _ in fl.ops)

    # (1) pre-assigned registers are kept
    for v, t in enumerate(fl.pre):
        if t is not None and reg[v] != t:
            return False, f"value {v} was pre-assigned register {t} but holds {reg[v]} after allocation"

    # (2) liveness + interference on the allocated registers
    def same(a, b):
        return reg[a] is not None and reg[a] == reg[b] and not (riscv and reg[a] == 0)
    e = find_conflict(fl, case, same)
    if e:
        return False, e + " and hold the same register"

    # (3) register machine vs SSA evaluation (loops run 0, 1, 2 times)
    used = set(case["ret"])
    for o, _, _ in _all_ops(fl.ops):
        used.update(operands_of(o))
        if o["k"] == "for":
            used.update(o["yield"])
    for niter in ((0, 1, 2) if has_loop else (0,)):
        ssa, rf = {}, {}
        def peek(v):
            return 0 if reg[v] == ZERO else rf.get(reg[v])
        def rd(v, where):
            if reg[v] is None:
                return None, f"{where}: value {v} is used but has no register"
            got = peek(v)
            if got != ssa[v]:
                return None, (f"{where}: operand value {v} is read from register {reg[v]}, which holds "
                              f"{'another value' if got is not None else 'nothing'} "
                              f"(expected {ssa[v]}, found {got})")
            return got, None
        def wr(v, x, where):
            ssa[v] = x
            if reg[v] is None:
                return f"{where}: result value {v} has no register after allocation"
            if reg[v] == ZERO:
                if x != 0:
                    return f"{where}: value {v} is not the constant zero but was placed in the zero register"
                return None
            rf[reg[v]] = x
            return None
        for a in range(len(case["args"])):
            ssa[a] = 0 if (reg[a] is not None and reg[a] == ZERO) else _mix(7, a)
            if a in used and reg[a] is not None and reg[a] != ZERO:
                rf[reg[a]] = ssa[a]
        def run(ops, tag):
            for oi, (o, resids, extra) in enumerate(ops):
                where = f"{tag}op{oi}({o['k']})"
                if o["k"] == "for":
                    bargs, body = extra
                    for v in operands_of(o):
                        _, e = rd(v, where)
                        if e: return e
                    for b, it, y, r in zip(bargs[1:], o["iters"], o["yield"], resids):
                        if not (reg[b] == reg[it] == reg[y] == reg[r]):
                            return (f"{where}: loop-carried values {b}, {it}, {y}, {r} hold registers "
                                    f"{reg[b]}, {reg[it]}, {reg[y]}, {reg[r]} (the lowering assumes one register)")
                    carried = [ssa[v] for v in o["iters"]]
                    ivx = ssa[o["lb"]]
                    e = wr(bargs[0], ivx, where + ".iv")                  # mv iv <- lb
                    if e: return e
                    _, e = rd(o["ub"], where + ".cond")                   # bge iv, ub
                    if e: return e
                    for it in range(niter):
                        for b, x in zip(bargs[1:], carried):
                            ssa[b] = x
                            if b in used and peek(b) != x:
                                return (f"{where}: loop-carried block argument {b} (register {reg[b]}) does not "
                                        f"hold the carried value at the start of iteration {it}")
                        e = run(body, where + f".iter{it}.")
                        if e: return e
                        carried = []
                        for v in o["yield"]:
                            x, e = rd(v, where + f".iter{it}.yield")
                            if e: return e
                            carried.append(x)
                        if peek(bargs[0]) != ssa[bargs[0]]:
                            return f"{where}: the induction variable's register {reg[bargs[0]]} was overwritten in the body"
                        if o.get("step") is not None:                     # add iv, iv, step
                            _, e = rd(o["step"], where + f".iter{it}.step")
                            if e: return e
                        e = wr(bargs[0], _mix(11, ssa[bargs[0]], it), where + ".iv")
                        if e: return e
                        _, e = rd(o["ub"], where + f".iter{it}.cond")     # blt iv, ub
                        if e: return e
                    for r, x in zip(resids, carried):
                        ssa[r] = x
                        if r in used and peek(r) != x:
                            return (f"{where}: loop result {r} (register {reg[r]}) does not hold the final "
                                    f"carried value after {niter} iteration(s)")
                    continue
                vals = []
                for v in operands_of(o):
                    x, e = rd(v, where)
                    if e: return e
                    vals.append(x)
                no = len(o.get("outs", []))
                for (v, _), r in zip(o.get("io", []), resids[no:]):
                    if reg[v] != reg[r]:
                        return f"{where}: in/out operand {v} (register {reg[v]}) and its result {r} (register {reg[r]}) differ"
                for j, r in enumerate(resids):
                    kd = fl.kind[r]
                    if kd[0] == "li":
                        x = kd[1] & 0xFFFFFFFF
                    elif kd[0] == "mv":
                        x = vals[0]
                    else:
                        x = _mix(13, len(tag), oi, j, *vals)
                    e = wr(r, x, where)
                    if e: return e
            return None
        e = run(fl.ops, "")
        if e is None:
            for v in case["ret"]:
                _, e = rd(v, "return")
                if e:
                    break
        if e:
            return False, f"[{niter} loop iteration(s)] " + e

    # (4) fresh registers come from the pool handed to the allocator (reserved registers untouched)
    for v in range(fl.nv):
        r = reg[v]
        if fl.pre[v] is None and r is not None:
            if not (r in pool or r in pre_regs or (r < 0 and case["inf"]) or (riscv and r == 0)):
                return False, (f"value {v} got register {r}, which is neither allocatable, pre-assigned in the "
                               f"input, nor an allowed infinite register")
    return True, ""


# ------------------------------------------------------------------------------------------------
# generators


RISCV_KINDS = (["li"] * 4 + ["mv"] * 2 + ["add", "sub", "mul"] * 2 + ["addi"] * 2 + ["sw", "pmv", "getreg"] + ["gen"] * 5)
X86_KINDS = (["dimov"] * 4 + ["dsmov"] * 2 + ["rsadd"] * 4 + ["rneg"] * 2 + ["dsimul"] * 2 + ["msmov"] + ["gen"] * 4)


def _gen_ops(rng, arch, n, visible, nv, dead_after, pick_type, wide, kinds):
    """n random operations over the visible values; returns (ops, ids defined, next free id)"""
    ops, defined = [], []
    def pick_val():
        cands = [v for v in visible + defined if v not in dead_after]
        if not cands:
            return None
        if rng.random() < (0.35 if wide else 0.6):
            return rng.choice(cands[-4:])
        return rng.choice(cands)
    for _ in range(n):
        k = rng.choice(kinds)
        o = {"k": k}
        need_in = {"li": 0, "dimov": 0, "getreg": 0, "mv": 1, "dsmov": 1, "addi": 1, "dsimul": 1, "add": 2,
                   "sub": 2, "mul": 2, "sw": 2, "msmov": 2, "rsadd": 1, "rneg": 0}.get(k)
        if k == "pmv":
            need_in = rng.randint(1, 3)
        if k == "gen":
            need_in = rng.choice([0, 1, 1, 2, 3])
        ins = [pick_val() for _ in range(need_in)]
        if any(v is None for v in ins):
            k = o["k"] = {"riscv": "li", "x86": "dimov", "x86v": "gen0"}[arch]
            ins = []
        o["ins"] = ins
        if k == "gen0":
            k = o["k"] = "gen"
            o["outs"] = [pick_type()]
            o["io"] = []
            defined.append(nv); nv += 1
            ops.append(o)
            continue
        if k in ("li", "dimov"):
            o["imm"] = rng.choice([0, 0, 1, 5, 7]) if arch == "riscv" else rng.choice([0, 1, 5])
            o["outs"] = [pick_type()]
        elif k == "getreg":
            o["outs"] = [rng.choice([0, 0, 10, 11, 12, 5, 8])]
        elif k in ("mv", "dsmov", "add", "sub", "mul"):
            o["outs"] = [pick_type()]
        elif k in ("addi", "dsimul"):
            o["imm"] = rng.choice([0, 1, 3])
            o["outs"] = [pick_type()]
        elif k in ("sw", "msmov"):
            o["outs"] = []
        elif k == "pmv":
            o["outs"] = [pick_type() for _ in ins]
        elif k in ("rsadd", "rneg"):
            v = pick_val()
            if v is None or v in ins:
                o = {"k": "dimov", "ins": [], "imm": 1, "outs": [None]}
            else:
                o["outs"] = []
                o["io"] = [[v, pick_type() if rng.random() < 0.3 else None]]
                if rng.random() < 0.9:
                    dead_after.add(v)
        elif k == "gen":
            o["outs"] = [pick_type() for _ in range(rng.choice([0, 1, 1, 2, 3]))]
            io = []
            for _ in range(rng.choice([0, 0, 1, 1, 2])):
                v = pick_val()
                if v is None or any(v == w for w, _ in io):
                    continue
                io.append([v, pick_type() if rng.random() < 0.3 else None])
                if rng.random() < 0.9:
                    dead_after.add(v)
            o["io"] = io
        cnt = len(o.get("outs", [])) + len(o.get("io", []))
        defined.extend(range(nv, nv + cnt))
        nv += cnt
        ops.append(o)
    return ops, defined, nv


def _gen_env(rng, arch, p_pre, p_pool, allow_neg_pre):
    dp = default_pool(arch)
    if rng.random() < p_pool:
        pool = rng.sample(dp, rng.randint(1, 5))
        if rng.random() < 0.15:
            pool.append(rng.choice(pool))           # a register included twice
    else:
        pool = None
    inf = rng.random() < 0.4
    # x86: also aliasing names of the same physical register (ecx / cx / cl, xmm3 / zmm3)
    pre_choices = {"riscv": [10, 11, 12, 5, 6, 8, 9],
                   "x86": [7, 6, 2, 0, 3, 12, ["r32", 1], ["r32", 2], ["r16", 3], ["r8", 1], ["r32", 8], ["r16", 0]],
                   "x86v": [0, 1, 2, ["sse", 3], ["sse", 0], ["avx512", 1], ["avx512", 4], ["sse", 2]]}[arch]
    if allow_neg_pre:
        pre_choices = pre_choices + [-1, -2]
    def pick_type():
        return rng.choice(pre_choices) if rng.random() < p_pre else None
    return pool, inf, pick_type


def gen_straight(rng, arch, nops=None, p_pre=0.15, p_pool=0.5, allow_neg_pre=False, wide=False):
    pool, inf, pick_type = _gen_env(rng, arch, p_pre, p_pool, allow_neg_pre)
    args = [pick_type() for _ in range(rng.choice([0, 0, 1, 2, 3]))]
    n = nops if nops is not None else rng.randint(1, 14 if wide else 9)
    dead_after = set()                               # values consumed by an in/out slot
    kinds = {"riscv": RISCV_KINDS, "x86": X86_KINDS, "x86v": ["gen"]}[arch]
    ops, defined, nv = _gen_ops(rng, arch, n, list(range(len(args))), len(args), dead_after, pick_type, wide, kinds)
    cands = [v for v in range(nv) if v not in dead_after]
    ret = rng.sample(cands, min(len(cands), rng.choice([0, 1, 1, 2, 3])))
    if arch != "riscv":
        # allocate_values_same_reg compares register TYPES: ecx and rcx are different types with one index.
        # The model identifies a register with its pool index, so values taking part in an in/out tie carry
        # only the pool's primary names (otherwise the real code may raise "Cannot allocate registers to the
        # same register" where the model sees one register).
        slots = [(args, a) for a in range(len(args))]
        tied = set()
        for o in ops:
            slots += [(o["outs"], q) for q in range(len(o.get("outs", [])))]
            for pair in o.get("io", []):
                tied.add(pair[0]); tied.add(len(slots))
                slots.append((pair, 1))
        for v in tied:
            box, key = slots[v]
            if isinstance(box[key], list):
                box[key] = box[key][1]
    return {"arch": arch, "pool": pool, "inf": inf, "args": args, "ops": ops, "ret": ret}


ARITH_KINDS = ["li", "add", "sub", "mul", "addi", "mv"]


def _gen_for(rng, env, visible, nv, dead, bounds=None, nested=None, copy_iters=0.85):
    """one riscv_scf.for: returns (operations to place before it, the loop, next id, result ids).
    The loop-carried inits are defined FIRST, then 0..3 operations computing the bounds (so fresh
    registers are needed while the inits are live), then the loop.  `bounds` = (lb, ub, step) fixed by the
    caller (inner loop of a nest: values defined outside the OUTER loop); `nested` = bounds for an inner
    loop to be placed in this loop's body, followed by temporaries."""
    arch, pick_type, wide, kinds = env
    prefix = []
    live_vis = [v for v in visible if v not in dead]
    k = rng.choice([0, 1, 1, 2]) if live_vis else 0
    # feeders: two single-use values defined ABOVE the inits and consumed by a bound computation BELOW them
    # (`%ub = add %n, %m`): fresh registers are then needed while the inits are live
    feeders = []
    if bounds is None and rng.random() < 0.6:
        prefix += [{"k": "li", "ins": [], "imm": rng.choice([2, 4, 6]), "outs": [None]},
                   {"k": "addi", "ins": [rng.choice(live_vis)], "imm": 1, "outs": [None]} if live_vis else
                   {"k": "li", "ins": [], "imm": 8, "outs": [None]}]
        feeders = [nv, nv + 1]; nv += 2
    iters = []
    for _ in range(k):
        if rng.random() < copy_iters:
            prefix.append({"k": "mv", "ins": [rng.choice(live_vis)], "outs": [None]})
            iters.append(nv); nv += 1
        else:
            cand = [v for v in live_vis if v not in iters]
            if cand:
                iters.append(rng.choice(cand))
    k = len(iters)
    bdef = []
    if bounds is None:
        bops, bdef, nv = _gen_ops(rng, arch, rng.randint(0, 3), visible + [v for v in iters if v not in visible], nv,
                                  dead, pick_type, wide, ARITH_KINDS)
        prefix += bops
        if feeders:
            prefix.append({"k": rng.choice(["add", "mul"]), "ins": feeders, "outs": [None]})
            bdef = bdef + [nv]; nv += 1
        cands = [v for v in visible + bdef if v not in dead and v not in iters]
        if len(cands) < 2:
            prefix += [{"k": "li", "ins": [], "imm": 1, "outs": [None]}, {"k": "li", "ins": [], "imm": 9, "outs": [None]}]
            cands += [nv, nv + 1]; bdef += [nv, nv + 1]; nv += 2
        pick = lambda: rng.choice(bdef) if bdef and rng.random() < 0.6 else rng.choice(cands)
        lb, ub = pick(), (bdef[-1] if feeders else pick())
        step = pick() if rng.random() < 0.5 else None
    else:
        lb, ub, step = bounds
    res = list(range(nv, nv + k)); nv += k
    bargs = list(range(nv, nv + k + 1)); nv += k + 1
    res_t = [pick_type() if rng.random() < 0.3 else None for _ in range(k)]
    barg_t = [pick_type() if rng.random() < 0.3 else None for _ in range(k + 1)]
    bdead = set(iters) | set(dead)
    bvis = [v for v in visible + bdef if v not in iters] + bargs
    body, body_def, nv = _gen_ops(rng, arch, rng.randint(1, 5) if nested is None else rng.randint(0, 3), bvis, nv,
                                  bdead, pick_type, wide, kinds)
    if nested is not None:
        ipre, iloop, nv, ires, _ = _gen_for(rng, env, bvis + body_def, nv, bdead, bounds=nested, copy_iters=1.0)
        body += ipre + [iloop]
        # values visible after the inner loop: everything visible before it, the copies' ids are consumed
        after_vis = bvis + body_def + ires
        tmp, tmp_def, nv = _gen_ops(rng, arch, rng.randint(1, 3), after_vis, nv, bdead, pick_type, wide, ARITH_KINDS)
        body += tmp
        body_def = body_def + ires + tmp_def
    ycand = [v for v in body_def if v not in bdead]
    rng.shuffle(ycand)
    yld = []
    for pos in range(k):
        if rng.random() < 0.04 and bargs[0] not in yld:      # at most once: a value in two groups is not modelled
            yld.append(bargs[0])               # `yield %iv` (the class of C19-kf-3)
        elif rng.random() < 0.2:
            yld.append(bargs[1 + pos])
        elif ycand:
            yld.append(ycand.pop())
        else:
            body.append({"k": "li", "ins": [], "imm": 3, "outs": [None]})
            yld.append(nv); nv += 1
    # outer values consumed by an in/out slot inside the body stay dead afterwards
    dead |= {v for v in bdead if v in visible}
    dead |= set(iters)
    loop = {"k": "for", "lb": lb, "ub": ub, "step": step, "iters": iters, "res": res_t, "bargs": barg_t,
            "body": body, "yield": yld}
    return prefix, loop, nv, res, bdef


def gen_loop(rng, p_pre=0.08, p_pool=0.4, copy_iters=0.85, wide=False, nest=False):
    """riscv function: preamble, one riscv_scf.for (nest=True: with an inner loop whose bounds are
    defined outside the outer loop and used nowhere else, followed by temporaries), postamble"""
    arch = "riscv"
    pool, inf, pick_type = _gen_env(rng, arch, p_pre, p_pool, False)
    if pool is not None and rng.random() < 0.7:
        pool = list(dict.fromkeys(pool + rng.sample(default_pool(arch), 4 if nest else 3)))
    args = [pick_type() for _ in range(rng.choice([0, 1, 2]))]
    dead = set()
    kinds = [k for k in RISCV_KINDS if k != "gen"] + ["gen"] * 2
    env = (arch, pick_type, wide, kinds)
    pre_ops, pre_def, nv = _gen_ops(rng, arch, rng.randint(2, 5), list(range(len(args))), len(args), dead,
                                    pick_type, wide, kinds)
    visible = list(range(len(args))) + pre_def
    nested = None
    if nest:
        # the inner loop's lb / ub / step: defined before the outer loop, used by nothing else
        m = rng.choice([2, 3])
        src = [v for v in visible if v not in dead]
        for q in range(m):
            if src and rng.random() < 0.5:
                pre_ops.append({"k": "addi", "ins": [rng.choice(src)], "imm": 1, "outs": [None]})
            else:
                pre_ops.append({"k": "li", "ins": [], "imm": rng.choice([1, 2, 5]), "outs": [None]})
        ded = list(range(nv, nv + m)); nv += m
        nested = (ded[0], ded[1], ded[2] if m == 3 else None)
    prefix, loop, nv, res, bdef = _gen_for(rng, env, visible, nv, dead, nested=nested, copy_iters=copy_iters)
    post_vis = [v for v in visible + bdef if v not in loop["iters"]] + res
    post, post_def, nv = _gen_ops(rng, arch, rng.randint(0, 4), post_vis, nv, dead, pick_type, wide, kinds)
    cands = [v for v in post_vis + post_def if v not in dead]
    ret = rng.sample(cands, min(len(cands), rng.choice([0, 1, 2])))
    return {"arch": arch, "pool": pool, "inf": inf, "args": args, "ops": pre_ops + prefix + [loop] + post, "ret": ret}


# ------------------------------------------------------------------------------------------------
# case -> Coq term


def _cz(t):
    return "None" if t is None else f"(Some {coq_Z(t)})"


def _nl(vs):
    return coq_list(coq_nat(v) for v in vs)


NO_EFFECT_KINDS = ("pmv", "getreg")     # operations without the RegisterAllocatedMemoryEffect trait


def _sop(o, resids, ctor):
    k = o["k"]
    no = len(o.get("outs", []))
    if (k == "li" and o["imm"] == 0) or (k == "getreg" and o["outs"][0] == 0):
        kind = "KZero"
    elif k == "mv":
        kind = "KMv"
    else:
        kind = "KOther"
    io = coq_list(f"({coq_nat(v)}, {coq_nat(r)})" for (v, _), r in zip(o.get("io", []), resids[no:]))
    return (f"{ctor} {_nl(o.get('ins', []))} {_nl(resids[:no])} {io} {kind} "
            f"{coq_bool(k not in NO_EFFECT_KINDS)}")


def coq_expr(case):
    fl = _Flat(case)
    ops = []
    def loop(o, resids, extra, ctor, sctor):
        bargs, body = extra
        step = "None" if o.get("step") is None else f"(Some {coq_nat(o['step'])})"
        items = [loop(bo, br, be, "BF_", "B_") if bo["k"] == "for" else _sop(bo, br, sctor) for bo, br, be in body]
        return (f"{ctor} {coq_nat(o['lb'])} {coq_nat(o['ub'])} {step} {_nl(o['iters'])} {_nl(resids)} "
                f"{_nl(bargs)} {coq_list(items)} {_nl(o['yield'])}")
    for o, resids, extra in fl.ops:
        if o["k"] == "for":
            if any(bo["k"] == "for" for bo, _, _ in extra[1]):
                ops.append(loop(o, resids, extra, "F2_", "BS_"))     # depth two (deeper nests are not generated)
            else:
                ops.append(loop(o, resids, extra, "F_", "B_"))
        else:
            ops.append(_sop(o, resids, "S_"))
    ops.append(f"S_ {_nl(case['ret'])} [] [] KOther true")          # riscv_func.return / x86 sink
    pool = default_pool(case["arch"]) if case["pool"] is None else case["pool"]
    return (f"c19_case {coq_bool(case['arch'] == 'riscv')} {coq_list(coq_Z(r) for r in pool)} "
            f"{coq_bool(case['inf'])} {coq_list(_cz(t) for t in fl.pre)} {coq_list(ops)}")


# ------------------------------------------------------------------------------------------------
# known-finding classes (specific predicates on the case), non-triviality, run


def known(case, res):
    """C19-kf-1 / kf-2 are repaired (fixed entries, replayed).  Open: C19-kf-3 -- some riscv_scf.for yields its
    own induction variable in a loop-carried position."""
    fl = _Flat(case)
    for o, _, extra in _all_ops(fl.ops):
        if o["k"] == "for" and extra[0][0] in o["yield"]:
            return "C19-kf-3"
    return None


def nontrivial(case, res):
    if not res or res[0] == -1 or precondition(case) is not None:
        return None
    regs = [r[0] for r in res[0] if r]
    if len(set(regs)) < len(regs) and len(regs) >= 3:
        return json.dumps(case, sort_keys=True)
    return None


def _distribution(ctx, name, cases):
    kinds, sizes = {}, {}
    for c in cases:
        for o, _, _ in _all_ops(_Flat(c).ops):
            kinds[o["k"]] = kinds.get(o["k"], 0) + 1
        n = len(c["ops"])
        sizes[n] = sizes.get(n, 0) + 1
    ctx.coverage.setdefault("distribution", {})[name] = {
        "cases": len(cases),
        "op_kinds": kinds, "ops_per_function": {str(k): v for k, v in sorted(sizes.items())},
        "pre_assigned_values": sum(1 for c in cases for t in _Flat(c).pre if t is not None),
        "limited_pools": sum(1 for c in cases if c["pool"] is not None),
        "allow_infinite": sum(1 for c in cases if c["inf"]),
        "outside_quantifier": sum(1 for c in cases if precondition(c) is not None)}


def run(ctx: Ctx):
    thorough = ctx.tier == "thorough"
    rng = ctx.rng
    replay_findings(ctx, "functions", impl, holds)
    k = 10 if thorough else 1
    fams = [
        ("riscv-straight-line", [gen_straight(rng, "riscv", allow_neg_pre=(rng.random() < 0.2), wide=rng.random() < 0.5)
                                 for _ in range(100 * k)]),
        ("riscv-straight-line-many-live", [gen_straight(rng, "riscv", nops=rng.randint(10, 22), p_pre=0.05, p_pool=0.7,
                                                        wide=True) for _ in range(40 * k)]),
        ("x86-straight-line-gpr-aliases", [gen_straight(rng, "x86", p_pre=0.25, allow_neg_pre=(rng.random() < 0.1),
                                                        wide=rng.random() < 0.5) for _ in range(90 * k)]),
        ("x86-vector-aliases", [gen_straight(rng, "x86v", p_pre=0.25, wide=rng.random() < 0.5) for _ in range(50 * k)]),
        ("riscv-scf-for", [gen_loop(rng, wide=rng.random() < 0.5) for _ in range(100 * k)]),
        ("riscv-scf-for-nest2", [gen_loop(rng, wide=rng.random() < 0.5, nest=True) for _ in range(80 * k)]),
    ]
    allc = []
    for name, cases in fams:
        _distribution(ctx, name, cases)
        allc += cases
    # one family for the driver (one batch of coqc shards evaluated in parallel); the per-generator
    # distribution is recorded above
    differential(ctx, DiffSpec("functions", REQ, allc, impl, coq_expr, holds, known, nontrivial, shard=160))
    ctx.coverage["rule"] = __doc__.split("\n\n", 1)[1][:1500]
