"""C23 JIT worker: LLVM (through llvmlite.binding) as the Search oracle, in a process of its own.

Run as  `python -m harness.props.c23_jit`  by harness/props/c23.py.  Line protocol (JSON per line):
  request   {"ll": <text>, "fn": <name>, "args": [ty...], "ret": ty, "inputs": [[bits...], ...]}
  response  {"verify": null | <message>}                       first line (parse_assembly + verify)
            {"out": bits} | {"out": null} ...                   one line per input, flushed before the next call
            {"done": true}
Types are the integer codes of coq/C23/Model.v (w >= 1: iw, -32 float, -64 double).  Values travel as bit
patterns.  Integers of any width <= 64 are passed and returned as 64-bit registers (the callee only looks at the
low w bits; the result is masked).  The compiled code runs here so that a crash (SIGFPE from a wrong division,
SIGSEGV) or an endless loop kills this worker, not the check: the parent sees how many result lines arrived.
"""
from __future__ import annotations

import ctypes
import json
import struct
import sys


def ctype_of(ty: int):
    if ty >= 1:
        return ctypes.c_uint64
    if ty == -32:
        return ctypes.c_float
    if ty == -64:
        return ctypes.c_double
    raise ValueError(f"type {ty} cannot cross the JIT boundary")


def to_c(ty: int, bits: int):
    if ty >= 1:
        return bits & ((1 << ty) - 1)
    if ty == -32:
        return struct.unpack("<f", struct.pack("<I", bits & 0xFFFFFFFF))[0]
    return struct.unpack("<d", struct.pack("<Q", bits & 0xFFFFFFFFFFFFFFFF))[0]


def from_c(ty: int, v) -> int:
    if ty >= 1:
        return int(v) & ((1 << ty) - 1)
    if ty == -32:
        return struct.unpack("<I", struct.pack("<f", v))[0]
    return struct.unpack("<Q", struct.pack("<d", v))[0]


def main():
    from llvmlite import binding
    binding.initialize_native_target()
    binding.initialize_native_asmprinter()
    tm = binding.Target.from_default_triple().create_target_machine(opt=0)
    out = sys.stdout
    keep = []
    for line in sys.stdin:
        req = json.loads(line)
        try:
            mod = binding.parse_assembly(req["ll"])
            mod.verify()
        except Exception as e:  # LLVM rejects the IR
            out.write(json.dumps({"verify": str(e)[:400]}) + "\n")
            out.write(json.dumps({"done": True}) + "\n")
            out.flush()
            continue
        out.write(json.dumps({"verify": None}) + "\n")
        out.flush()
        if req["inputs"]:
            try:
                eng = binding.create_mcjit_compiler(mod, tm)
                eng.finalize_object()
                addr = eng.get_function_address(req["fn"])
                fty = ctypes.CFUNCTYPE(ctype_of(req["ret"]), *[ctype_of(t) for t in req["args"]])
                fn = fty(addr)
                keep.append((eng, mod, fn))      # never freed: the parent restarts this worker periodically
                for inp in req["inputs"]:
                    r = fn(*[to_c(t, b) for t, b in zip(req["args"], inp)])
                    out.write(json.dumps({"out": from_c(req["ret"], r)}) + "\n")
                    out.flush()
            except Exception as e:
                out.write(json.dumps({"error": repr(e)[:300]}) + "\n")
        out.write(json.dumps({"done": True}) + "\n")
        out.flush()


if __name__ == "__main__":
    main()
