"""Independent reference evaluator of MLIR semantics for func/arith/cf/scf programs (property C14).

Written from the MLIR dialect documentation, on BIT PATTERNS:
  * an integer / index value is its unsigned bit pattern in [0, 2^w) (index: w = 64);
  * a float value is its IEEE-754 bit pattern (f32: 32 bits, f64: 64 bits); arithmetic is done
    exactly on rationals (fractions.Fraction) and rounded once, to nearest-even, to the target
    format -- Python float arithmetic is NOT used, so neither the code under test nor the
    platform's double rounding can leak into the oracle.  Any NaN is one value (payload and
    sign of a NaN are not compared: MLIR leaves them unspecified);
  * an operation whose MLIR result is poison yields POISON, which propagates; immediate
    undefined behaviour (division by zero, signed division overflow) raises Excluded, as does a
    POISON value reaching an observable position (returned, passed to a call, branched on).
The xDSL interpreter is not used.  The evaluator reads the IR through generic accessors only
(op.name, operands, results, regions, successors, properties/attributes).
"""
from __future__ import annotations

from fractions import Fraction


class Excluded(Exception):
    """The run hits poison / undefined behaviour / the step budget: excluded from the comparison."""


class Unsupported(Exception):
    """Operation outside the evaluator's fragment."""


POISON = "poison"

# ---------------------------------------------------------------------------- floats
FMT = {"f32": (24, 128, 32), "f64": (53, 1024, 64)}   # precision, emax, total bits
NAN = "nan"


def fp_decode(bits: int, fmt: str):
    """-> ('nan',) | ('inf', sign) | ('fin', sign, Fraction)   (sign kept for zeros)"""
    p, emax, w = FMT[fmt]
    ebits = w - p
    sign = bits >> (w - 1) & 1
    e = bits >> (p - 1) & ((1 << ebits) - 1)
    m = bits & ((1 << (p - 1)) - 1)
    if e == (1 << ebits) - 1:
        return (NAN,) if m else ("inf", sign)
    bias = emax - 1
    if e == 0:
        val = Fraction(m, 1 << (p - 1)) * Fraction(2) ** (1 - bias)
    else:
        val = (1 + Fraction(m, 1 << (p - 1))) * Fraction(2) ** (e - bias)
    return ("fin", sign, val)


def fp_nan(fmt: str) -> int:
    p, emax, w = FMT[fmt]
    ebits = w - p
    return (((1 << ebits) - 1) << (p - 1)) | (1 << (p - 2))


def fp_inf(sign: int, fmt: str) -> int:
    p, emax, w = FMT[fmt]
    ebits = w - p
    return (sign << (w - 1)) | (((1 << ebits) - 1) << (p - 1))


def fp_encode(sign: int, mag: Fraction, fmt: str) -> int:
    """round |value| = mag (>= 0) to nearest-even in fmt, attach sign"""
    p, emax, w = FMT[fmt]
    bias = emax - 1
    emin = 2 - emax          # exponent of the smallest normal (value = 1.m * 2^emin)
    s = sign << (w - 1)
    if mag == 0:
        return s
    # find e with 2^e <= mag < 2^(e+1)
    n, d = mag.numerator, mag.denominator
    e = n.bit_length() - d.bit_length()
    if Fraction(2) ** e > mag:
        e -= 1
    elif Fraction(2) ** (e + 1) <= mag:
        e += 1
    e = max(e, emin)
    # quantum 2^(e - (p-1)); integer significand q = round_half_even(mag / quantum)
    quantum = Fraction(2) ** (e - (p - 1))
    x = mag / quantum
    q = x.numerator // x.denominator
    rem = x - q
    if rem > Fraction(1, 2) or (rem == Fraction(1, 2) and q & 1):
        q += 1
    if q == 1 << p:          # carried into the next binade
        q >>= 1
        e += 1
    if e >= emax:
        return fp_inf(sign, fmt)
    if q < 1 << (p - 1):     # subnormal (e == emin) or zero
        return s | q
    return s | ((e + bias) << (p - 1)) | (q - (1 << (p - 1)))


def fp_signed(d):
    return -d[2] if d[1] else d[2]


def fp_arith(op: str, a: int, b: int, fmt: str) -> int:
    x, y = fp_decode(a, fmt), fp_decode(b, fmt)
    if x[0] == NAN or y[0] == NAN:
        return fp_nan(fmt)
    if op == "sub":
        y = (y[0], 1 - y[1]) + y[2:]
        op = "add"
    if op == "add":
        if x[0] == "inf" or y[0] == "inf":
            if x[0] == "inf" and y[0] == "inf":
                return fp_inf(x[1], fmt) if x[1] == y[1] else fp_nan(fmt)
            return fp_inf(x[1] if x[0] == "inf" else y[1], fmt)
        r = fp_signed(x) + fp_signed(y)
        if r == 0:
            # exact zero sum: +0 unless both addends are negative (zero) (round-to-nearest rule)
            if x[2] == 0 and y[2] == 0:
                return fp_encode(1 if (x[1] and y[1]) else 0, Fraction(0), fmt)
            return fp_encode(0, Fraction(0), fmt)
        return fp_encode(1 if r < 0 else 0, abs(r), fmt)
    sign = x[1] ^ y[1]
    if op == "mul":
        if x[0] == "inf" or y[0] == "inf":
            other = y if x[0] == "inf" else x
            if other[0] == "fin" and other[2] == 0:
                return fp_nan(fmt)
            return fp_inf(sign, fmt)
        return fp_encode(sign, x[2] * y[2], fmt)
    if op == "div":
        if x[0] == "inf":
            return fp_nan(fmt) if y[0] == "inf" else fp_inf(sign, fmt)
        if y[0] == "inf":
            return fp_encode(sign, Fraction(0), fmt)
        if y[2] == 0:
            return fp_nan(fmt) if x[2] == 0 else fp_inf(sign, fmt)
        return fp_encode(sign, x[2] / y[2], fmt)
    raise Unsupported(op)


def fp_neg(a: int, fmt: str) -> int:
    return a ^ (1 << (FMT[fmt][2] - 1))


def fp_isnan(a: int, fmt: str) -> bool:
    return fp_decode(a, fmt)[0] == NAN


def fp_key(d):
    """total pre-order value for comparisons of non-NaN numbers (zeros compare equal)"""
    if d[0] == "inf":
        return (1, 0) if not d[1] else (-1, 0)
    return (0, fp_signed(d))


def fp_cmp(pred: int, a: int, b: int, fmt: str) -> bool:
    x, y = fp_decode(a, fmt), fp_decode(b, fmt)
    un = x[0] == NAN or y[0] == NAN
    if un:
        lt = eq = gt = False
    else:
        kx, ky = fp_key(x), fp_key(y)
        lt, eq, gt = kx < ky, kx == ky, kx > ky
    table = {
        0: False, 1: eq, 2: gt, 3: gt or eq, 4: lt, 5: lt or eq, 6: (lt or gt), 7: not un,
        8: eq or un, 9: gt or un, 10: gt or eq or un, 11: lt or un, 12: lt or eq or un,
        13: lt or gt or un, 14: un, 15: True,
    }
    return table[pred]


def fp_minmax(name: str, a: int, b: int, fmt: str) -> int:
    x, y = fp_decode(a, fmt), fp_decode(b, fmt)
    is_max = name.startswith("max")
    if name.endswith("imumf"):          # minimumf / maximumf: NaN if either is NaN, -0 < +0
        if x[0] == NAN or y[0] == NAN:
            return fp_nan(fmt)
    else:                               # minnumf / maxnumf: the other operand if one is NaN
        if x[0] == NAN and y[0] == NAN:
            return fp_nan(fmt)
        if x[0] == NAN:
            return b
        if y[0] == NAN:
            return a
    kx, ky = fp_key(x), fp_key(y)
    if kx == ky:                        # equal numbers (possibly zeros of different sign)
        if x[0] == "fin" and x[2] == 0 and x[1] != y[1]:
            if name.endswith("imumf"):
                neg, pos = (a, b) if x[1] else (b, a)
                return pos if is_max else neg
            return None                 # minnumf/maxnumf on {-0,+0}: either is allowed
        return a
    if is_max:
        return a if kx > ky else b
    return a if kx < ky else b


# ---------------------------------------------------------------------------- integers
def width_of(ty) -> int:
    n = ty.name
    if n == "integer_type":
        return ty.width.data
    if n == "index":
        return 64
    raise Unsupported(f"type {ty}")


def fmt_of(ty):
    n = ty.name
    return {"f32": "f32", "f64": "f64"}.get(n)


def sgn(x: int, w: int) -> int:
    return x - (1 << w) if x >> (w - 1) & 1 else x


def trunc_div(a: int, b: int) -> int:
    q = abs(a) // abs(b)
    return -q if (a < 0) != (b < 0) else q


def int_binop(name: str, a: int, b: int, w: int):
    """a, b bit patterns; -> bit pattern | POISON; raises Excluded on immediate UB"""
    M = 1 << w
    sa, sb = sgn(a, w), sgn(b, w)
    smin = -(1 << (w - 1))
    if name == "addi":
        return (a + b) % M
    if name == "subi":
        return (a - b) % M
    if name == "muli":
        return (a * b) % M
    if name == "andi":
        return a & b
    if name == "ori":
        return a | b
    if name == "xori":
        return a ^ b
    if name in ("divui", "remui", "ceildivui"):
        if b == 0:
            raise Excluded("division by zero")
        if name == "divui":
            return a // b
        if name == "remui":
            return a % b
        return -(-a // b) % M
    if name in ("divsi", "remsi", "ceildivsi", "floordivsi"):
        if sb == 0:
            raise Excluded("division by zero")
        if sa == smin and sb == -1:
            raise Excluded("signed division overflow")
        if name == "divsi":
            return trunc_div(sa, sb) % M
        if name == "remsi":
            return (sa - trunc_div(sa, sb) * sb) % M
        if name == "floordivsi":
            return (sa // sb) % M
        return (-((-sa) // sb)) % M
    if name in ("shli", "shrui", "shrsi"):
        if b >= w:
            return POISON
        if name == "shli":
            return (a << b) % M
        if name == "shrui":
            return a >> b
        return (sa >> b) % M
    if name == "minsi":
        return a if sa <= sb else b
    if name == "maxsi":
        return a if sa >= sb else b
    if name == "minui":
        return min(a, b)
    if name == "maxui":
        return max(a, b)
    raise Unsupported(name)


def int_cmp(pred: int, a: int, b: int, w: int) -> bool:
    sa, sb = sgn(a, w), sgn(b, w)
    return [a == b, a != b, sa < sb, sa <= sb, sa > sb, sa >= sb, a < b, a <= b, a > b, a >= b][pred]


# ---------------------------------------------------------------------------- programs
class Machine:
    """Evaluates `func.func`s of a module.  External functions (declarations) are the observable
    effects: each call is appended to `trace` and returns values that depend only on the callee
    name, the argument bit patterns and the number of earlier external calls."""

    def __init__(self, module, budget: int = 20000):
        self.funcs = {}
        for op in module.body.block.ops:
            if op.name == "func.func":
                self.funcs[op.sym_name.data] = op
        self.trace = []
        self.budget = budget

    def tick(self):
        self.budget -= 1
        if self.budget < 0:
            raise Excluded("step budget")

    # -- helpers
    @staticmethod
    def attr_bits(attr, ty):
        f = fmt_of(ty)
        if f is not None:
            import struct
            v = attr.value.data
            if f == "f64":
                return struct.unpack("<Q", struct.pack("<d", v))[0]
            return struct.unpack("<I", struct.pack("<f", v))[0]
        w = width_of(ty)
        return attr.value.data % (1 << w)

    def get(self, env, v):
        try:
            return env[v]
        except KeyError:
            raise Unsupported("use of an undefined value")

    def observe(self, vals):
        if any(v is POISON for v in vals):
            raise Excluded("poison observed")
        return list(vals)

    def ext_call(self, name, args, result_types):
        args = self.observe(args)
        k = len(self.trace)
        self.trace.append((name, tuple(args)))
        outs = []
        for i, ty in enumerate(result_types):
            f = fmt_of(ty)
            w = FMT[f][2] if f else width_of(ty)
            # deterministic mixing without Python's hash(): a small LCG over the inputs
            x = 0x9E3779B97F4A7C15 ^ (k * 0x100000001B3) ^ (i << 7)
            for ch in name:
                x = (x * 1099511628211 + ord(ch)) % (1 << 64)
            for a in args:
                x = (x * 6364136223846793005 + a + 1442695040888963407) % (1 << 64)
            x ^= x >> 29
            v = x % (1 << w)
            if f and fp_isnan(v, f):
                v = fp_nan(f)
            outs.append(v)
        return outs

    # -- regions
    def call(self, name, args):
        f = self.funcs.get(name)
        if f is None:
            raise Unsupported(f"call of unknown function {name}")
        if not f.body.blocks:
            return self.ext_call(name, args, list(f.function_type.outputs.data))
        return self.run_cfg(f.body, list(args), {})

    def run_cfg(self, region, args, outer_env):
        """multi-block region; returns the operands of the func.return / scf.yield that leaves it"""
        env = dict(outer_env)
        block = region.blocks[0]
        while True:
            self.tick()
            if len(block.args) != len(args):
                raise Unsupported("block argument count")
            for ba, v in zip(block.args, args):
                env[ba] = v
            nxt = None
            for op in block.ops:
                r = self.step(op, env)
                if r is not None:
                    nxt = r
                    break
            if nxt is None:
                raise Unsupported("block without terminator")
            kind = nxt[0]
            if kind == "ret":
                return nxt[1]
            block, args = nxt[1], nxt[2]

    def run_block(self, region, args, env):
        """single-block region of an scf op: returns ('yield'|'cond', values)"""
        if len(region.blocks) != 1:
            raise Unsupported("scf region with several blocks")
        r = self.run_cfg(region, args, env)
        return r

    # -- one op; returns None for a non-terminator
    def step(self, op, env):
        self.tick()
        n = op.name
        g = lambda v: self.get(env, v)
        if n == "arith.constant":
            env[op.results[0]] = self.attr_bits(op.properties["value"], op.results[0].type)
            return None
        if n.startswith("arith."):
            self.arith(op, env)
            return None
        if n == "func.return":
            # a poison result is not an error: that result slot is simply not compared (same_float_aware)
            return ("ret", [g(v) for v in op.operands])
        if n == "scf.yield":
            return ("ret", [g(v) for v in op.operands])
        if n == "scf.condition":
            return ("ret", [g(v) for v in op.operands])
        if n == "func.call":
            outs = self.call(op.properties["callee"].root_reference.data, self.observe([g(v) for v in op.operands]))
            for r, v in zip(op.results, outs):
                env[r] = v
            return None
        if n == "cf.br":
            return ("br", op.successors[0], [g(v) for v in op.operands])
        if n == "cf.cond_br":
            c = g(op.operands[0])
            if c is POISON:
                raise Excluded("branch on poison")
            then_args = [g(v) for v in op.then_arguments]
            else_args = [g(v) for v in op.else_arguments]
            return ("br", op.successors[0], then_args) if c & 1 else ("br", op.successors[1], else_args)
        if n == "cf.switch":
            c = g(op.flag)
            if c is POISON:
                raise Excluded("switch on poison")
            w = width_of(op.flag.type)
            cases = [] if op.case_values is None else [x % (1 << w) for x in op.case_values.get_values()]
            for i, cv in enumerate(cases):
                if cv == c:
                    return ("br", op.case_blocks[i], [g(v) for v in op.case_operand[i]])
            return ("br", op.default_block, [g(v) for v in op.default_operands])
        if n == "cf.assert":
            c = g(op.operands[0])
            if c is POISON:
                raise Excluded("assert on poison")
            if not c & 1:
                self.trace.append(("assert-failed",))
                raise AssertFailed()
            return None
        if n == "scf.if":
            c = g(op.operands[0])
            if c is POISON:
                raise Excluded("scf.if on poison")
            region = op.regions[0] if c & 1 else op.regions[1]
            outs = self.run_block(region, [], env) if region.blocks else []
            if len(outs) != len(op.results):
                raise Unsupported("scf.if yield arity")
            for r, v in zip(op.results, outs):
                env[r] = v
            return None
        if n == "scf.for":
            lb, ub, st = (g(v) for v in op.operands[:3])
            if POISON in (lb, ub, st):
                raise Excluded("scf.for bounds poison")
            w = width_of(op.operands[0].type)
            lb, ub, st = sgn(lb, w), sgn(ub, w), sgn(st, w)
            if st <= 0:
                raise Excluded("scf.for step <= 0")
            carried = [g(v) for v in op.operands[3:]]
            i = lb
            while i < ub:
                carried = self.run_block(op.regions[0], [i % (1 << w)] + carried, env)
                i += st
            for r, v in zip(op.results, carried):
                env[r] = v
            return None
        if n == "scf.while":
            carried = [g(v) for v in op.operands]
            while True:
                out = self.run_block(op.regions[0], carried, env)
                c, fwd = out[0], out[1:]
                if c is POISON:
                    raise Excluded("scf.condition on poison")
                if not c & 1:
                    for r, v in zip(op.results, fwd):
                        env[r] = v
                    return None
                carried = self.run_block(op.regions[1], fwd, env)
        if n == "scf.execute_region":
            outs = self.run_cfg(op.regions[0], [], env)
            for r, v in zip(op.results, outs):
                env[r] = v
            return None
        raise Unsupported(n)

    def arith(self, op, env):
        n = op.name[len("arith."):]
        a = [self.get(env, v) for v in op.operands]
        res = op.results[0]
        rt = res.type

        def out(v):
            env[res] = v

        if n == "select":
            c = a[0]
            if c is POISON:
                return out(POISON)
            return out(a[1] if c & 1 else a[2])
        if n == "cmpi":
            if POISON in a:
                return out(POISON)
            return out(int(int_cmp(op.properties["predicate"].value.data, a[0], a[1], width_of(op.operands[0].type))))
        if n == "cmpf":
            if POISON in a:
                return out(POISON)
            return out(int(fp_cmp(op.properties["predicate"].value.data, a[0], a[1], fmt_of(op.operands[0].type))))
        f = fmt_of(rt)
        if f is not None:
            if n in ("addf", "subf", "mulf", "divf"):
                if POISON in a:
                    return out(POISON)
                return out(fp_arith(n[:-1], a[0], a[1], f))
            if n == "negf":
                return out(POISON if a[0] is POISON else fp_neg(a[0], f))
            if n in ("minimumf", "maximumf", "minnumf", "maxnumf"):
                if POISON in a:
                    return out(POISON)
                v = fp_minmax(n, a[0], a[1], f)
                if v is None:
                    raise Excluded("minnumf/maxnumf of zeros of different sign (either result allowed)")
                return out(v)
            raise Unsupported(op.name)
        if n in ("extui", "extsi", "trunci", "index_cast", "index_castui"):
            if a[0] is POISON:
                return out(POISON)
            wi, wo = width_of(op.operands[0].type), width_of(rt)
            x = a[0]
            if n in ("extsi", "index_cast") and wo > wi:
                x = sgn(x, wi)
            return out(x % (1 << wo))
        if len(a) == 2:
            if POISON in a:
                # a division whose divisor is poison could be UB: exclude; otherwise propagate
                if n in ("divui", "divsi", "remui", "remsi", "ceildivui", "ceildivsi", "floordivsi"):
                    raise Excluded("division with poison operand")
                return out(POISON)
            return out(int_binop(n, a[0], a[1], width_of(rt)))
        raise Unsupported(op.name)


class AssertFailed(Exception):
    pass


def run_func(module, name: str, args: list[int], budget: int = 20000):
    """-> ('ok', results, trace) | ('abort', trace) ; raises Excluded / Unsupported"""
    m = Machine(module, budget)
    try:
        res = m.call(name, list(args))
    except AssertFailed:
        return ("abort", None, m.trace)
    return ("ok", res, m.trace)


def same_float_aware(types, r1, r2) -> bool:
    """equal bit patterns, except that any two NaNs of a float type are the same value"""
    if len(r1) != len(r2):
        return False
    for ty, x, y in zip(types, r1, r2):
        if x is POISON:          # the original result is poison: any value refines it
            continue
        if x == y:
            continue
        f = fmt_of(ty)
        if f and x is not POISON and y is not POISON and fp_isnan(x, f) and fp_isnan(y, f):
            continue
        return False
    return True
