"""C28 -- Equality saturation preserves program results.

Tie: hand-written Coq model (coq/C28/Model.v) of eqsat-create-eclasses (insert_eclass_ops), eqsat-add-costs
(get_node_base_cost / calculate_node_total_cost / the `while changed` fixed point with strict `<` update of
min_cost_index) and eqsat-extract (reverse walk, three branches, erase) vs the real passes.  Every case is
materialised as real xDSL IR (func.func with arith / test ops and real equivalence.class / const_class ops,
built through the dialect constructors and operand patching so that cyclic and out-of-order e-graphs exist),
dumped back into the model's representation by reading operands, result counts and the eqsat_cost /
min_cost_index attributes, and pushed through the real passes step by step; the complete block (op names,
payload, operands by position, eqsat_cost, min_cost_index) after EVERY stage is compared with the model's.

Families: pipeline (generated pure arith functions on i32/index: shared subexpressions, unused values,
0-3 results, pre-set costs, cost dictionaries, default / no default; plus a stream with multi-result and
zero-result ops for the diagnostics) through create -> add-costs -> extract; sound-egraph (e-graphs built by
the generator from a source function by sound enrichments: commuted members, x*1 / x+0 / x-0 cyclic members,
x*2 = x+x, (x+y)-y, congruent duplicates merged; random non-negative costs with many ties) through add-costs
-> extract; wild-egraph (random members, raw non-class operands, cycles, shuffled block order, missing / bad /
negative costs, pre-set indices) through add-costs -> extract; wild-extract (hand-set min_cost_index incl. out
of range, negative, cyclic choices, shared members) through extract only; saturated (create -> REAL
apply-eqsat-pdl-interp with sound PDL rules lowered by xDSL's own convert-pdl-to-pdl-interp +
convert-pdl-interp-to-eqsat-pdl-interp -> the engine's e-graph is dumped and add-costs -> extract are compared
with the model on it; the sources plant the rules' left-hand sides, decoy constants, and pairs of operations that
differ ONLY in a property -- arith.cmpi with two different predicates, addi/subi/muli with different overflow flags
-- on operands that a unit rule (x+0, x*1, ...) makes congruent, returned as i1 / through select / extui; an
exception of the engine on such a valid input is an oracle failure with that input as witness).
Oracle (independent of the model and of the passes): my own evaluator of arith with two's complement wrap-around
runs the source function and the final extracted function on boundary + random inputs; results must be equal
and the extracted function must be executable in block order (no use before definition, no left-over class
without an executable member).  The saturation engine itself (hash-consing, union-find, rebuilding) is NOT
modelled: for the saturated family only the oracle speaks about it.
Non-trivial: the final program differs from the input of the first stage and (for e-graph families) some class
had at least two members; distinct = distinct final block.
"""
from __future__ import annotations

import atexit
import json
import os
import shutil
import signal

import time

from harness.common import (BUILD, NCPU, Ctx, ModelUnavailable, _report, coq_Z, eval_cases, replay_findings)

META = {
    "id": "C28",
    "title": "Equality saturation preserves program results",
    "design_ref": "DESIGN.md section 8.C28",
    "technique": "Coq proof about an executable model of the e-class creation, cost fixed point and extraction passes against a valuation semantics of e-graphs (class invariant abstracts the saturation engine) + model-vs-code correspondence after every pass + independent evaluator oracle, also across the real saturation engine",
    "level_text": (
        "Theorems in coq/Props/C28.v about the model (one function body = list of operations with ids, operand "
        "lists, eqsat_cost, min_cost_index; operation semantics uninterpreted), for ALL programs / e-graphs and all "
        "inputs: (1) C28_extract_sound / C28_costs_extract_sound: on EVERY e-graph (cyclic, any block order, any "
        "min_cost_index) modelled by a valuation in which all members of a class are equal (the class invariant "
        "sound rules maintain), whatever eqsat-add-costs + eqsat-extract leave returns -- if it is executable -- "
        "exactly the e-graph's result values; the cost pass only writes the two attributes. (2) C28_costs_terminate: "
        "the `while changed` loop terminates when no cost is negative (lexicographic measure: classes without "
        "cost, sum of class costs) and more fuel never changes the answer; C28_costs_negative_cycle_diverges: with "
        "eqsat_cost -1 on the cycle x = x*1 it never terminates (for every fuel). (3) C28_costs_minimal: at the "
        "fixed point the cost of a class is <= the total cost of each member; C28_costs_chosen: every class with a "
        "computable member (least fixed point `costable`) gets a min_cost_index in range. (4) C28_extract_total: on "
        "e-graphs satisfying ClassOp.verify_'s conditions in definition-before-use order with every class chosen, "
        "extraction raises nothing, leaves no e-class and the result is executable. (5) C28_create_extract_id: for "
        "every well-formed source function and non-negative default cost / cost dictionary, create ; add-costs ; "
        "extract succeeds, leaves no e-class and returns for every semantics and every input what the source "
        "returns. The model is tied to the code by comparing the complete block after every pass on generated "
        "functions and hand-built (cyclic, tied, malformed) e-graphs, and on the real engine's e-graphs. "
        "Executability of what extraction leaves on the ENGINE's (cyclic, out-of-order) e-graphs is NOT proved: the "
        "oracle found it violated (known finding C28-kf-2: use before definition); finding C28-kf-1 (PDL lowering "
        "dropped zero-attribute checks) was fixed in 19f27a5."),
    "level_note": (
        "Trusted: Coq kernel; hand-written model (object identity as integer ids, use lists recomputed from operand "
        "lists, eclass_costs dict as association list); builder/dumper between abstract blocks and real IR; the "
        "harness; CPython semantics. Modelled: insert_eclass_ops, get_node_base_cost, calculate_node_total_cost, "
        "add_eqsat_costs (both loops), EqsatAddCostsPass.apply (only blocks with e-classes), eqsat_extract (three "
        "branches, Python negative indexing of min_cost_index, Rewriter.erase_op's use check) with their "
        "exceptions. Not modelled (oracle only): the saturation engine (apply_eqsat_pdl_interp, "
        "interpreters/eqsat_pdl_interp.py: matching, hash-consing, union-find merging, rebuilding) and the PDL "
        "lowering -- abstracted to the class invariant `models`; eqsat-create-egraphs / equivalence.graph regions; "
        "multi-block functions; use of a result other than the first; e-classes nested as members of e-classes; the "
        "cost JSON file reader. Termination is proved as existence of sufficient fuel (+ fuel monotonicity), the case "
        "files use 2*|block|+4 sweeps and report an OutOfFuel of the model as a divergence."),
}
COQ_TARGETS = ["C28/Enc.vo", "C28/Proofs.vo", "C28/ProofsCosts.vo", "C28/ProofsExtract.vo", "C28/ProofsCreate.vo",
               "C28/ProofsExamples.vo", "Props/C28.vo"]
REQ = ["C28.Model", "C28.Enc"]
ASSUMPTIONS = [
    "operation ids are pairwise distinct (object identity) and no operand names a return operation (`ids_ok`)",
    "C28_extract_sound: the e-graph has a valuation satisfying every operation and making all members of a class equal (`models`): this is what sound rewrite rules / merging must maintain; the extracted block is executable (hypothesis, proved only for ordered e-graphs)",
    "C28_costs_terminate: eqsat_cost attributes, cost dictionary values and the default are non-negative",
    "C28_extract_total: `wf_egraph` (ClassOp.verify_ conditions, definition-before-use order, every class has an index in range)",
    "C28_create_extract_id: `wf_src` (unique ids, definition before use, no e-class ops, single-result ops, zero-result return, integer non-negative eqsat_cost if present)",
]
TRUSTED = []

# ---------------------------------------------------------------------------- name table
N_RET, N_CLASS, N_CCLASS, N_CONST, N_ADD, N_MUL, N_SUB, N_AND, N_OR, N_XOR, N_TEST, N_CMPI, N_SELECT, N_EXTUI = range(14)
NAMES = {
    N_RET: "func.return", N_CLASS: "equivalence.class", N_CCLASS: "equivalence.const_class",
    N_CONST: "arith.constant", N_ADD: "arith.addi", N_MUL: "arith.muli", N_SUB: "arith.subi",
    N_AND: "arith.andi", N_OR: "arith.ori", N_XOR: "arith.xori", N_TEST: "test.op",
    N_CMPI: "arith.cmpi", N_SELECT: "arith.select", N_EXTUI: "arith.extui",
}
# payload (`attr`) of a node: the constant's value; the cmpi predicate (0 eq 1 ne 2 slt 3 sle 4 sgt 5 sge 6 ult 7 ule
# 8 ugt 9 uge); for addi/subi/muli the overflow flags (1 nsw, 2 nuw, 3 both): operations that differ ONLY in
# properties must stay different e-nodes
OVERFLOW_OPS = (N_ADD, N_SUB, N_MUL)
CODES = {v: k for k, v in NAMES.items()}
BINOPS = [N_ADD, N_MUL, N_SUB, N_AND, N_OR, N_XOR]
COMM = [N_ADD, N_MUL, N_AND, N_OR, N_XOR]
WIDTH = {"i32": 32, "index": 64}

# a node of the abstract representation: [name, attr, operands, nres, cost, mci]
#   operand: [0, argindex] | [1, position of the defining op in the block]
#   cost: [] | [c] | [0, 0] (an attribute that is not an IntAttr);  mci: [] | [k]


def A(i):
    return [0, i]


def R(i):
    return [1, i]


_X = None


def X():
    global _X
    if _X is not None:
        return _X
    from types import SimpleNamespace

    from xdsl.context import Context
    from xdsl.dialects import arith, builtin, eqsat_pdl_interp, equivalence, func, pdl, pdl_interp, test
    from xdsl.dialects.builtin import IndexType, IntAttr, IntegerAttr, IntegerType, ModuleOp, StringAttr, i32
    from xdsl.ir import Block, BlockArgument, OpResult, Region
    from xdsl.parser import Parser
    from xdsl.transforms.apply_eqsat_pdl_interp import apply_eqsat_pdl_interp
    from xdsl.transforms.convert_pdl_interp_to_eqsat_pdl_interp import ConvertPDLInterpToEqsatPDLInterpPass
    from xdsl.transforms.convert_pdl_to_pdl_interp.conversion import ConvertPDLToPDLInterpPass
    from xdsl.transforms.eqsat_add_costs import EqsatAddCostsPass
    from xdsl.transforms.eqsat_create_eclasses import EqsatCreateEclassesPass
    from xdsl.transforms.eqsat_extract import EqsatExtractPass
    from xdsl.utils.exceptions import DiagnosticException

    ctx = Context()
    for d in (arith.Arith, func.Func, builtin.Builtin, pdl.PDL, pdl_interp.PDLInterp, equivalence.Equivalence,
              eqsat_pdl_interp.EqSatPDLInterp, test.Test):
        ctx.load_dialect(d)
    binop = {N_ADD: arith.AddiOp, N_MUL: arith.MuliOp, N_SUB: arith.SubiOp, N_AND: arith.AndIOp,
             N_OR: arith.OrIOp, N_XOR: arith.XOrIOp}
    _X = SimpleNamespace(**{k: v for k, v in locals().items() if not k.startswith("_")})
    return _X


class HarnessBug(Exception):
    pass


def ty_of(x, ty):
    return x.i32 if ty == "i32" else x.IndexType()


def build_ir(nargs: int, ty: str, body: list):
    """abstract block -> real xDSL module (ops created with a placeholder operand, then patched)"""
    x = X()
    t = ty_of(x, ty)
    block = x.Block(arg_types=[t] * nargs)
    i1 = x.IntegerType(1)
    dummy = x.test.TestOp(result_types=[t, i1])
    dv, dv1 = dummy.results

    def is_i1(o):       # only comparison results are i1 (they occur in saturation sources only)
        return o[0] == 1 and body[o[1]][0] == N_CMPI

    def flags(code):
        fl = [f for b, f in ((1, x.arith.IntegerOverflowFlag.NSW), (2, x.arith.IntegerOverflowFlag.NUW)) if code & b]
        return x.arith.IntegerOverflowAttr(fl if fl else "none")

    ops = []
    for name, attr, operands, nres, cost, mci in body:
        k = len(operands)
        if name == N_RET:
            op = x.func.ReturnOp(*[dv1 if is_i1(o) else dv for o in operands])
        elif name == N_CMPI:
            op = x.arith.CmpiOp(dv, dv, attr)
        elif name == N_SELECT:
            op = x.arith.SelectOp(dv1, dv, dv)
        elif name == N_EXTUI:
            op = x.arith.ExtUIOp(dv1, t)
        elif name in OVERFLOW_OPS:
            op = x.binop[name](dv, dv, overflow=flags(attr))
        elif name == N_CLASS:
            op = x.equivalence.ClassOp(*([dv] * k), min_cost_index=x.IntAttr(mci[0]) if mci else None)
        elif name == N_CCLASS:
            op = x.equivalence.ConstantClassOp.build(
                operands=[[dv] * k], result_types=[t], properties={"value": x.IntegerAttr(attr, t)},
                attributes={"min_cost_index": x.IntAttr(mci[0])} if mci else {})
        elif name == N_CONST:
            op = x.arith.ConstantOp(x.IntegerAttr(attr, t))
        elif name in x.binop:
            op = x.binop[name](dv, dv)
        elif name == N_TEST:
            op = x.test.TestOp(operands=[dv] * k, result_types=[t] * nres)
        else:
            raise HarnessBug(f"unknown name {name}")
        if cost:
            op.attributes["eqsat_cost"] = x.IntAttr(cost[0]) if len(cost) == 1 else x.StringAttr("bad")
        ops.append(op)
        block.add_op(op)
    for op, nd in zip(ops, body):
        for j, (kind, i) in enumerate(nd[2]):
            op.operands[j] = block.args[i] if kind == 0 else ops[i].results[0]
    if dv.first_use is not None or dv1.first_use is not None:
        raise HarnessBug("placeholder still used")
    rets = [o for o in ops if isinstance(o, x.func.ReturnOp)]
    ret_types = [v.type for v in rets[-1].operands] if rets else []
    f = x.func.FuncOp("f", ([t] * nargs, ret_types), x.Region(block))
    m = x.ModuleOp([f])
    return m, block


def dump(block) -> list:
    """real block -> abstract block (ids = positions in walk order); fail closed on anything else"""
    x = X()
    pos = {}
    for i, op in enumerate(block.ops):
        pos[op] = i
    out = []
    for op in block.ops:
        if op.name not in CODES:
            raise HarnessBug(f"op {op.name} outside the dumped vocabulary")
        if op.regions or op.successors:
            raise HarnessBug("regions/successors not dumped")
        name = CODES[op.name]
        operands = []
        for v in op.operands:
            if isinstance(v, x.BlockArgument):
                if v.block is not block:
                    raise HarnessBug("foreign block argument")
                operands.append([0, v.index])
            elif isinstance(v, x.OpResult):
                if v.index != 0:
                    raise HarnessBug("use of a result other than the first")
                operands.append([1, pos.get(v.op, -1)])
            else:
                raise HarnessBug(f"operand {v!r}")
        attr = 0
        extra = set(op.attributes) - {"eqsat_cost", "min_cost_index"}
        if extra:
            raise HarnessBug(f"undumped attributes {extra}")
        if name == N_CONST or name == N_CCLASS:
            a = op.properties["value"]
            if not isinstance(a, x.IntegerAttr):
                raise HarnessBug("non-integer constant")
            attr = a.value.data
        elif name == N_CMPI:
            attr = op.properties["predicate"].value.data
        elif name in OVERFLOW_OPS:
            fl = op.properties["overflowFlags"].data
            attr = (1 if x.arith.IntegerOverflowFlag.NSW in fl else 0) + (2 if x.arith.IntegerOverflowFlag.NUW in fl else 0)
        if set(op.properties) - {"value", "predicate", "overflowFlags"}:
            raise HarnessBug(f"undumped properties {set(op.properties)}")
        c = op.attributes.get("eqsat_cost")
        cost = [] if c is None else ([c.data] if isinstance(c, x.IntAttr) else [0, 0])
        m = op.attributes.get("min_cost_index")
        if m is not None and not isinstance(m, x.IntAttr):
            raise HarnessBug("min_cost_index not IntAttr")
        out.append([name, attr, operands, len(op.results), cost, [] if m is None else [m.data]])
    return out


# ---------------------------------------------------------------------------- running the real passes
_TMP = None


def _tmp():
    global _TMP
    if _TMP is None:
        _TMP = BUILD / f"tmp-C28-aux-{os.getpid()}"
        _TMP.mkdir(parents=True, exist_ok=True)
        atexit.register(lambda: shutil.rmtree(_TMP, ignore_errors=True))
    return _TMP


COSTS_TIMEOUT_S = 20


class _Timeout(BaseException):
    pass


def _on_alarm(*_a):
    raise _Timeout()


def stage_create(m):
    x = X()
    try:
        x.EqsatCreateEclassesPass().apply(x.ctx, m)
        return None
    except x.DiagnosticException as e:
        return 1 if "non-single" in str(e) else 99


def stage_costs(m, default, cdict, timeout_s=None):
    x = X()
    cost_file = None
    if cdict:
        cost_file = str(_tmp() / f"costs-{abs(hash(json.dumps(cdict)))}.json")
        with open(cost_file, "w") as fh:
            json.dump({NAMES[k]: v for k, v in cdict}, fh)
    # watchdog: with negative costs on a cycle the real `while changed` loop never ends (the model then
    # runs out of fuel, printed as -3); a case that legitimately needs more than COSTS_TIMEOUT_S does not exist
    old = signal.signal(signal.SIGALRM, _on_alarm)
    signal.alarm(timeout_s or COSTS_TIMEOUT_S)
    try:
        x.EqsatAddCostsPass(cost_file=cost_file, default=default).apply(x.ctx, m)
        return None
    except x.DiagnosticException as e:
        s = str(e)
        return 2 if "Cannot compute cost" in s else 3 if "Unexpected value" in s else 99
    except _Timeout:
        return -3
    finally:
        signal.alarm(0)
        signal.signal(signal.SIGALRM, old)


def stage_extract(m):
    x = X()
    try:
        x.EqsatExtractPass().apply(x.ctx, m)
        return None
    except IndexError:
        return 4
    except ValueError as e:
        return 5 if "still has uses" in str(e) else 99


def flatten(body) -> list:
    """the flat encoding of coq/C28/Enc.v:flat_body"""
    out = []
    for name, attr, operands, nres, cost, mci in body:
        out += [name, attr, nres]
        out += [0, 0] if not cost else [1, cost[0]] if len(cost) == 1 else [2, 0]
        out += [1, mci[0]] if mci else [0, 0]
        out.append(len(operands))
        for o in operands:
            out += o
    return out


def unflatten(flat) -> list:
    body, i = [], 0
    while i < len(flat):
        name, attr, nres, ct, cv, mt, mv, k = flat[i:i + 8]
        i += 8
        ops = [[flat[i + 2 * j], flat[i + 2 * j + 1]] for j in range(k)]
        i += 2 * k
        body.append([name, attr, ops, nres, [] if ct == 0 else [cv] if ct == 1 else [0, 0], [mv] if mt else []])
    return body


def hash_list(l) -> int:
    h = 0
    for v in l:
        h = (h * 1000003 + v + 7) & 2305843009213693951
    return h


def run_stages(m, block, stages, default, cdict, timeout_s=None):
    """-> per stage [0, hash of the dumped block] (last stage: [0, flat dump...]) / [-1, code] / [-3];
    after a failure every later stage reports the same failure"""
    out, failed = [], None
    for k, st in enumerate(stages):
        if failed is None:
            code = (stage_create(m) if st == "create" else stage_costs(m, default, cdict, timeout_s) if st == "costs"
                    else stage_extract(m) if st == "extract" else None)
            if code is not None:
                failed = [-3] if code == -3 else [-1, code]
        if failed is not None:
            out.append(failed)
        elif k == len(stages) - 1:
            out.append([0] + flatten(dump(block)))
        else:
            out.append([0, hash_list(flatten(dump(block)))])
    return out


# ---------------------------------------------------------------------------- saturation (real engine)
def pdl_rules(ty: str, ids) -> str:
    def pat(body):
        return "pdl.pattern : benefit(1) {\n" + body + "\n}\n"

    def comm(op):
        return pat(f'''  %x = pdl.operand
  %y = pdl.operand
  %type = pdl.type
  %op = pdl.operation "{op}" (%x, %y : !pdl.value, !pdl.value) -> (%type : !pdl.type)
  pdl.rewrite %op {{
    %n = pdl.operation "{op}" (%y, %x : !pdl.value, !pdl.value) -> (%type : !pdl.type)
    pdl.replace %op with %n
  }}''')

    def unit(op, k):       # x op k -> x
        return pat(f'''  %x = pdl.operand
  %type = pdl.type
  %k = pdl.attribute = {k} : {ty}
  %constop = pdl.operation "arith.constant" {{"value" = %k}} -> (%type : !pdl.type)
  %const = pdl.result 0 of %constop
  %op = pdl.operation "{op}" (%x, %const : !pdl.value, !pdl.value) -> (%type : !pdl.type)
  pdl.rewrite %op {{
    pdl.replace %op with (%x : !pdl.value)
  }}''')

    mul_zero = pat(f'''  %x = pdl.operand
  %type = pdl.type
  %zero = pdl.attribute = 0 : {ty}
  %constop = pdl.operation "arith.constant" {{"value" = %zero}} -> (%type : !pdl.type)
  %const = pdl.result 0 of %constop
  %mulop = pdl.operation "arith.muli" (%x, %const : !pdl.value, !pdl.value) -> (%type : !pdl.type)
  pdl.rewrite %mulop {{
    pdl.replace %mulop with %constop
  }}''')
    sub_self = pat(f'''  %x = pdl.operand
  %type = pdl.type
  %subop = pdl.operation "arith.subi" (%x, %x : !pdl.value, !pdl.value) -> (%type : !pdl.type)
  pdl.rewrite %subop {{
    %zero = pdl.attribute = 0 : {ty}
    %constop = pdl.operation "arith.constant" {{"value" = %zero}} -> (%type : !pdl.type)
    pdl.replace %subop with %constop
  }}''')
    mul_two = pat(f'''  %x = pdl.operand
  %type = pdl.type
  %two = pdl.attribute = 2 : {ty}
  %constop = pdl.operation "arith.constant" {{"value" = %two}} -> (%type : !pdl.type)
  %const = pdl.result 0 of %constop
  %mulop = pdl.operation "arith.muli" (%x, %const : !pdl.value, !pdl.value) -> (%type : !pdl.type)
  pdl.rewrite %mulop {{
    %n = pdl.operation "arith.addi" (%x, %x : !pdl.value, !pdl.value) -> (%type : !pdl.type)
    pdl.replace %mulop with %n
  }}''')
    add_sub = pat('''  %x = pdl.operand
  %y = pdl.operand
  %type = pdl.type
  %addop = pdl.operation "arith.addi" (%x, %y : !pdl.value, !pdl.value) -> (%type : !pdl.type)
  %add = pdl.result 0 of %addop
  %subop = pdl.operation "arith.subi" (%add, %y : !pdl.value, !pdl.value) -> (%type : !pdl.type)
  pdl.rewrite %subop {
    pdl.replace %subop with (%x : !pdl.value)
  }''')
    assoc = pat('''  %x = pdl.operand
  %y = pdl.operand
  %z = pdl.operand
  %type = pdl.type
  %inner = pdl.operation "arith.addi" (%x, %y : !pdl.value, !pdl.value) -> (%type : !pdl.type)
  %i = pdl.result 0 of %inner
  %outer = pdl.operation "arith.addi" (%i, %z : !pdl.value, !pdl.value) -> (%type : !pdl.type)
  pdl.rewrite %outer {
    %n1 = pdl.operation "arith.addi" (%y, %z : !pdl.value, !pdl.value) -> (%type : !pdl.type)
    %r1 = pdl.result 0 of %n1
    %n2 = pdl.operation "arith.addi" (%x, %r1 : !pdl.value, !pdl.value) -> (%type : !pdl.type)
    pdl.replace %outer with %n2
  }''')
    distr = pat('''  %x = pdl.operand
  %y = pdl.operand
  %z = pdl.operand
  %type = pdl.type
  %inner = pdl.operation "arith.addi" (%y, %z : !pdl.value, !pdl.value) -> (%type : !pdl.type)
  %i = pdl.result 0 of %inner
  %outer = pdl.operation "arith.muli" (%x, %i : !pdl.value, !pdl.value) -> (%type : !pdl.type)
  pdl.rewrite %outer {
    %n1 = pdl.operation "arith.muli" (%x, %y : !pdl.value, !pdl.value) -> (%type : !pdl.type)
    %r1 = pdl.result 0 of %n1
    %n2 = pdl.operation "arith.muli" (%x, %z : !pdl.value, !pdl.value) -> (%type : !pdl.type)
    %r2 = pdl.result 0 of %n2
    %n3 = pdl.operation "arith.addi" (%r1, %r2 : !pdl.value, !pdl.value) -> (%type : !pdl.type)
    pdl.replace %outer with %n3
  }''')
    table = [comm("arith.addi"), comm("arith.muli"), unit("arith.muli", 1), unit("arith.addi", 0),
             unit("arith.subi", 0), mul_zero, sub_self, mul_two, add_sub, assoc, distr,
             comm("arith.xori"), unit("arith.ori", 0)]
    return "".join(table[i] for i in ids)


N_RULES = 13
RULE_NAMES = ["addi-comm", "muli-comm", "x*1->x", "x+0->x", "x-0->x", "x*0->0", "x-x->0", "x*2->x+x",
              "(x+y)-y->x", "addi-assoc", "distributivity", "xori-comm", "x|0->x"]
_RULE_CACHE = {}


def rules_module(ty, ids):
    """sound PDL rules lowered by xDSL's own convert-pdl-to-pdl-interp + convert-pdl-interp-to-eqsat-pdl-interp.
    (Finding C28-kf-1, fixed by 19f27a5: the lowering dropped the check of a ZERO constant pdl.attribute, so
    x*0->0 fired on x*2; its witnesses are replayed as regression tests.)"""
    key = (ty, tuple(ids))
    if key not in _RULE_CACHE:
        x = X()
        m = x.Parser(x.ctx, pdl_rules(ty, ids)).parse_module()
        x.ConvertPDLToPDLInterpPass().apply(x.ctx, m)
        x.ConvertPDLInterpToEqsatPDLInterpPass().apply(x.ctx, m)
        m.verify()
        _RULE_CACHE[key] = m
    return _RULE_CACHE[key]


def saturate(m, ty, ids, iters):
    x = X()
    x.apply_eqsat_pdl_interp(m, x.ctx, rules_module(ty, ids), iters)


# ---------------------------------------------------------------------------- independent evaluator
class NotExecutable(Exception):
    pass


def wrapped(name, attr, vals, w):
    mask = (1 << w) - 1
    if name == N_CONST:
        return attr & mask
    if name == N_SELECT:
        return vals[1] if vals[0] & 1 else vals[2]
    if name == N_EXTUI:
        return vals[0] & 1
    a, b = vals
    if name == N_CMPI:
        sa, sb = (a - (1 << w) if a >> (w - 1) else a), (b - (1 << w) if b >> (w - 1) else b)
        return int([a == b, a != b, sa < sb, sa <= sb, sa > sb, sa >= sb, a < b, a <= b, a > b, a >= b][attr])
    if name == N_ADD:
        return (a + b) & mask
    if name == N_SUB:
        return (a - b) & mask
    if name == N_MUL:
        return (a * b) & mask
    if name == N_AND:
        return a & b
    if name == N_OR:
        return a | b
    if name == N_XOR:
        return a ^ b
    raise NotExecutable(f"no semantics for op {NAMES.get(name, name)}")


def evaluate(body, args, w):
    """sequential execution in block order.  A left-over e-class evaluates to the value of its members that
    are already defined (they must agree; at least one must exist)."""
    env = {}

    def get(o):
        if o[0] == 0:
            return args[o[1]] & ((1 << w) - 1)
        if o[1] not in env:
            raise NotExecutable(f"operand defined by op #{o[1]} is used before its definition (or was erased)")
        return env[o[1]]

    for i, (name, attr, operands, nres, _c, _m) in enumerate(body):
        if name == N_RET:
            return [get(o) for o in operands]
        if name in (N_CLASS, N_CCLASS):
            vs = []
            for o in operands:
                try:
                    vs.append(get(o))
                except NotExecutable:
                    pass
            if not vs:
                raise NotExecutable(f"left-over e-class #{i} has no executable member")
            if len(set(vs)) != 1:
                raise NotExecutable(f"left-over e-class #{i} has members with different values {vs}")
            env[i] = vs[0]
            continue
        if nres != 1:
            raise NotExecutable("multi-result op")
        env[i] = wrapped(name, attr, [get(o) for o in operands], w)
    raise NotExecutable("no return")


def input_vectors(nargs, w, salt):
    import random
    rr = random.Random(salt)
    edge = [0, 1, 2, (1 << w) - 1, 1 << (w - 1), (1 << (w - 1)) - 1, 3]
    vs = [[e] * nargs for e in edge[:4]] if nargs else [[]]
    for _ in range(10 if nargs else 0):
        vs.append([rr.choice(edge) if rr.random() < 0.5 else rr.getrandbits(w) for _ in range(nargs)])
    return vs


def same_results(src, nargs, ty, final, salt):
    w = WIDTH[ty]
    for args in input_vectors(nargs, w, salt):
        want = evaluate(src, args, w)
        try:
            got = evaluate(final, args, w)
        except NotExecutable as e:
            return False, f"extracted function is not executable on {args}: {e}"
        if got != want:
            return False, f"args {args}: source returns {want}, extracted function returns {got}"
    return True, ""


# ---------------------------------------------------------------------------- impl / model / oracle
def impl(case):
    mode = case["mode"]
    default, cdict = case.get("default"), case.get("dict", [])
    if mode == "sat":
        m, block = build_ir(case["nargs"], case["ty"], case["src"])
        if dump(block) != case["src"]:
            raise HarnessBug("builder/dumper round trip")
        if stage_create(m) is not None:
            raise HarnessBug("create failed on a saturation source")
        try:
            saturate(m, case["ty"], case["rules"], case["iters"])
        except Exception:           # the engine aborted on a valid input: reported by the oracle
            return [[-4]]
        g = dump(block)
        if case.get("fresh"):
            pass                      # replay of a recorded witness: the engine's e-graph is taken as it is now
        elif g != case["body"]:
            return [[-2, 0]]          # the engine is not deterministic: reported as a divergence
        return run_stages(m, block, ["none", "costs", "extract"], default, cdict)
    m, block = build_ir(case["nargs"], case["ty"], case["body"])
    if dump(block) != case["body"]:
        raise HarnessBug("builder/dumper round trip")
    if mode == "pipe":
        return run_stages(m, block, ["create", "costs", "extract"], default, cdict)
    if mode == "eg":
        return run_stages(m, block, ["none", "costs", "extract"], default, cdict, 3 if case.get("hangs") else None)
    if mode == "ext":
        return run_stages(m, block, ["extract"], default, cdict)
    raise HarnessBug(mode)


def coq_val(o):
    return f"{'a_' if o[0] == 0 else 'r_'} {coq_Z(o[1])}"


def coq_body(body):
    items = []
    for i, (name, attr, operands, nres, cost, mci) in enumerate(body):
        ops = "nil"
        for o in reversed(operands):
            ops = f"(cons ({coq_val(o)}) {ops})"
        c = "CNone" if not cost else f"(CInt {coq_Z(cost[0])})" if len(cost) == 1 else "CBad"
        mm = "None" if not mci else f"(Some {coq_Z(mci[0])})"
        items.append(f"(nd {i} {name} {coq_Z(attr)} {ops} {nres} {c} {mm})")
    s = "nil"
    for it in reversed(items):
        s = f"(cons {it} {s})"
    return s


def coq_expr(case):
    if case.get("aborted"):
        return "L (cons (L (cons (I (-4)) nil)) nil)"      # nothing for the model to do: the engine raised
    prog = f"(Prog {case['nargs']} {coq_body(case['body'])})"
    if case["mode"] == "ext":
        return f"c28_extract {prog}"
    d = case.get("default")
    dflt = "None" if d is None else f"(Some {coq_Z(d)})"
    dct = "nil"
    for k, v in reversed(case.get("dict", [])):
        dct = f"(cons ({k}, {coq_Z(v)}) {dct})"
    return f"c28_pipeline {1 if case['mode'] == 'pipe' else 0} {dflt} {dct} {prog}"


def holds(case, r):
    """the extracted function returns what the source function returns (independent evaluator)"""
    if "src" not in case and case["mode"] != "pipe":
        return True, ""                       # wild e-graphs: members are not equal by construction
    src = case["body"] if case["mode"] == "pipe" else case["src"]
    if case.get("diagnostic_expected") or case.get("hangs"):
        return True, ""
    last = r[-1]
    if last[0] == -2:
        return True, ""
    if last[0] == -4:
        return False, ("the saturation engine (apply-eqsat-pdl-interp) aborted with an exception on a valid "
                       f"function and sound rules: {case.get('aborted', 'raised only when re-run')}")
    if last[0] != 0:
        return False, f"pipeline raised (stage results {[s[0:2] if s[0] != 0 else 0 for s in r]}) on a pure single-result arith function"
    try:
        return same_results(src, case["nargs"], case["ty"], unflatten(last[1:]), case.get("salt", 0))
    except NotExecutable as e:
        raise HarnessBug(f"source not executable: {e}")


def topo_sorted(body):
    """stable topological order of a dumped block (None if its dependencies are cyclic)"""
    n = len(body)
    deps = [{o[1] for o in nd[2] if o[0] == 1 and 0 <= o[1] < n and o[1] != i} for i, nd in enumerate(body)]
    done, order = set(), []
    while len(order) < n:
        nxt = next((i for i in range(n) if i not in done and deps[i] <= done), None)
        if nxt is None:
            return None
        done.add(nxt)
        order.append(nxt)
    new_pos = {old: new for new, old in enumerate(order)}
    return [[nd[0], nd[1], [[o[0], new_pos.get(o[1], -1) if o[0] == 1 else o[1]] for o in nd[2]], nd[3], nd[4], nd[5]]
            for nd in (body[i] for i in order)]


def known(case, r):
    """Only for the saturated family, and only this class:
    C28-kf-2: the extracted function computes the right values but lists an operation after one of its users
      (the e-class was merged with an operation located later in the block and extraction does not reorder):
      the SAME final block, merely sorted topologically, passes the oracle.
    Anything else is not suppressed."""
    if case["mode"] != "sat" or r[-1][0] != 0:
        return None
    srt = topo_sorted(unflatten(r[-1][1:]))
    if srt is not None and same_results(case["src"], case["nargs"], case["ty"], srt, case.get("salt", 0))[0]:
        return "C28-kf-2"
    return None


def nontrivial(case, r):
    last = r[-1]
    if last[0] != 0:
        return ("err", case["mode"], last[-1]) if case["mode"] in ("ext", "eg") else None
    first = case["body"]
    if last[1:] == flatten(first):
        return None
    if case["mode"] in ("eg", "sat", "ext"):
        if not any(n[0] in (N_CLASS, N_CCLASS) and len(n[2]) >= 2 for n in first):
            return None
    return hash_list(last[1:])


# ---------------------------------------------------------------------------- generators
def consts(rng, ty):
    w = WIDTH[ty]
    return rng.choice([0, 1, 2, 0, 1, 2, 3, -1, 7, (1 << (w - 1)) - 1, -(1 << (w - 1)), rng.randint(-100, 100)])


def gen_source(rng, max_ops=8, dup=0.2, must_return=False):
    """pure arith function: [nargs, ty, body] with body ending in one func.return"""
    ty = rng.choice(["i32", "i32", "index"])
    nargs = rng.choice([0, 1, 1, 2, 2, 3])
    n = rng.randint(0, max_ops)
    body, vals = [], [A(i) for i in range(nargs)]
    for _ in range(n):
        if not vals or rng.random() < 0.25:
            nd = [N_CONST, consts(rng, ty), [], 1, [], []]
        elif body and rng.random() < dup:
            src = rng.choice(body)
            nd = [src[0], src[1], [list(o) for o in src[2]], 1, [], []]
        else:
            a = rng.choice(vals)
            b = a if rng.random() < 0.15 else rng.choice(vals)
            nd = [rng.choice(BINOPS + [N_ADD, N_MUL]), 0, [list(a), list(b)], 1, [], []]
        vals.append(R(len(body)))
        body.append(nd)
    k = rng.choice([1, 1, 1, 2, 2, 3, 0]) if vals else 0
    if must_return and vals:
        k = max(k, 1)
    rets = []
    for _ in range(k):
        # prefer late values so that most of the function is live
        rets.append(list(vals[-1 - min(len(vals) - 1, int(rng.expovariate(0.7)))]))
    body.append([N_RET, 0, rets, 0, [], []])
    return nargs, ty, body


def gen_pipe(rng, i):
    nargs, ty, body = gen_source(rng)
    case = {"mode": "pipe", "nargs": nargs, "ty": ty, "body": body, "salt": i}
    r = rng.random()
    case["default"] = None if r < 0.12 else rng.choice([0, 1, 1, 1, 2, 5])
    if rng.random() < 0.3:
        for nd in body[:-1]:
            if rng.random() < 0.4:
                nd[4] = [rng.randint(0, 4)]
    if rng.random() < 0.25:
        names = sorted({nd[0] for nd in body[:-1]} | {N_CLASS})
        case["dict"] = [[k, rng.randint(0, 5)] for k in names if rng.random() < 0.5]
    return case


def gen_pipe_diag(rng, i):
    """sources with multi-result / zero-result / uninterpreted ops: the passes raise their diagnostics"""
    nargs, ty, body = gen_source(rng, max_ops=5)
    ret = body.pop()
    vals = [A(k) for k in range(nargs)] + [R(k) for k in range(len(body))]
    at = rng.randint(0, len(body))
    nres = rng.choice([0, 2, 2, 3, 1])
    tnode = [N_TEST, 0, [list(rng.choice(vals)) for _ in range(rng.randint(0, 2))] if vals else [], nres, [], []]
    tnode[2] = [o for o in tnode[2] if o[0] == 0 or o[1] < at]
    # insert and shift references
    def sh(o):
        return [1, o[1] + 1] if o[0] == 1 and o[1] >= at else list(o)
    body = [[n[0], n[1], [sh(o) for o in n[2]], n[3], n[4], n[5]] for n in body]
    body.insert(at, tnode)
    ret = [ret[0], ret[1], [sh(o) for o in ret[2]], 0, [], []]
    if nres >= 1 and rng.random() < 0.5:
        ret[2].append(R(at))
    body.append(ret)
    case = {"mode": "pipe", "nargs": nargs, "ty": ty, "body": body, "salt": i, "diagnostic_expected": True,
            "default": rng.choice([None, 1, 2])}
    if rng.random() < 0.3:
        case["dict"] = [[N_TEST, rng.randint(0, 3)]]
    return case


class EG:
    """e-graph under construction: classes of members; member = ("arg", i) | ("op", name, attr, [class ids])"""

    def __init__(self, nargs, ty, src):
        self.nargs, self.ty = nargs, ty
        self.members = []          # class id -> list of members
        self.order = []            # class ids in block order
        self.cls_of = {}
        for i in range(nargs):
            self.cls_of[("a", i)] = self.new([("arg", i)])
        for p, nd in enumerate(src[:-1]):
            self.cls_of[("r", p)] = self.new([("op", nd[0], nd[1], [self.ref(o) for o in nd[2]])])
        self.rets = [self.ref(o) for o in src[-1][2]]

    def ref(self, o):
        return self.cls_of[("a" if o[0] == 0 else "r", o[1])]

    def new(self, members, at=None):
        self.members.append(members)
        c = len(self.members) - 1
        if at is None:
            self.order.append(c)
        else:
            self.order.insert(at, c)
        return c

    def const(self, v):
        for c in self.order:
            if self.members[c] and self.members[c][0][:3] == ("op", N_CONST, v):
                return c
        return self.new([("op", N_CONST, v, [])], at=0)

    def merge(self, keep, drop):
        if keep == drop:
            return
        self.members[keep] += self.members[drop]
        self.members[drop] = []
        self.order.remove(drop)
        for ms in self.members:
            for k, mm in enumerate(ms):
                if mm[0] == "op":
                    ms[k] = (mm[0], mm[1], mm[2], [keep if c == drop else c for c in mm[3]])
        self.rets = [keep if c == drop else c for c in self.rets]

    def enrich(self, rng):
        live = [c for c in self.order]
        if not live:
            return
        c = rng.choice(live)
        kind = rng.choice(["comm", "comm", "mul1", "add0", "sub0", "double", "addsub", "dup", "dup", "or0"])
        ops = [m for m in self.members[c] if m[0] == "op"]
        if kind == "comm":
            cand = [m for m in ops if m[1] in COMM]
            if cand:
                m = rng.choice(cand)
                self.members[c].insert(rng.randint(0, len(self.members[c])), ("op", m[1], 0, [m[3][1], m[3][0]]))
        elif kind in ("mul1", "add0", "sub0", "or0"):
            name, k = {"mul1": (N_MUL, 1), "add0": (N_ADD, 0), "sub0": (N_SUB, 0), "or0": (N_OR, 0)}[kind]
            kc = self.const(k)
            self.members[c].insert(rng.randint(0, len(self.members[c])), ("op", name, 0, [c, kc]))
        elif kind == "double":
            two = self.const(2)
            cand = [m for m in ops if m[1] == N_MUL and m[3][1] == two]
            if cand:
                xx = rng.choice(cand)[3][0]
                self.members[c].append(("op", N_ADD, 0, [xx, xx]))
            else:
                self.members[c].append(("op", N_SUB, 0, [c, self.const(0)]))
        elif kind == "addsub":
            y = rng.choice(live)
            t = self.new([("op", N_ADD, 0, [c, y])], at=max(self.order.index(c), self.order.index(y)) + 1)
            self.members[c].append(("op", N_SUB, 0, [t, y]))
        elif kind == "dup":
            for d in live:
                if d != c and any(m in self.members[d] for m in ops):
                    a, b = (c, d) if self.order.index(c) < self.order.index(d) else (d, c)
                    self.merge(a, b)
                    break

    def linearize(self, rng, cost_p, cost_hi):
        body, pos = [], {}
        # first pass: positions
        p = 0
        mpos = {}
        for c in self.order:
            for k, m in enumerate(self.members[c]):
                if m[0] == "op":
                    mpos[(c, k)] = p
                    p += 1
            pos[c] = p
            p += 1
        for c in self.order:
            ops = []
            for k, m in enumerate(self.members[c]):
                if m[0] == "op":
                    cost = [rng.randint(0, cost_hi)] if rng.random() < cost_p else []
                    body.append([m[1], m[2], [R(pos[d]) for d in m[3]], 1, cost, []])
                    ops.append(R(mpos[(c, k)]))
                else:
                    ops.append(A(m[1]))
            body.append([N_CLASS, 0, ops, 1, [], []])
        body.append([N_RET, 0, [R(pos[c]) for c in self.rets], 0, [], []])
        return body


def gen_sound(rng, i):
    nargs, ty, src = gen_source(rng, max_ops=6, dup=0.35, must_return=True)
    eg = EG(nargs, ty, src)
    for _ in range(rng.randint(1, 6)):
        eg.enrich(rng)
    body = eg.linearize(rng, rng.choice([0.0, 0.5, 1.0]), rng.choice([1, 2, 3, 6]))
    return {"mode": "eg", "nargs": nargs, "ty": ty, "src": src, "body": body, "salt": i,
            "default": rng.choice([0, 1, 1, 2, 3])}


def gen_wild(rng, i, extract_only=False):
    nargs = rng.choice([0, 1, 2])
    ty = rng.choice(["i32", "index"])
    ordered = rng.random() < 0.4           # operands only refer to earlier classes: acyclic
    ncls = rng.randint(1, 6)
    # plan: per class a list of members; op members get operands later
    plan, raw = [], []
    for c in range(ncls):
        ms = []
        for _ in range(rng.choice([1, 1, 2, 2, 3])):
            if nargs and rng.random() < 0.25:
                ms.append(("arg", rng.randrange(nargs)))
            else:
                ms.append(("op", rng.choice([N_CONST, N_ADD, N_MUL, N_SUB, N_TEST, N_TEST])))
        plan.append(ms)
    nraw = rng.choice([0, 0, 1, 2])
    raw_nres = [rng.choice([1, 1, 1, 0, 2]) for _ in range(nraw)]
    # positions: members of class c, then class c; raw ops sprinkled
    items = []
    for c, ms in enumerate(plan):
        for k, m in enumerate(ms):
            if m[0] == "op":
                items.append(("m", c, k))
        items.append(("c", c))
    for q in range(nraw):
        items.insert(rng.randint(0, len(items)), ("raw", q))
    if not ordered and rng.random() < 0.5:
        rng.shuffle(items)
    pos = {it: p for p, it in enumerate(items)}
    neg = ordered and rng.random() < 0.4

    def cost():
        r = rng.random()
        if r < 0.12:
            return []
        if r < 0.15:
            return [0, 0]
        return [rng.randint(-3, 4) if neg else rng.randint(0, 4)]

    def operand(limit_c):
        r = rng.random()
        pool = list(range(limit_c)) if ordered else list(range(ncls))
        if nargs and (r < 0.2 or not pool):
            return A(rng.randrange(nargs))
        if nraw and r < 0.3:
            q = rng.randrange(nraw)
            if raw_nres[q] >= 1 and (not ordered or pos[("raw", q)] < limit_pos[0]):
                return R(pos[("raw", q)])
        if pool:
            return R(pos[("c", rng.choice(pool))])
        return None

    body = []
    limit_pos = [0]
    for p, it in enumerate(items):
        limit_pos[0] = p
        if it[0] == "c":
            c = it[1]
            ops = [A(m[1]) if m[0] == "arg" else R(pos[("m", c, k)]) for k, m in enumerate(plan[c])]
            if not extract_only and rng.random() < 0.08:
                mci = [rng.randrange(len(ops))]
            elif extract_only:
                r = rng.random()
                mci = ([] if r < 0.1 else [len(ops) + rng.randint(0, 1)] if r < 0.14
                       else [-rng.randint(1, len(ops) + 1)] if r < 0.18 else [rng.randrange(len(ops))])
            else:
                mci = []
            name = N_CLASS
            attr = 0
            if rng.random() < 0.06:
                name, attr = N_CCLASS, rng.randint(0, 3)
            body.append([name, attr, ops, 1, [], mci])
        else:
            name = plan[it[1]][it[2]][1] if it[0] == "m" else (
                rng.choice([N_CONST, N_ADD, N_TEST]) if raw_nres[it[1]] == 1 else N_TEST)
            limit_c = it[1] if it[0] == "m" else sum(1 for j in items[:p] if j[0] == "c")
            if it[0] == "raw" and ordered:
                limit_c = sum(1 for j in items[:p] if j[0] == "c")
            if name == N_CONST:
                ops, nres = [], 1
            else:
                k = 2 if name != N_TEST else rng.choice([0, 1, 2, 3])
                ops = [operand(limit_c) for _ in range(k)]
                nres = raw_nres[it[1]] if it[0] == "raw" else 1
                if any(o is None for o in ops):
                    if nres == 1:
                        name, ops = N_CONST, []
                    else:
                        ops = []
            body.append([name, rng.randint(0, 3) if name == N_CONST else 0, ops, nres, cost(), []])
    # occasionally break the single-use rule: a member op also listed in another class / twice
    if rng.random() < 0.12:
        cl = [n for n in body if n[0] in (N_CLASS, N_CCLASS)]
        a, b = rng.choice(cl), rng.choice(cl)
        res = [o for o in a[2] if o[0] == 1]
        # (with negative costs the e-graph must stay acyclic: the real cost loop would not terminate)
        if res and not (neg and [n is a for n in body].index(True) > [n is b for n in body].index(True)):
            b[2].append(list(rng.choice(res)))
    rets = []
    for _ in range(rng.choice([0, 1, 1, 2])):
        o = operand(ncls)
        if o is not None:
            rets.append(o)
    body.append([N_RET, 0, rets, 0, [], []])
    case = {"mode": "ext" if extract_only else "eg", "nargs": nargs, "ty": ty, "body": body, "salt": i}
    if not extract_only:
        case["default"] = rng.choice([None, None, 0, 1, 2, -1 if neg else 3])
        if rng.random() < 0.3:
            names = sorted({n[0] for n in body[:-1]})
            case["dict"] = [[k, rng.randint(0, 4)] for k in names if rng.random() < 0.4]
    return case


def gen_sat(rng, i):
    """source with planted left-hand sides of the chosen rules (and decoys: the same operation with another
    constant) -> real create -> real saturation; the e-graph is dumped into the case"""
    ty = rng.choice(["i32", "i32", "index"])
    nargs = rng.choice([1, 2, 2, 3])
    ids = sorted(rng.sample(range(N_RULES), rng.randint(1, 5)))
    if rng.random() < 0.5:
        ids = sorted(set(ids) - {9, 10}) or [0]
    body, vals = [], [A(k) for k in range(nargs)]

    def emit(name, attr, ops):
        body.append([name, attr, [list(o) for o in ops], 1, [], []])
        vals.append(R(len(body) - 1))
        return vals[-1]

    def pick():
        return rng.choice(vals[-4:]) if rng.random() < 0.6 else rng.choice(vals)

    def plant(r):
        a, b, c = pick(), pick(), pick()
        if r in (0, 1, 11):
            emit({0: N_ADD, 1: N_MUL, 11: N_XOR}[r], 0, [a, b])
        elif r in (2, 3, 4, 5, 7, 12):
            name, k = {2: (N_MUL, 1), 3: (N_ADD, 0), 4: (N_SUB, 0), 5: (N_MUL, 0), 7: (N_MUL, 2), 12: (N_OR, 0)}[r]
            if rng.random() < 0.3:
                k = rng.choice([0, 1, 2, 3, 5, -1])          # decoy: the rule must NOT fire unless k is its constant
            emit(name, 0, [a, emit(N_CONST, k, [])])
        elif r == 6:
            emit(N_SUB, 0, [a, a])
        elif r == 8:
            emit(N_SUB, 0, [emit(N_ADD, 0, [a, b]), b])
        elif r == 9:
            emit(N_ADD, 0, [emit(N_ADD, 0, [a, b]), c])
        elif r == 10:
            emit(N_MUL, 0, [a, emit(N_ADD, 0, [b, c])])

    for _ in range(rng.randint(1, 3)):
        for r in rng.sample(ids, len(ids)):
            if len(body) < 9 and rng.random() < 0.8:
                plant(r)
        if rng.random() < 0.5 and len(body) < 9:
            emit(rng.choice(BINOPS), 0, [pick(), pick()])
    rets = [list(vals[-1])] + [list(pick()) for _ in range(rng.choice([0, 0, 1]))]
    # operations that differ ONLY in a property, on operands that a unit rule makes congruent: `t = a op k`
    # (k the unit of op, so t joins the class of a), then  cmpi P (t, b)  and  cmpi P' (a, b)  with P != P'
    # (or addi with different overflow flags).  A congruence closure that forgets properties merges them.
    if rng.random() < 0.6 and len(body) < 14:
        unit = {2: (N_MUL, 1), 3: (N_ADD, 0), 4: (N_SUB, 0), 12: (N_OR, 0)}
        us = [r for r in ids if r in unit]
        if not us:
            us = [rng.choice(sorted(unit))]
            ids = sorted(set(ids) | set(us))
        name, k = unit[rng.choice(us)]
        a, b = pick(), pick()
        t = emit(name, 0, [a, emit(N_CONST, k, [])])
        vals.pop()                                    # (keep `t` out of later picks of this function)

        def raw(nm, attr, ops):
            body.append([nm, attr, [list(o) for o in ops], 1, [], []])
            return R(len(body) - 1)

        if rng.random() < 0.75:
            p1, p2 = rng.sample(range(10), 2)
            c1, c2 = raw(N_CMPI, p1, [t, b]), raw(N_CMPI, p2, [a, b])
            how = rng.choice(["i1", "select", "extui"] if ty == "i32" else ["i1", "select"])
            if how == "i1":
                rets += [c1, c2]
            elif how == "select":
                u, v = pick(), pick()
                rets += [raw(N_SELECT, 0, [c1, u, v]), raw(N_SELECT, 0, [c2, u, v])]
            else:
                rets += [raw(N_EXTUI, 0, [c1]), raw(N_EXTUI, 0, [c2])]
        else:
            f1, f2 = rng.sample(range(4), 2)
            onm = rng.choice(OVERFLOW_OPS)
            rets += [raw(onm, f1, [t, b]), raw(onm, f2, [a, b])]
    src = body + [[N_RET, 0, rets, 0, [], []]]
    iters = rng.choice([1, 2, 3, 4])
    return finish_sat(nargs, ty, src, ids, iters, i, rng)


def finish_sat(nargs, ty, src, ids, iters, i, rng=None):
    m, block = build_ir(nargs, ty, src)
    if stage_create(m) is not None:
        raise HarnessBug("create failed")
    aborted = None
    try:
        saturate(m, ty, ids, iters)
        g = dump(block)
    except Exception as e:
        aborted, g = f"{type(e).__name__}: {str(e)[:200]}", []
    case = {"mode": "sat", "nargs": nargs, "ty": ty, "src": src, "body": g, "rules": ids, "iters": iters,
            "salt": i, "default": 1}
    if aborted:
        case["aborted"] = aborted
    if rng is None:
        return case
    case["default"] = rng.choice([1, 1, 2, 0])
    if rng.random() < 0.4:
        case["dict"] = [[k, rng.randint(0, 6)] for k in BINOPS + [N_CONST] if rng.random() < 0.6]
    return case


# ---------------------------------------------------------------------------- fixed corpus (from the test-suite)
def corpus():
    out = []
    # tests/filecheck/transforms/eqsat-extract.mlir @cycles (costs as in the file)
    cyc = [
        [N_CONST, 2, [], 1, [1], []],
        [N_CLASS, 0, [R(0)], 1, [], [0]],
        [N_MUL, 0, [R(9), R(1)], 1, [1], []],
        [N_CLASS, 0, [R(2)], 1, [], [0]],
        [N_CONST, 1, [], 1, [1], []],
        [N_CCLASS, 1, [R(4), R(6)], 1, [], [0]],
        [N_TEST, 0, [R(1), R(1)], 1, [1], []],          # stands for arith.divui %two, %two
        [N_MUL, 0, [R(9), R(5)], 1, [1], []],
        [N_TEST, 0, [R(3), R(1)], 1, [1], []],          # arith.divui %mul_1, %two_1
        [N_CLASS, 0, [R(8), R(7), A(0)], 1, [], [2]],
        [N_RET, 0, [R(9)], 0, [], []],
    ]
    out.append({"mode": "ext", "nargs": 1, "ty": "i32", "body": cyc, "salt": 0})
    out.append({"mode": "eg", "nargs": 1, "ty": "i32", "body": [[n[0], n[1], n[2], n[3], n[4], []] for n in cyc],
                "salt": 0, "default": None})
    # x = x * 1 (cyclic member first), tie in cost
    tie = [
        [N_CONST, 1, [], 1, [0], []],
        [N_CLASS, 0, [R(0)], 1, [], []],
        [N_MUL, 0, [R(3), R(1)], 1, [0], []],
        [N_CLASS, 0, [R(2), A(0)], 1, [], []],
        [N_RET, 0, [R(3)], 0, [], []],
    ]
    out.append({"mode": "eg", "nargs": 1, "ty": "i32", "body": tie, "salt": 0, "default": 0,
                "src": [[N_RET, 0, [A(0)], 0, [], []]]})
    # a negative cost on a cycle (x = x * 1 with eqsat_cost -1 on the muli): the cost loop never terminates
    negc = [[n[0], n[1], n[2], n[3], list(n[4]), n[5]] for n in tie]
    negc[2][4] = [-1]
    out.append({"mode": "eg", "nargs": 1, "ty": "i32", "body": negc, "salt": 0, "default": 0, "hangs": True})
    # identity.mlir
    ident = [[N_CONST, 2, [], 1, [], []], [N_MUL, 0, [A(0), R(0)], 1, [], []], [N_RET, 0, [R(1)], 0, [], []]]
    out.append({"mode": "pipe", "nargs": 1, "ty": "index", "body": ident, "salt": 0, "default": 1})
    return out


# ---------------------------------------------------------------------------- batched differential
def run_families(ctx: Ctx, fams):
    """`common.differential` for several families with ONE batch of coqc shards (coqc start-up dominates on a
    loaded machine).  Same rules: an oracle failure is a violation unless its id is a listed, unfixed known
    finding; a model/code difference is a broken correspondence."""
    t0 = time.time()
    active = ctx.active_known_ids()
    evs = []
    for name, cases in fams:
        t = time.time()
        evs.append((eval_cases(cases, impl, holds, known, nontrivial), time.time() - t))
        ctx.evaluations += len(cases)
    exprs = [coq_expr(c) for _, cases in fams for c in cases]
    model, model_err = None, None
    try:
        shard = max(40, min(400, -(-len(exprs) // max(1, NCPU))))
        model = ctx.coq_eval(REQ, exprs, shard=shard)
    except ModelUnavailable as e:
        model_err = str(e)
    tc = time.time() - t0
    pos = 0
    for (name, cases), (ev, tp) in zip(fams, evs):
        fails, diverge, known_hits = [], [], {}
        for k, (c, (r, ok, why, kid, nt)) in enumerate(zip(cases, ev)):
            if nt is not None:
                ctx.nontrivial.add((name, nt))
            if not ok:
                if kid and kid in active:
                    known_hits[kid] = known_hits.get(kid, 0) + 1
                else:
                    fails.append((c, r, why))
            if model is not None and model[pos + k] != r:
                diverge.append((c, r, model[pos + k]))
        pos += len(cases)
        for c, e in list(zip(cases, ev))[:1]:
            ctx.sample({"family": name, "case": c, "impl": e[0]}, limit=7)
        fam = _report(ctx, name, len(cases), fails, diverge, known_hits, model_err, False, time.time())
        fam["wall_s"] = round(tp, 2)
        fam["nontrivial"] = sum(1 for e in ev if e[4] is not None)
        fam["model_out_of_fuel"] = sum(1 for k in range(len(cases)) if model is not None and [-3] in model[pos - len(cases) + k]
                                       and not cases[k].get("hangs"))
    ctx.coverage["coq_batch_wall_s"] = round(tc, 2)


# ---------------------------------------------------------------------------- run
def run(ctx: Ctx):
    thorough = ctx.tier == "thorough"
    rng = ctx.rng
    replay_findings(ctx, "pipeline", impl, holds)
    replay_findings(ctx, "sound-egraph", impl, holds)
    replay_findings(ctx, "saturated", impl, holds)
    hist = {"ops": {}, "modes": {}, "rules": {}}

    def note(cases):
        for c in cases:
            hist["modes"][c["mode"]] = hist["modes"].get(c["mode"], 0) + 1
            for n in c["body"]:
                hist["ops"][NAMES[n[0]]] = hist["ops"].get(NAMES[n[0]], 0) + 1
            for r in c.get("rules", []):
                hist["rules"][RULE_NAMES[r]] = hist["rules"].get(RULE_NAMES[r], 0) + 1
        return cases

    fams = [
        ("corpus", corpus()),
        ("pipeline", [gen_pipe(rng, i) for i in range(2500 if thorough else 350)]),
        ("pipeline-diagnostics", [gen_pipe_diag(rng, i) for i in range(600 if thorough else 80)]),
        ("sound-egraph", [gen_sound(rng, i) for i in range(3000 if thorough else 350)]),
        ("wild-egraph", [gen_wild(rng, i) for i in range(3000 if thorough else 350)]),
        ("wild-extract", [gen_wild(rng, i, True) for i in range(2000 if thorough else 250)]),
        ("saturated", [gen_sat(rng, i) for i in range(1200 if thorough else 120)]),
    ]
    run_families(ctx, [(name, note(cases)) for name, cases in fams])
    ctx.coverage["histogram"] = hist
    ctx.coverage["rule"] = __doc__.split("\n\n", 1)[1][:1500]
    ctx.coverage["saturation_rules"] = RULE_NAMES
    if _TMP is not None:
        shutil.rmtree(_TMP, ignore_errors=True)
