"""C22 -- prologue/epilogue kernel, implementation side: build a pre-allocated riscv_func.func, run the REAL
PrologueEpilogueInsertion pass, decode the ops it inserted; also execute the emitted assembly.

Case: {"xlen": 4|8, "flen": 4|8, "blocks": [{"ops": [[kind, regcode], ...], "ret": bool}, ...]}
  kind 0  rv32.li 5 -> int register `regcode`            (regcode -1: unallocated, 0..31 hard register, 100+N j_N)
  kind 1  riscv.fld (a0), 0 -> float register `regcode`
  kind 2  rv32.get_register : int register (NOT a write: the pass must ignore it)
  kind 3  riscv.get_float_register : float register (ignored likewise)
  kind 4  riscv.mv a0 -> int register
Result: [[prologue...], [epilogue...]] with entries [0, imm] (addi sp, sp, imm), [1, isfloat, index, offset]
(sw/fsd), [2, isfloat, index, offset] (lw/fld); [-5, ...] if the return blocks disagree or an inserted op is malformed.
"""
from __future__ import annotations

from harness.common import exc_code
from harness.props import c22_rv as rv


def _reg(code, is_float):
    from harness.props.c22_snip import _regtype
    return _regtype(code, is_float)


def build(case):
    from xdsl.dialects import builtin, riscv, riscv_func, rv32
    from xdsl.ir import Block, Region
    blocks = []
    a0 = None
    for bi, b in enumerate(case["blocks"]):
        blk = Block(arg_types=[riscv.Registers.A0] if bi == 0 else [])
        if bi == 0:
            a0 = blk.args[0]
        for kind, code in b["ops"]:
            if kind == 0:
                op = rv32.LiOp(5, rd=_reg(code, False))
            elif kind == 1:
                op = riscv.FLdOp(a0, 0, rd=_reg(code, True))
            elif kind == 2:
                op = rv32.GetRegisterOp(_reg(code, False))
            elif kind == 3:
                op = riscv.GetFloatRegisterOp(_reg(code, True))
            else:
                op = riscv.MVOp(a0, rd=_reg(code, False))
            blk.add_op(op)
        if b["ret"]:
            blk.add_op(riscv_func.ReturnOp())
        else:
            blk.add_op(riscv.NopOp())
        blocks.append(blk)
    f = riscv_func.FuncOp("f", Region(blocks), ((riscv.Registers.A0,), ()))
    return builtin.ModuleOp([f]), f


def _decode(ops, sp_val):
    from xdsl.dialects import riscv, rv32
    from xdsl.dialects.builtin import IntegerAttr
    out = []
    for op in ops:
        if isinstance(op, (rv32.GetRegisterOp, riscv.GetFloatRegisterOp)):
            continue
        if isinstance(op, riscv.AddiOp):
            if op.rs1 is not sp_val or op.rd.type != riscv.Registers.SP or not isinstance(op.immediate, IntegerAttr):
                return [[-5, 1]]
            out.append([0, op.immediate.value.data])
        elif isinstance(op, (riscv.SwOp, riscv.FSdOp)):
            src = op.rs2.owner
            fl = isinstance(op, riscv.FSdOp)
            if op.rs1 is not sp_val or not isinstance(src, (rv32.GetRegisterOp, riscv.GetFloatRegisterOp)):
                return [[-5, 2]]
            out.append([1, int(fl), op.rs2.type.index.data, op.immediate.value.data])
        elif isinstance(op, (riscv.LwOp, riscv.FLdOp)):
            fl = isinstance(op, riscv.FLdOp)
            if op.rs1 is not sp_val:
                return [[-5, 3]]
            out.append([2, int(fl), op.rd.type.index.data, op.immediate.value.data])
        else:
            return [[-5, 4]]
    return out


def run_pass(case, pass_cls=None):
    if pass_cls is None:
        from xdsl.backend.riscv.prologue_epilogue_insertion import PrologueEpilogueInsertion as pass_cls
    from xdsl.context import Context
    module, f = build(case)
    orig = [set(id(o) for o in b.ops) for b in f.body.blocks]
    pass_cls(xlen=case["xlen"], flen=case["flen"]).apply(Context(), module)
    return module, f, orig


def impl(case, pass_cls=None):
    from xdsl.dialects import riscv, riscv_func, rv32
    try:
        module, f, orig = run_pass(case, pass_cls)
    except BaseException as e:
        return [-1, exc_code(e)]
    blocks = list(f.body.blocks)
    new0 = [o for o in blocks[0].ops if id(o) not in orig[0]]
    sp_val = None
    for o in new0:
        if isinstance(o, rv32.GetRegisterOp) and o.res.type == riscv.Registers.SP:
            sp_val = o.res
            break
    # prologue: the inserted ops before the first original op of block 0
    pro = []
    seen_addi = False
    for o in blocks[0].ops:
        if id(o) in orig[0]:
            break
        # block 0 may consist of inserted ops only: the prologue ends where the restores / second sp adjust begin
        if isinstance(o, (riscv.LwOp, riscv.FLdOp)) or (isinstance(o, riscv.AddiOp) and seen_addi):
            break
        seen_addi = seen_addi or isinstance(o, riscv.AddiOp)
        pro.append(o)
    epis = []
    for b, og in zip(blocks, orig):
        ins = [o for o in b.ops if id(o) not in og and not (b is blocks[0] and o in pro)]
        if isinstance(b.last_op, riscv_func.ReturnOp):
            # they must sit immediately before the return
            tail = list(b.ops)[-1 - len(ins):-1] if ins else []
            if tail != ins:
                return [[[-5, 5]], [[-5, 5]]]
            epis.append(_decode(ins, sp_val))
        elif ins:
            return [[[-5, 6]], [[-5, 6]]]
    if sp_val is None:
        if pro or any(epis):
            return [[[-5, 7]], [[-5, 7]]]
        return [[], []]
    epi = epis[0] if epis else None
    if any(e != epi for e in epis):
        return [_decode(pro, sp_val), [[-5, 8]]]
    if epi is None:
        # no returning block: nothing to compare on the epilogue side; report the model's expectation slot as []
        return [_decode(pro, sp_val), [[-6]]]
    return [_decode(pro, sp_val), epi]


def written_regs(case):
    """result registers of the ops in walk order, get_register ops excluded (what the model is given)"""
    out = []
    for b in case["blocks"]:
        for kind, code in b["ops"]:
            if kind in (2, 3):
                continue
            out.append([1 if kind == 1 else 0, code])
    return out


def run_function(case, seed, pass_cls=None):
    """Execute the emitted assembly of the function (only xlen=4, flen=8 is meaningful on the RV32 machine)."""
    import random
    from xdsl.dialects.riscv import riscv_code
    module, f, _ = run_pass(case, pass_cls)
    asm = riscv_code(module)
    r = random.Random(seed)
    x = [r.getrandbits(32) for _ in range(32)]
    fr = [r.getrandbits(64) for _ in range(32)]
    x[0] = 0
    x[2] = 0x7FFF0000 - 16 * r.randint(0, 50)
    x[10] = 0x10000
    m = rv.Machine(x, fr, {})
    x0, f0 = list(m.x), list(m.f)
    rv.run_asm(asm, "f", m)
    return x0, f0, m, asm
