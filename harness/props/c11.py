"""C11 -- The greedy rewrite driver reaches a fixpoint and observes every IR change.

Tie: hand-written Coq model of PatternRewriter / PatternRewriteWalker / GreedyRewritePatternApplier
(coq/C11/Model.v, generic in the IR) instantiated with a concrete IR heap (coq/C11/IR.v) vs the real
classes.  Two families.  (a) action-table: every PatternRewriter method (and the deprecated aliases)
is called on a PatternRewriter constructed directly on scratch IR with a recording listener; compared:
which calls were made, has_done_action, listener log, resulting IR.  (b) scripted-walks: a real
RewritePattern whose behaviour is a table (op tag, stage) -> guarded list of rewriter calls is run by the
real PatternRewriteWalker over generated IR (nested regions, several blocks, block arguments) for every
walk configuration (walk_reverse x walk_regions_first x apply_recursively), as a single pattern or inside
GreedyRewritePatternApplier (dce on/off), with the real LIFO Worklist or with walker._worklist replaced
by a container whose pop follows a seeded choice sequence; compared: returned bool, the sequence of ops
the pattern was invoked on, the listener log, the final IR.
Oracle (independent of the model, computed on the real IR only): no invocation on an op not attached to
the module; per match `IR changed => has_done_action`; per match every op that appeared / disappeared /
changed operands or result types is covered by an insertion / removal / modification event (of itself
or of an enclosing op); returned bool true whenever the IR changed; with apply_recursively, re-applying
the pattern to every remaining op (on a clone) changes nothing.
Non-trivial: at least one match changed the IR; distinct = distinct (IR, script, configuration).
"""
from __future__ import annotations

import json

from harness.common import (Ctx, DiffSpec, coq_Z, coq_bool, coq_list, coq_nat, coq_nats, differential,
                            exc_code, replay_findings)

META = {
    "id": "C11",
    "title": "The greedy rewrite driver reaches a fixpoint and observes every IR change",
    "design_ref": "DESIGN.md section 8.C11",
    "technique": "Coq proof over an abstract IR of the rewriter's action table and the worklist driver (any pop policy) + model-vs-code correspondence of every rewriter method and of scripted pattern walks",
    "level_text": (
        "Theorems in coq/Props/C11.v are about an executable model of PatternRewriter / PatternRewriteWalker / "
        "GreedyRewritePatternApplier that is generic in the IR (`Sem`), for every pattern that is a sequence of "
        "rewriter calls, every pop policy (any function returning a member), every walk configuration and both "
        "matchers (single pattern, greedy applier with DCE short-circuit).  Proved outright for the heap model that "
        "is run against xDSL (its use-replacing primitives satisfy FlagLaws): a call that "
        "changes the IR sets has_done_action; a match that changes the IR sets it; when rewrite_region returns "
        "with apply_recursively every op of the region is quiescent (a match on it leaves the IR and the flag "
        "untouched); the returned bool is true whenever the IR changed -- for every method and pattern set (the "
        "pre-5d0c2dd code, where create_block left the flag unset, is kept as an `_old` variant with its recorded "
        "refutations C11_flag_sound_old_refuted, C11_fixpoint_and_return_old_refuted).  A single worklist "
        "pass does not reach the fixpoint (C11_single_pass_refuted): the listener callbacks "
        "re-enqueue only inserted/modified ops, users of replaced results and single-use operand definers of erased "
        "ops; the outer while loop is what guarantees it.  Also proved outright for the heap model (EvLaws proved, "
        "C11_events_complete_partial_model): every op created, erased or with changed operands is reported by an "
        "insertion/removal/modification event, for every method except inline_block with arg_values "
        "(C11_events_complete_refuted).  No-stale (the worklist only holds non-erased ops, so no pattern is invoked "
        "on an erased op) is proved for every IR model satisfying LiveLaws; for the heap model its structural half "
        "and the use-def half of its invariant (use lists name only live users, agree with the operand lists, have no "
        "duplicates) are proved for all thirteen primitives; the tree half (the region walk yields only live ops) is "
        "proved for erase and the eight primitives that do not touch the tree, so C11_no_stale_model_covered holds "
        "with no law hypothesis for pattern sets that only erase / replace uses / retype / edit block arguments / "
        "notify; for arbitrary pattern sets C11_no_stale_model_partial leaves one hypothesis: a tree invariant "
        "preserved by insert, inline_block, inline_region, move_region_contents_to_new_regions and create_block.  The worklist of the model is C12's abstract set-stack.  Tie to "
        "xdsl/pattern_rewriter.py, builder.py, rewriter.py: the action table is re-derived from the running code "
        "(every method on scratch IR) and scripted patterns are walked by the real driver in all 8 configurations "
        "with LIFO and seeded pop orders; invocation log, listener log, return value and final IR must be equal."),
    "level_note": (
        "Trusted: Coq kernel; hand-written model (coq/C11/Model.v, IR.v); correspondence harness; the heap "
        "tree-consistency half of InvLaws for the no-stale theorem (assumption, listed).  Not covered: post_walk_func, "
        "folding_enabled (Folder), safe_erase=False, name hints, successors / block uses, TypeConversionPattern, "
        "exceptions raised inside patterns, operations outside the rewritten region that get enqueued (the module op "
        "itself: the walker then raises ValueError), 'detached but not erased' ops (only reachable by a pattern that "
        "drops the region returned by move_region_contents_to_new_regions), patterns mutating the IR without the "
        "rewriter."),
}
COQ_TARGETS = ["C11/Enc.vo", "C11/Proofs.vo", "C11/ProofsIR.vo", "C11/ProofsWL.vo", "C11/ProofsEv.vo",
               "C11/ProofsLive.vo", "C11/ProofsInv.vo", "C11/ProofsTree.vo", "Props/C11.vo"]
REQ = ["C11.Model", "C11.IR", "C11.Enc"]
ASSUMPTIONS = [
    "patterns are sequences of PatternRewriter calls computed from the IR (plus an in-place attribute update made only when has_done_action is set); they respect the documented preconditions of the methods (no exception, no dangling uses, regions returned by move_region_contents_to_new_regions are re-attached within the match)",
    "terminating pattern sets: the fuel of the modelled while loops is a parameter; theorems are about runs that return",
    "for C11_no_stale_model_partial (arbitrary pattern sets) one law is not proved for the heap model: the tree half of InvLaws for insert, inline_block, inline_region, move_region_contents_to_new_regions and create_block -- some invariant preserved by these primitives under which the region walk yields only live ops (parent/child consistency of the IR tree, property C01's subject).  Proved for the heap model: StructLaws and EvLaws (all thirteen primitives); the use-def half UInv of the invariant (all thirteen primitives; insert for operations with new identifiers, replace_uses_with_if for two different values, as the rewriter calls them); the tree half TInv for erase and the eight primitives that do not touch the tree, which gives C11_no_stale_model_covered without any law hypothesis for pattern sets restricted to erase / replace_all_uses_with / replace_uses_with_if / replace_value_with_new_type / block-argument edits / notify_op_modified",
    "C11_no_stale_* are stated for pattern sets meeting the calls' documented preconditions (live_pre: the erased / replaced / notified op is live, the erased op has no dangling operand and does not enclose the owner of the rewritten region, insertion points exist, inserted ops are new) and for initial IR satisfying the heap invariants UInv / TInv (they hold for the empty module, C11_heap_invariants_hold_initially)",
    "FlagLaws (a use-replacing primitive over an empty / entirely filtered-out use list is the identity) is proved for the heap model (C11_flag_laws_hold_for_the_model)",
]
TRUSTED = []

N_OUTER = 60
FUEL = 400
MAX_INVOCATIONS = 380


# ----------------------------------------------------------------------------
# the real IR side


class Env:
    """Scratch IR + the harness' own naming of blocks (xDSL blocks carry no attributes)."""

    def __init__(self, cmds=None, module=None):
        from xdsl.dialects.builtin import ModuleOp
        self.module = ModuleOp([]) if module is None else module
        self.btag = {}
        self.keep = []
        self.limbo = []
        self.op_used = {0}
        self.blk_used = {0}
        self.dead = set()
        self.vid = {}
        self.pending_block = -1
        if module is None:
            self.set_btag(self.module.body.blocks[0], 0)
            for k in cmds or []:
                self.build_cmd(k)

    # -- naming
    def set_btag(self, b, t):
        self.btag[id(b)] = t
        self.keep.append(b)
        self.blk_used.add(t)

    def tag(self, op):
        if op is self.module:
            return 0
        return op.attributes["tag"].data

    def stage(self, op):
        if op is self.module:
            return 0
        return op.attributes["stage"].data

    def maps(self):
        ops, blks = {}, {}
        for op in self.module.walk():
            ops[self.tag(op)] = op
            for r in op.regions:
                for b in r.blocks:
                    blks[self.btag[id(b)]] = b
        return ops, blks

    def ty(self, n):
        from xdsl.dialects.builtin import IntegerType
        return IntegerType(n)

    def mk_op(self, tag, pure, stage, operands, restys, regions):
        from xdsl.dialects import test
        from xdsl.dialects.builtin import IntAttr
        cls = test.TestPureOp if pure else test.TestOp
        op = cls.create(operands=operands, result_types=[self.ty(t) for t in restys],
                        attributes={"tag": IntAttr(tag), "stage": IntAttr(stage)}, regions=regions)
        self.op_used.add(tag)
        self.keep.append(op)
        return op

    def mk_block(self, tag, argtys):
        from xdsl.ir import Block
        b = Block(arg_types=[self.ty(t) for t in argtys])
        self.set_btag(b, tag)
        return b

    def build_cmd(self, k):
        from xdsl.ir import Region
        ops, blks = self.maps()
        if k[0] == "op":
            _, tag, pure, stage, parent, opers, restys, nregs = k
            vs = [self.raw_v(ops, blks, x) for x in opers]
            if any(v is None for v in vs):
                return
            op = self.mk_op(tag, pure, stage, vs, restys, [Region() for _ in range(nregs)])
            blks[parent].add_op(op)
        else:
            _, tag, o, r, argtys = k
            if r >= len(ops[o].regions):
                return
            ops[o].regions[r].add_block(self.mk_block(tag, argtys))

    @staticmethod
    def raw_v(ops, blks, x):
        if x[0] == "res":
            o = ops.get(x[1])
            return o.results[x[2]] if o is not None and x[2] < len(o.results) else None
        b = blks.get(x[1])
        return b.args[x[2]] if b is not None and x[2] < len(b.args) else None

    # -- canonical views
    def canon_v(self, v):
        from xdsl.ir import BlockArgument, ErasedSSAValue, OpResult
        if isinstance(v, ErasedSSAValue):
            return [2]
        if isinstance(v, OpResult):
            return [0, self.tag(v.op), v.index]
        if isinstance(v, BlockArgument):
            b = v.block
            if any(a is v for a in b.args):
                return [1, self.btag[id(b)], v.index]
        return [3]

    def dump_op(self, op, stage=True):
        return [self.tag(op), self.stage(op) if stage else 0, 1 if op.name == "test.pureop" else 0,
                [self.canon_v(v) for v in op.operands],
                [v.type.width.data for v in op.results],
                [[[self.btag[id(b)], [a.type.width.data for a in b.args], [self.dump_op(o, stage) for o in b.ops]]
                  for b in r.blocks] for r in op.regions]]

    def dump(self, stage=True):
        return self.dump_op(self.module, stage)

    def attached(self, op):
        cur = op
        while cur is not None:
            if cur is self.module:
                return True
            cur = cur.parent_op()
        return False

    def pv(self, v):
        """persistent identity of a value object (oracle only)"""
        from xdsl.ir import ErasedSSAValue
        if isinstance(v, ErasedSSAValue):
            return -1
        k = id(v)
        if k not in self.vid:
            self.vid[k] = len(self.vid)
            self.keep.append(v)
        return self.vid[k]

    def views(self):
        """tag -> (operands by persistent identity, result types, ancestor tags) of attached ops"""
        out = {}

        def go(op, anc):
            t = self.tag(op)
            out[t] = ([self.pv(v) for v in op.operands], [v.type.width.data for v in op.results], anc)
            for r in op.regions:
                for b in r.blocks:
                    for o in b.ops:
                        go(o, anc + [t])
        go(self.module, [])
        return out


def subblocks(op):
    out = []
    for r in op.regions:
        for b in r.blocks:
            out.append(b)
            for o in b.ops:
                out += subblocks(o)
    return out


def is_in(x, xs):
    return any(x is y for y in xs)


class Steps:
    """Resolution of call templates against the real IR + the real calls (mirrors C11/IR.v `resolve`)."""

    def __init__(self, env: Env, rewriter):
        self.env = env
        self.rw = rewriter
        self.called = []

    def rv(self, ops, blks, x):
        if x[0] == "res":
            if x[1] == 0:
                return None
        return Env.raw_v(ops, blks, x)

    def ip_obj(self, ops, blks, ip):
        """-> (ok, InsertPoint or None for default, dest block)"""
        from xdsl.rewriter import InsertPoint
        k = ip[0]
        if k == "default":
            p = self.rw.insertion_point
            if p.insert_before is not None:
                o = p.insert_before
                if not self.env.attached(o) or o is self.env.module or o.parent is not p.block:
                    return False, None, None
            elif not is_in(p.block, blks.values()):
                return False, None, None
            return True, None, p.block
        if k in ("before", "after"):
            o = ops.get(ip[1])
            if o is None or ip[1] == 0:
                return False, None, None
            p = InsertPoint.before(o) if k == "before" else InsertPoint.after(o)
            return True, p, p.block
        b = blks.get(ip[1])
        if b is None:
            return False, None, None
        p = InsertPoint.at_start(b) if k == "start" else InsertPoint.at_end(b)
        return True, p, b

    def bp_obj(self, ops, blks, bp):
        """-> (ok, BlockInsertPoint, target region)"""
        from xdsl.rewriter import BlockInsertPoint
        k = bp[0]
        if k in ("before", "after"):
            b = blks.get(bp[1])
            if b is None:
                return False, None, None
            p = BlockInsertPoint.before(b) if k == "before" else BlockInsertPoint.after(b)
            return True, p, p.region
        o = ops.get(bp[1])
        if o is None or bp[1] == 0 or bp[2] >= len(o.regions):
            return False, None, None
        r = o.regions[bp[2]]
        p = BlockInsertPoint.at_start(r) if k == "start" else BlockInsertPoint.at_end(r)
        return True, p, r

    def defs_under(self, op, top):
        vs = []
        for s in op.walk():
            if s is op and not top:
                continue
            vs += list(s.results)
        for b in subblocks(op):
            vs += list(b.args)
        return vs

    def used_only_inside(self, op, vs):
        subs = list(op.walk())
        return all(is_in(u.operation, subs) for v in vs for u in v.uses)

    def plan_news(self, ops, blks, news):
        """check that the new ops can be created; returns a builder thunk or None"""
        env = self.env
        op_ids, blk_ids, limbo_ks = [], [], []
        for n in news:
            if any(self.rv(ops, blks, x) is None for x in n["operands"]):
                return None
            op_ids.append(n["id"])
            for g in n["regions"]:
                if g[0] == "limbo":
                    if g[1] >= len(env.limbo):
                        return None
                    limbo_ks.append(g[1])
                else:
                    for b in g[1]:
                        blk_ids.append(b["id"])
                        for lf in b["body"]:
                            if any(self.rv(ops, blks, x) is None for x in lf["operands"]):
                                return None
                            op_ids.append(lf["id"])
        if any(i in env.op_used for i in op_ids) or len(set(op_ids)) != len(op_ids):
            return None
        if any(i in env.blk_used for i in blk_ids) or len(set(blk_ids)) != len(blk_ids):
            return None
        if len(set(limbo_ks)) != len(limbo_ks):
            return None

        def make():
            from xdsl.ir import Region
            limbo0 = list(env.limbo)
            out = []
            for n in news:
                regs = []
                for g in n["regions"]:
                    if g[0] == "limbo":
                        regs.append(limbo0[g[1]])
                    else:
                        bs = []
                        for b in g[1]:
                            blk = env.mk_block(b["id"], b["argtys"])
                            for lf in b["body"]:
                                blk.add_op(env.mk_op(lf["id"], lf["pure"], 0,
                                                     [self.rv(ops, blks, x) for x in lf["operands"]],
                                                     lf["restys"], []))
                            bs.append(blk)
                        regs.append(Region(bs))
                out.append(env.mk_op(n["id"], n["pure"], 0, [self.rv(ops, blks, x) for x in n["operands"]],
                                     n["restys"], regs))
                if n.get("named"):   # results that already carry a name hint
                    for res in out[-1].results:
                        res.name_hint = "pre"
            env.limbo = [r for i, r in enumerate(limbo0) if i not in limbo_ks]
            return out
        return make

    def step(self, tm) -> bool:
        """perform one templated call if its preconditions hold; True iff the call was made"""
        env, rw = self.env, self.rw
        ops, blks = env.maps()
        k = tm[0]
        if k == "sethint":   # Builder.name_hint property; not a rewriting call (the model skips it too)
            rw.name_hint = "h" if tm[1] else None
            return False
        if k in ("insert", "insert_op"):
            ok, ip, _ = self.ip_obj(ops, blks, tm[2])
            if not ok:
                return False
            make = self.plan_news(ops, blks, tm[1])
            if make is None:
                return False
            new = make()
            (rw.insert if k == "insert" else rw.insert_op)(new, ip)
        elif k in ("erase", "erase_op"):
            o = ops.get(tm[1])
            if o is None or tm[1] == 0 or not self.used_only_inside(o, self.defs_under(o, True)):
                return False
            (rw.erase if k == "erase" else rw.erase_op)(o)
        elif k == "rauw":
            f = self.rv(ops, blks, tm[1])
            if f is None:
                return False
            if tm[2] is None:
                if f.first_use is not None:
                    return False
                rw.replace_all_uses_with(f, None)
            else:
                t = self.rv(ops, blks, tm[2])
                if t is None:
                    return False
                rw.replace_all_uses_with(f, t)
        elif k == "rauwif":
            f, t = self.rv(ops, blks, tm[1]), self.rv(ops, blks, tm[2])
            if f is None or t is None:
                return False
            p = tm[3]
            if p[0] == "users":
                pred = lambda use: env.tag(use.operation) in p[1]  # noqa: E731
            else:
                pred = lambda use: use.index == p[1]  # noqa: E731
            rw.replace_uses_with_if(f, t, pred)
        elif k in ("replace", "replace_op", "replace_matched_op"):
            o = ops.get(tm[1])
            if o is None or tm[1] == 0 or not self.used_only_inside(o, self.defs_under(o, False)):
                return False
            make = self.plan_news(ops, blks, tm[2])
            if make is None:
                return False
            inner = self.defs_under(o, False)
            new_operands = []
            for n in tm[2]:
                xs = list(n["operands"]) + [x for g in n["regions"] if g[0] == "fresh" for b in g[1]
                                            for lf in b["body"] for x in lf["operands"]]
                new_operands += [self.rv(ops, blks, x) for x in xs]
            if any(is_in(v, inner) for v in new_operands):
                return False
            nold = len(o.results)
            if tm[3] is None:
                nnew = len(tm[2][-1]["restys"]) if tm[2] else 0
                if nold != nnew:
                    return False
                res = None
            else:
                res = [None if x is None else self.rv(ops, blks, x) for x in tm[3]]
                if any(x is not None and r is None for x, r in zip(tm[3], res)) or len(res) != nold:
                    return False
                inner = self.defs_under(o, True)
                for old, new in zip(o.results, res):
                    if new is None:
                        if old.first_use is not None or is_in(old, new_operands):
                            return False
                    elif is_in(new, inner):
                        return False
            new = make()
            if k == "replace":
                rw.replace(o, new, res)
            elif k == "replace_op":
                rw.replace_op(o, new, res)
            else:
                assert o is rw.current_operation
                rw.replace_matched_op(new, res)
        elif k == "retype":
            from xdsl.ir import OpResult
            v = self.rv(ops, blks, tm[1])
            if v is None:
                return False
            p = v.op if isinstance(v, OpResult) else v.block.parent_op()
            if p is None or p is env.module:
                return False
            old = env.pv(v)
            new = rw.replace_value_with_new_type(v, env.ty(tm[2]))
            env.vid[id(new)] = old
            env.keep.append(new)
        elif k == "insarg":
            b = blks.get(tm[1])
            if b is None or tm[2] > len(b.args):
                return False
            rw.insert_block_argument(b, tm[2], env.ty(tm[3]))
        elif k == "erasearg":
            if tm[1][0] != "arg":
                return False
            v = self.rv(ops, blks, tm[1])
            if v is None or v.first_use is not None:
                return False
            rw.erase_block_argument(v)
        elif k == "inlineblock":
            b = blks.get(tm[1])
            if b is None:
                return False
            ok, ip, dest = self.ip_obj(ops, blks, tm[2])
            if not ok:
                return False
            vs = [self.rv(ops, blks, x) for x in tm[3]]
            if any(v is None for v in vs):
                return False
            under = [b] + [x for o in b.ops for x in subblocks(o)]
            if is_in(dest, under):
                return False
            if not vs:
                if any(a.first_use is not None for a in b.args):
                    return False
            elif len(vs) != len(b.args) or any(is_in(v, b.args) for v in vs):
                return False
            rw.inline_block(b, rw.insertion_point if ip is None else ip, tuple(vs))
        elif k == "moveregion":
            o = ops.get(tm[1])
            if o is None or tm[1] == 0 or tm[2] >= len(o.regions):
                return False
            env.limbo.append(rw.move_region_contents_to_new_regions(o.regions[tm[2]]))
        elif k == "inlineregion":
            o = ops.get(tm[1])
            if o is None or tm[1] == 0:
                return False
            ok, bp, treg = self.bp_obj(ops, blks, tm[3])
            if not ok or tm[2] >= len(o.regions):
                return False
            src = o.regions[tm[2]]
            if src is treg or treg.parent is None:
                return False
            under = [s for b in src.blocks for x in b.ops for s in x.walk()]
            if is_in(treg.parent, under):
                return False
            rw.inline_region(src, bp)
        elif k == "notify":
            o = ops.get(tm[1])
            if o is None or tm[1] == 0:
                return False
            rw.notify_op_modified(o)
        elif k == "createblock":
            ok, bp, _ = self.bp_obj(ops, blks, tm[2])
            if not ok or tm[1] in env.blk_used:
                return False
            env.pending_block = tm[1]
            b = rw.create_block(bp, [env.ty(t) for t in tm[3]])
            env.set_btag(b, tm[1])
        else:
            raise ValueError(f"unknown template {k}")
        self.called.append((k, tm))
        return True


def eval_guard(env: Env, ops, blks, g) -> bool:
    k = g[0]
    if k == "not":
        return not eval_guard(env, ops, blks, g[1])
    if k == "stagege":
        o = ops.get(g[1])
        return o is not None and g[1] != 0 and env.stage(o) >= g[2]
    if k == "unused":
        if g[1][0] == "res" and g[1][1] == 0:
            return False
        v = Env.raw_v(ops, blks, g[1])
        return v is not None and v.first_use is None
    if k == "nblocks":
        o = ops.get(g[1])
        return o is not None and g[1] != 0 and g[2] < len(o.regions) and len(o.regions[g[2]].blocks) == g[3]
    raise ValueError(k)


def make_scripted(env: Env, table, calls_log=None):
    from xdsl.dialects.builtin import IntAttr
    from xdsl.pattern_rewriter import RewritePattern

    class Scripted(RewritePattern):
        def match_and_rewrite(self, op, rewriter):
            tag, stage = env.tag(op), env.stage(op)
            e = next((e for e in table if e["tag"] == tag and e["stage"] == stage), None)
            if e is None:
                return
            ops, blks = env.maps()
            if not all(eval_guard(env, ops, blks, g) for g in e["guards"]):
                return
            st = Steps(env, rewriter)
            for tm in e["steps"]:
                st.step(tm)
            if calls_log is not None:
                calls_log.extend(st.called)
            if rewriter.has_done_action and id(op) not in env.dead and op is not env.module:
                op.attributes["stage"] = IntAttr(stage + 1)

    return Scripted()


class Recorder:
    def __init__(self, env: Env):
        from xdsl.pattern_rewriter import PatternRewriterListener
        self.env = env
        self.events = []
        self.listener = PatternRewriterListener(
            operation_insertion_handler=[self.ins], operation_removal_handler=[self.rem],
            operation_modification_handler=[self.mod], operation_replacement_handler=[self.rep],
            block_creation_handler=[self.blk])

    def ins(self, op):
        self.events.append([0, self.env.tag(op)])

    def rem(self, op):
        for s in op.walk():
            self.env.dead.add(id(s))
        self.events.append([1, self.env.tag(op)])

    def mod(self, op):
        self.events.append([2, self.env.tag(op)])

    def rep(self, op, new_results):
        self.events.append([3, self.env.tag(op), [[4] if v is None else self.env.canon_v(v) for v in new_results]])

    def blk(self, b):
        # the harness names the block right after create_block returns; the event only counts it
        self.events.append([4, self.env.btag.get(id(b), self.env.pending_block)])


class ChoiceWorklist:
    """duck-typed xdsl.utils.worklist.Worklist whose pop follows a choice sequence"""

    def __init__(self, seq):
        self.items = []
        self.seq = seq
        self.k = 0

    def __bool__(self):
        return bool(self.items)

    def push(self, x):
        if not is_in(x, self.items):
            self.items.append(x)

    def pop(self):
        n = len(self.items)
        if n == 0:
            raise IndexError("pop from empty worklist")
        i = self.seq[self.k % len(self.seq)] % n
        self.k += 1
        return self.items.pop(i)

    def remove(self, x):
        self.items = [y for y in self.items if y is not x]


class TooLong(Exception):
    pass


_OBS: dict = {}


def case_key(case):
    return json.dumps(case, sort_keys=True)


def run_walk(case):
    """-> (core result for the correspondence, oracle observations)"""
    from xdsl.pattern_rewriter import GreedyRewritePatternApplier, PatternRewriteWalker, RewritePattern
    env = Env(case["ir"])
    rec = Recorder(env)
    calls: list = []
    pats = [make_scripted(env, tb, calls) for tb in case["pats"]]
    top = GreedyRewritePatternApplier(pats, dce_enabled=case["dce"]) if case["greedy"] else pats[0]
    inv, matches = [], []

    class Logging(RewritePattern):
        def match_and_rewrite(self, op, rewriter):
            if len(inv) >= MAX_INVOCATIONS:
                raise TooLong()
            att = env.attached(op) and id(op) not in env.dead
            inv.append(env.tag(op))
            before, vb, e0, c0 = env.dump(False), env.views(), len(rec.events), len(calls)
            top.match_and_rewrite(op, rewriter)
            after, va = env.dump(False), env.views()
            evs = rec.events[e0:]
            unc = []
            ins = {e[1] for e in evs if e[0] == 0}
            rem = {e[1] for e in evs if e[0] == 1}
            mod = {e[1] for e in evs if e[0] == 2}
            for t, (opsv, resv, anc) in va.items():
                if t not in vb:
                    if not (ins & set([t] + anc)):
                        unc.append([t, 0])
                elif (opsv, resv) != vb[t][:2] and t not in mod and t not in ins:
                    unc.append([t, 2])
            for t, (_, _, anc) in vb.items():
                if t not in va and not (rem & set([t] + anc)):
                    unc.append([t, 1])
            matches.append({"op": inv[-1], "attached": att, "changed": before != after, "limbo": len(env.limbo),
                            "flag": bool(rewriter.has_done_action), "uncovered": unc,
                            "calls": [[k, (len(tm[3]) if k == "inlineblock" else 0)] for k, tm in calls[c0:]]})

    rev, rf, recur = case["cfg"]
    walker = PatternRewriteWalker(Logging(), walk_regions_first=rf, apply_recursively=recur, walk_reverse=rev,
                                  listener=rec.listener)
    if case["policy"]:
        walker._worklist = ChoiceWorklist(case["policy"])
    d0 = env.dump(False)
    try:
        ret = walker.rewrite_module(env.module)
    except TooLong:
        return [-3], {"error": "more than %d pattern invocations" % MAX_INVOCATIONS}
    except BaseException as e:  # noqa: BLE001
        return [-1, exc_code(e)], {"error": f"walker raised {type(e).__name__}: {e}", "matches": matches}
    obs = {"matches": matches, "ret": bool(ret), "changed": d0 != env.dump(False), "limbo": len(env.limbo),
           "still_acting": still_acting(env, case) if recur else []}
    return [1 if ret else 0, inv, rec.events, env.dump()], obs


def still_acting(env: Env, case):
    """re-apply the pattern to every remaining op on a clone; tags of ops whose match changes the IR"""
    from xdsl.pattern_rewriter import GreedyRewritePatternApplier, PatternRewriter
    out = []
    if env.limbo:
        return out
    tags = [env.tag(o) for o in env.module.body.walk()]
    for t in tags:
        m2 = env.module.clone()
        e2 = Env(module=m2)
        e2.op_used, e2.blk_used = set(env.op_used), set(env.blk_used)
        for a, b in zip(subblocks(env.module), subblocks(m2)):
            e2.set_btag(b, env.btag[id(a)])
        pats = [make_scripted(e2, tb) for tb in case["pats"]]
        top = GreedyRewritePatternApplier(pats, dce_enabled=case["dce"]) if case["greedy"] else pats[0]
        op2 = e2.maps()[0][t]
        before = e2.dump(False)
        try:
            top.match_and_rewrite(op2, PatternRewriter(op2))
        except BaseException as e:  # noqa: BLE001
            out.append([t, exc_code(e)])
            continue
        if e2.dump(False) != before:
            out.append([t, 0])
    return out


def run_direct(case):
    from xdsl.pattern_rewriter import PatternRewriter
    env = Env(case["ir"])
    rec = Recorder(env)
    cur = env.maps()[0][case["cur"]]
    rw = PatternRewriter(cur)
    rw.extend_from_listener(rec.listener)
    st = Steps(env, rw)
    d0, v0 = env.dump(False), env.views()
    bits = []
    try:
        for tm in case["steps"]:
            bits.append(1 if st.step(tm) else 0)
    except BaseException as e:  # noqa: BLE001
        return [-1, exc_code(e)], {"error": f"{type(e).__name__}: {e}"}
    d1, v1 = env.dump(False), env.views()
    ins = {e[1] for e in rec.events if e[0] == 0}
    rem = {e[1] for e in rec.events if e[0] == 1}
    mod = {e[1] for e in rec.events if e[0] == 2}
    unc = []
    for t, (opsv, resv, anc) in v1.items():
        if t not in v0:
            if not (ins & set([t] + anc)):
                unc.append([t, 0])
        elif (opsv, resv) != v0[t][:2] and t not in mod and t not in ins:
            unc.append([t, 2])
    for t, (_, _, anc) in v0.items():
        if t not in v1 and not (rem & set([t] + anc)) and not env.limbo:
            unc.append([t, 1])
    obs = {"matches": [{"op": case["cur"], "attached": True, "changed": d0 != d1,
                        "flag": bool(rw.has_done_action), "uncovered": unc,
                        "calls": [[k, (len(tm[3]) if k == "inlineblock" else 0)] for k, tm in st.called]}],
           "ret": bool(rw.has_done_action), "changed": d0 != d1, "limbo": 0, "still_acting": []}
    return [bits, 1 if rw.has_done_action else 0, rec.events, env.dump()], obs


def impl(case):
    core, obs = (run_direct if case["kind"] == "direct" else run_walk)(case)
    _OBS.clear()
    _OBS[case_key(case)] = obs
    return core


def observations(case):
    k = case_key(case)
    if k not in _OBS:
        impl(case)
    return _OBS[k]


def failures(case):
    """list of (kind, detail) -- the property's clauses evaluated on the real run"""
    obs = observations(case)
    out = []
    if "error" in obs:
        return [("error", obs["error"])]
    if any(m.get("limbo") for m in obs["matches"]):
        return []   # the scripted pattern leaked a detached region: outside the property's pattern class
    for i, m in enumerate(obs["matches"]):
        if not m["attached"]:
            out.append(("stale", f"match #{i}: pattern invoked on op {m['op']} which is erased or detached from the module"))
        if m["changed"] and not m["flag"]:
            out.append(("flag", f"match #{i} on op {m['op']} changed the IR but has_done_action stayed False (calls {m['calls']})"))
        for t, kind in m["uncovered"]:
            what = ["appeared without an insertion event", "disappeared without a removal event",
                    "had its operands/result types changed without a modification event"][kind]
            out.append(("events", f"match #{i} on op {m['op']}: op {t} {what} (calls {m['calls']})"))
    if obs["changed"] and not obs["ret"]:
        out.append(("ret", "the IR changed but the walker / rewriter reported no modification"))
    for t, code in obs["still_acting"]:
        out.append(("fixpoint", f"after rewrite_module returned, the pattern still changes the IR when applied to op {t}"))
    return out


def holds(case, res):
    f = failures(case)
    if f:
        return False, "; ".join(d for _, d in f[:4]) + (f" (+{len(f) - 4} more)" if len(f) > 4 else "")
    return True, ""


def known(case, res):
    """C11-kf-2: every unreported change is an operand change in a match that called inline_block with
    arg_values, and nothing else fails.  (C11-kf-1, create_block leaving has_done_action unset, is fixed
    by 5d0c2dd and suppresses nothing; the driver additionally only honours ids of unfixed entries.)"""
    obs = observations(case)
    if "error" in obs:
        return None
    kinds = {k for k, _ in failures(case)}
    if kinds != {"events"}:
        return None
    for m in obs["matches"]:
        if m["uncovered"] and not (all(kind == 2 for _, kind in m["uncovered"])
                                   and any(k == "inlineblock" and n > 0 for k, n in m["calls"])):
            return None
    return "C11-kf-2"


def nontrivial(case, res):
    obs = observations(case)
    if "error" in obs or not any(m["changed"] for m in obs["matches"]) or any(m.get("limbo") for m in obs["matches"]):
        return None
    return case_key(case)


# ----------------------------------------------------------------------------
# Coq literals


def q_vref(x):
    return f"(VRes {x[1]} {x[2]})" if x[0] == "res" else f"(VArg {x[1]} {x[2]})"


def q_opt(x, f):
    return "None" if x is None else f"(Some {f(x)})"


def q_Zs(l):
    return coq_list(coq_Z(t) for t in l)


def q_ip(ip):
    return {"default": "IPDefault", "before": "(IPBefore %s)", "after": "(IPAfter %s)", "start": "(IPStart %s)",
            "end": "(IPEnd %s)"}[ip[0]] % tuple(ip[1:])


def q_bp(bp):
    return {"before": "(BPBefore %s)", "after": "(BPAfter %s)", "start": "(BPStart %s %s)",
            "end": "(BPEnd %s %s)"}[bp[0]] % tuple(bp[1:])


def q_leaf(l):
    return (f"{{| tl_id := {l['id']}; tl_pure := {coq_bool(l['pure'])}; tl_operands := "
            f"{coq_list(q_vref(x) for x in l['operands'])}; tl_restys := {q_Zs(l['restys'])} |}}")


def q_blk(b):
    return (f"{{| tb_id := {b['id']}; tb_argtys := {q_Zs(b['argtys'])}; "
            f"tb_body := {coq_list(q_leaf(l) for l in b['body'])} |}}")


def q_reg(g):
    return f"(TRLimbo {g[1]})" if g[0] == "limbo" else f"(TRFresh {coq_list(q_blk(b) for b in g[1])})"


def q_new(n):
    return (f"{{| tn_id := {n['id']}; tn_pure := {coq_bool(n['pure'])}; tn_operands := "
            f"{coq_list(q_vref(x) for x in n['operands'])}; tn_restys := {q_Zs(n['restys'])}; "
            f"tn_regions := {coq_list(q_reg(g) for g in n['regions'])} |}}")


def q_tmpl(tm):
    k = tm[0]
    if k in ("insert", "insert_op"):
        return f"(TInsert {coq_list(q_new(n) for n in tm[1])} {q_ip(tm[2])})"
    if k in ("erase", "erase_op"):
        return f"(TErase {tm[1]})"
    if k == "rauw":
        return f"(TRauw {q_vref(tm[1])} {q_opt(tm[2], q_vref)})"
    if k == "rauwif":
        p = f"(UPUserIn {coq_nats(tm[3][1])})" if tm[3][0] == "users" else f"(UPIndex {tm[3][1]})"
        return f"(TRauwIf {q_vref(tm[1])} {q_vref(tm[2])} {p})"
    if k in ("replace", "replace_op", "replace_matched_op"):
        res = q_opt(tm[3], lambda l: coq_list(q_opt(x, q_vref) for x in l))
        return f"(TReplace {tm[1]} {coq_list(q_new(n) for n in tm[2])} {res})"
    if k == "retype":
        return f"(TRetype {q_vref(tm[1])} {coq_Z(tm[2])})"
    if k == "insarg":
        return f"(TInsertArg {tm[1]} {tm[2]} {coq_Z(tm[3])})"
    if k == "erasearg":
        return f"(TEraseArg {q_vref(tm[1])})"
    if k == "inlineblock":
        return f"(TInlineBlock {tm[1]} {q_ip(tm[2])} {coq_list(q_vref(x) for x in tm[3])})"
    if k == "moveregion":
        return f"(TMoveRegion {tm[1]} {tm[2]})"
    if k == "inlineregion":
        return f"(TInlineRegion {tm[1]} {tm[2]} {q_bp(tm[3])})"
    if k == "notify":
        return f"(TNotify {tm[1]})"
    if k == "createblock":
        return f"(TCreateBlock {tm[1]} {q_bp(tm[2])} {q_Zs(tm[3])})"
    if k == "sethint":
        return f"(TSetHint {coq_bool(bool(tm[1]))})"
    raise ValueError(k)


def q_guard(g):
    if g[0] == "not":
        return f"(GNot {q_guard(g[1])})"
    if g[0] == "stagege":
        return f"(GStageGe {g[1]} {g[2]})"
    if g[0] == "unused":
        return f"(GUnused {q_vref(g[1])})"
    return f"(GNumBlocks {g[1]} {g[2]} {g[3]})"


def q_entry(e):
    return (f"{{| e_tag := {e['tag']}; e_stage := {e['stage']}; e_guards := {coq_list(q_guard(g) for g in e['guards'])}; "
            f"e_steps := {coq_list(q_tmpl(t) for t in e['steps'])} |}}")


def q_cmd(k):
    if k[0] == "op":
        _, tag, pure, stage, parent, opers, restys, nregs = k
        return (f"KOp {tag} {coq_bool(pure)} {stage} {parent} {coq_list(q_vref(x) for x in opers)} "
                f"{q_Zs(restys)} {nregs}")
    _, tag, o, r, argtys = k
    return f"KBlk {tag} {o} {r} {q_Zs(argtys)}"


def coq_expr(case):
    ir = coq_list(q_cmd(k) for k in case["ir"])
    if case["kind"] == "direct":
        return f"c11_direct ({ir})%nat {case['cur']}%nat ({coq_list(q_tmpl(t) for t in case['steps'])})%nat"
    rev, rf, recur = case["cfg"]
    tbs = coq_list(coq_list(q_entry(e) for e in tb) for tb in case["pats"])
    return (f"c11_case ({ir})%nat {coq_bool(rev)} {coq_bool(rf)} {coq_bool(recur)} {coq_bool(case['greedy'])} "
            f"{coq_bool(case['dce'])} ({tbs})%nat ({coq_nats(case['policy'])}) {coq_nat(N_OUTER)} {coq_nat(FUEL)}")


# ----------------------------------------------------------------------------
# generators (every case is a pure function of ctx.rng)

SCRATCH = [
    ["op", 1, False, 0, 0, [], [1, 2], 0],
    ["op", 2, True, 0, 0, [["res", 1, 0], ["res", 1, 0]], [1], 0],
    ["op", 3, False, 0, 0, [["res", 2, 0], ["res", 1, 1]], [3], 2],
    ["blk", 1, 3, 0, [1, 2]],
    ["op", 4, False, 0, 1, [["arg", 1, 0], ["res", 1, 0]], [1], 0],
    ["op", 5, False, 0, 1, [["res", 4, 0], ["arg", 1, 1]], [], 0],
    ["blk", 2, 3, 0, []],
    ["op", 6, False, 0, 2, [], [2], 0],
    ["blk", 3, 3, 1, [1]],
    ["op", 7, False, 0, 3, [["arg", 3, 0]], [], 0],
    ["op", 8, False, 0, 0, [["res", 3, 0]], [], 0],
    ["op", 9, True, 0, 0, [], [1], 0],
    ["op", 10, False, 0, 0, [["res", 9, 0], ["res", 1, 1], ["res", 9, 0]], [1], 1],
    ["blk", 4, 10, 0, [1, 1]],
    ["op", 11, False, 0, 4, [["arg", 4, 0], ["arg", 4, 0], ["arg", 4, 1]], [1], 0],
]


def new_op(i, operands=(), restys=(), regions=(), pure=False):
    return {"id": i, "pure": pure, "operands": list(operands), "restys": list(restys), "regions": list(regions)}


def leaf(i, operands=(), restys=(), pure=False):
    return {"id": i, "pure": pure, "operands": list(operands), "restys": list(restys)}


def direct_table_cases():
    """one or more rows per PatternRewriter method on the fixed scratch IR"""
    R, A = (lambda t, i: ["res", t, i]), (lambda b, i: ["arg", b, i])
    rows = [
        (8, [["insert", [], ["default"]]]),
        (8, [["insert", [new_op(100, [R(1, 0)], [1])], ["default"]]]),
        (8, [["insert", [new_op(100, [R(1, 0)], [1]), new_op(101, [R(1, 0), R(9, 0)], [])], ["before", 2]]]),
        (2, [["insert", [new_op(100)], ["after", 11]]]),
        (2, [["insert", [new_op(100, [A(1, 0)], [2], [["fresh", [{"id": 100, "argtys": [1], "body": [leaf(101, [R(1, 1)], [1])]}]]])], ["start", 1]]]),
        (2, [["insert", [new_op(100)], ["end", 2]]]),
        (2, [["insert_op", [new_op(100, [R(2, 0)])], ["end", 0]]]),
        (8, [["sethint", 1], ["insert", [new_op(100, [R(1, 0)], [])], ["default"]]]),
        (8, [["sethint", 1], ["insert", [new_op(100, [R(1, 0)], [1]), new_op(101, [], []), dict(new_op(102, [], [1, 2]), named=True)], ["before", 2]]]),
        (8, [["sethint", 1], ["insert", [dict(new_op(100, [], [1]), named=True)], ["end", 2]], ["sethint", 0], ["insert", [new_op(101)], ["default"]]]),
        (8, [["sethint", 1], ["replace", 8, [new_op(100, [R(3, 0)], [1]), new_op(101, [R(3, 0)], [])], None]]),
        (2, [["sethint", 1], ["replace_matched_op", 2, [new_op(100), dict(new_op(101, [R(1, 1)], [1]), named=True)], None]]),
        (2, [["sethint", 1], ["replace", 2, [new_op(100, [], [], [["fresh", [{"id": 100, "argtys": [], "body": [leaf(101)]}]]])], [R(1, 0)]]]),
        (8, [["erase", 8]]), (8, [["erase", 9]]), (8, [["erase", 3]]), (4, [["erase", 10]]), (5, [["erase", 5]]),
        (8, [["erase_op", 8]]), (8, [["erase", 5], ["erase", 4]]),
        (8, [["rauw", R(1, 0), R(9, 0)]]), (8, [["rauw", R(9, 0), R(1, 0)]]), (8, [["rauw", R(2, 0), R(2, 0)]]),
        (8, [["rauw", R(6, 0), R(1, 0)]]), (8, [["rauw", R(6, 0), None]]), (8, [["rauw", R(1, 0), None]]),
        (8, [["rauw", A(4, 0), R(1, 1)]]), (8, [["rauw", A(1, 1), A(1, 0)]]),
        (8, [["rauwif", R(1, 0), R(9, 0), ["users", [2]]]]), (8, [["rauwif", R(1, 0), R(9, 0), ["users", [77]]]]),
        (8, [["rauwif", R(1, 0), R(9, 0), ["index", 1]]]), (8, [["rauwif", R(9, 0), R(9, 0), ["index", 0]]]),
        (8, [["rauwif", A(4, 0), R(1, 1), ["index", 1]]]),
        (2, [["replace", 2, [new_op(100, [R(1, 1)], [1])], None]]),
        (2, [["replace_matched_op", 2, [new_op(100, [R(1, 1)], [1])], None]]),
        (8, [["replace_op", 2, [new_op(100, [R(1, 1)], [1])], None]]),
        (2, [["replace", 2, [], [R(1, 0)]]]), (2, [["replace", 2, [new_op(100, [R(2, 0)], [1])], None]]),
        (1, [["replace", 1, [new_op(100, [], [1]), new_op(101, [], [1, 1])], None]]),
        (1, [["replace", 1, [new_op(100, [], [1])], [R(9, 0), ["res", 100, 0]]]]),
        (1, [["replace", 1, [new_op(100, [], [1])], [R(9, 0), R(9, 0)]]]),
        (3, [["replace", 3, [new_op(100, [R(1, 0)], [3])], None]]),
        (10, [["replace", 10, [], [R(9, 0)]]]), (8, [["replace", 8, [], None]]), (9, [["replace", 9, [], [None]]]),
        (8, [["retype", R(1, 0), 7]]), (8, [["retype", R(9, 0), 7]]), (8, [["retype", A(1, 0), 7]]),
        (8, [["retype", A(4, 0), 7]]), (8, [["retype", R(6, 0), 5]]),
        (8, [["insarg", 1, 0, 4]]), (8, [["insarg", 1, 2, 4]]), (8, [["insarg", 2, 0, 4]]), (8, [["insarg", 0, 0, 4]]),
        (8, [["erasearg", A(1, 0)]]), (8, [["insarg", 1, 1, 4], ["erasearg", A(1, 1)]]), (8, [["insarg", 3, 0, 4], ["erasearg", A(3, 0)]]),
        (3, [["inlineblock", 1, ["before", 3], [R(1, 0), R(1, 1)]]]),
        (3, [["inlineblock", 4, ["before", 10], [R(1, 0), R(9, 0)]]]),
        (3, [["inlineblock", 4, ["after", 10], [R(1, 0), R(1, 0)]]]),
        (3, [["inlineblock", 2, ["before", 3], []]]), (3, [["inlineblock", 2, ["end", 3], []]]),
        (3, [["inlineblock", 3, ["start", 2], [R(1, 1)]]]), (3, [["inlineblock", 1, ["before", 3], []]]),
        (10, [["inlineblock", 4, ["default"], [R(1, 0), R(9, 0)]]]),
        (3, [["moveregion", 3, 0], ["replace", 3, [new_op(100, [R(2, 0)], [3], [["limbo", 0]])], None]]),
        (3, [["moveregion", 3, 1], ["moveregion", 3, 0], ["insert", [new_op(100, [], [], [["limbo", 1], ["limbo", 0]])], ["after", 3]]]),
        (3, [["moveregion", 10, 0], ["insert", [new_op(100, [], [], [["limbo", 0], ["fresh", []]])], ["default"]]]),
        (3, [["inlineregion", 3, 0, ["after", 0]]]), (3, [["inlineregion", 3, 0, ["before", 0]]]),
        (3, [["inlineregion", 3, 0, ["end", 10, 0]]]), (3, [["inlineregion", 3, 1, ["start", 3, 0]]]),
        (3, [["inlineregion", 3, 0, ["before", 3]]]), (3, [["inlineregion", 3, 0, ["end", 3, 0]]]),
        (3, [["inlineregion", 10, 0, ["after", 1]]]),
        (8, [["notify", 8]]), (8, [["notify", 4]]), (8, [["notify", 55]]),
        (3, [["createblock", 100, ["after", 1], [1, 2]]]), (3, [["createblock", 100, ["before", 1], []]]),
        (3, [["createblock", 100, ["end", 3, 1], [1]]]), (3, [["createblock", 100, ["start", 10, 0], []]]),
        (3, [["createblock", 100, ["after", 0], []]]),
        (3, [["createblock", 100, ["end", 3, 0], [1]], ["insert", [new_op(100, [A(100, 0)])], ["default"]]]),
    ]
    return [{"kind": "direct", "ir": SCRATCH, "cur": cur, "steps": steps} for cur, steps in rows]


class IRGen:
    def __init__(self, rng, budget):
        self.rng = rng
        self.cmds = []
        self.ops = {}      # tag -> dict(block, nres, nregs, opers)
        self.blks = {0: {"op": 0, "r": 0, "nargs": 0}}
        self.n_op = 1
        self.n_blk = 1
        self.budget = budget
        self.fill(0, [], 0)

    def fill(self, block, visible, depth):
        rng = self.rng
        vis = list(visible)
        for _ in range(rng.randint(1, 4) if depth else rng.randint(3, 6)):
            if self.budget <= 0:
                break
            self.budget -= 1
            tag = self.n_op
            self.n_op += 1
            nregs = 0
            if depth < 2:
                nregs = rng.choices([0, 1, 2], [12, 5, 1])[0]
            pure = nregs == 0 and rng.random() < 0.3
            opers = [rng.choice(vis) for _ in range(rng.choices([0, 1, 2, 3], [3, 5, 4, 1])[0])] if vis else []
            restys = [rng.randint(1, 3) for _ in range(rng.choices([0, 1, 2], [3, 8, 2])[0])]
            self.cmds.append(["op", tag, pure, 0, block, opers, restys, nregs])
            self.ops[tag] = {"block": block, "nres": len(restys), "nregs": nregs, "opers": opers}
            for r in range(nregs):
                for _ in range(rng.choices([1, 2, 3], [6, 3, 1])[0]):
                    b = self.n_blk
                    self.n_blk += 1
                    argtys = [rng.randint(1, 3) for _ in range(rng.choices([0, 1, 2], [5, 4, 2])[0])]
                    self.cmds.append(["blk", b, tag, r, argtys])
                    self.blks[b] = {"op": tag, "r": r, "nargs": len(argtys)}
                    self.fill(b, vis + [["arg", b, i] for i in range(len(argtys))], depth + 1)
            vis += [["res", tag, i] for i in range(len(restys))]

    def values(self):
        return ([["res", t, i] for t, o in self.ops.items() for i in range(o["nres"])]
                + [["arg", b, i] for b, k in self.blks.items() for i in range(k["nargs"])])


class ScriptGen:
    def __init__(self, rng, ir: IRGen, allow_kf=True):
        self.rng, self.ir = rng, ir
        self.n_op, self.n_blk = 100, 100
        self.allow_kf = allow_kf

    def fresh_op(self):
        self.n_op += 1
        return self.n_op

    def fresh_blk(self):
        self.n_blk += 1
        return self.n_blk

    def any_op(self):
        return self.rng.choice(list(self.ir.ops))

    def any_blk(self):
        return self.rng.choice(list(self.ir.blks))

    def any_val(self, near=None):
        rng = self.rng
        if near is not None and self.ir.ops[near]["opers"] and rng.random() < 0.6:
            return rng.choice(self.ir.ops[near]["opers"])
        vs = self.ir.values()
        return rng.choice(vs) if vs else ["res", 1, 0]

    def vals(self, n, near=None):
        return [self.any_val(near) for _ in range(n)]

    def ip(self, t, allow_default=True):
        rng = self.rng
        k = rng.choices(["default", "before", "after", "start", "end"], [3 if allow_default else 0, 4, 3, 1, 2])[0]
        if k == "default":
            return ["default"]
        if k in ("before", "after"):
            return [k, t if rng.random() < 0.6 else self.any_op()]
        return [k, self.any_blk()]

    def bp(self, t):
        rng = self.rng
        k = rng.choice(["before", "after", "start", "end"])
        if k in ("before", "after"):
            own = [b for b, i in self.ir.blks.items() if i["op"] == t]
            return [k, rng.choice(own) if own and rng.random() < 0.5 else self.any_blk()]
        o = t if self.ir.ops[t]["nregs"] and rng.random() < 0.5 else self.any_op()
        return [k, o, rng.randint(0, max(0, self.ir.ops[o]["nregs"] - 1))]

    def mk_new(self, t, nres, regions=()):
        rng = self.rng
        regs = list(regions)
        if not regs and rng.random() < 0.2:
            b = self.fresh_blk()
            nargs = rng.randint(0, 2)
            body = [leaf(self.fresh_op(), self.vals(rng.randint(0, 2), t), [rng.randint(1, 3)] * rng.randint(0, 1),
                         rng.random() < 0.3) for _ in range(rng.randint(0, 2))]
            regs = [["fresh", [{"id": b, "argtys": [rng.randint(1, 3) for _ in range(nargs)], "body": body}]]]
        pure = not regs and rng.random() < 0.25
        n = new_op(self.fresh_op(), self.vals(rng.randint(0, 2), t), [rng.randint(1, 3) for _ in range(nres)], regs, pure)
        if rng.random() < 0.2:
            n["named"] = True
        return n

    def hint(self, steps):
        """sometimes run the calls under an active rewriter.name_hint"""
        return ([["sethint", 1]] + steps) if self.rng.random() < 0.35 else steps

    def steps(self, t):
        rng, ir = self.rng, self.ir
        info = ir.ops[t]
        own_blks = [b for b, i in ir.blks.items() if i["op"] == t]
        kinds = ["erase", "replace_new", "replace_vals", "rauw_erase", "insert", "notify", "retype", "args",
                 "inline_own", "move", "inline_region", "rauwif", "chaos", "erase_other"]
        w = [5, 6, 4, 4, 6, 3, 3, 3, 9 if own_blks else 0, 5 if info["nregs"] else 0, 4 if info["nregs"] else 0, 3, 5, 2]
        if self.allow_kf:
            kinds += ["createblock", "inline_args"]
            w += [1, 2 if own_blks else 0]
        k = rng.choices(kinds, w)[0]
        R = lambda i: ["res", t, i]  # noqa: E731
        if k == "erase":
            return [["erase", t]]
        if k == "erase_other":
            return [["erase", self.any_op()]]
        if k == "replace_new":
            n = rng.choice([1, 1, 2])
            news = [self.mk_new(t, rng.randint(0, 2)) for _ in range(n - 1)] + [self.mk_new(t, info["nres"])]
            if rng.random() < 0.3 and info["nres"]:
                news[-1]["operands"].append(R(0))
            return self.hint([["replace", t, news, None]])
        if k == "replace_vals":
            res = [None if rng.random() < 0.1 else self.any_val(t) for _ in range(info["nres"])]
            news = [self.mk_new(t, rng.randint(0, 1))] if rng.random() < 0.3 else []
            return self.hint([["replace", t, news, res]])
        if k == "rauw_erase":
            st = [["rauw", R(i), self.any_val(t)] for i in range(info["nres"])]
            return st + ([["erase", t]] if rng.random() < 0.7 else [])
        if k == "insert":
            news = [self.mk_new(t, rng.randint(0, 2)) for _ in range(rng.choice([1, 1, 2]))]
            if info["nres"] and rng.random() < 0.5:
                news[0]["operands"].append(R(0))
            return self.hint([["insert", news, self.ip(t)]])
        if k == "notify":
            return [["notify", t if rng.random() < 0.5 else self.any_op()]]
        if k == "retype":
            return [["retype", self.any_val() if rng.random() < 0.6 or not info["nres"] else R(0), rng.randint(4, 6)]]
        if k == "args":
            b = rng.choice(own_blks) if own_blks and rng.random() < 0.7 else self.any_blk()
            n = ir.blks[b]["nargs"]
            if rng.random() < 0.5:
                return [["insarg", b, rng.randint(0, n + 1), rng.randint(1, 3)]]
            return [["erasearg", ["arg", b, rng.randint(0, max(0, n))]]]
        if k in ("inline_own", "inline_args"):
            b = rng.choice(own_blks)
            n = ir.blks[b]["nargs"]
            args = self.vals(n, t) if (k == "inline_args" or rng.random() < 0.5) else []
            ip = ["before", t] if rng.random() < 0.7 else self.ip(t, allow_default=False)
            return [["inlineblock", b, ip, args]] + ([["erase", t]] if rng.random() < 0.6 else [])
        if k == "move":
            r = rng.randint(0, info["nregs"] - 1)
            regs = [["limbo", 0]] + ([["fresh", []]] if rng.random() < 0.3 else [])
            return [["moveregion", t, r], ["replace", t, [self.mk_new(t, info["nres"], regs)], None]]
        if k == "inline_region":
            r = rng.randint(0, info["nregs"] - 1)
            bp = ["after", info["block"]] if rng.random() < 0.5 else self.bp(t)
            return [["inlineregion", t, r, bp]] + ([["erase", t]] if rng.random() < 0.4 else [])
        if k == "rauwif":
            v = self.any_val(t)
            p = ["users", [self.any_op() for _ in range(rng.randint(1, 3))]] if rng.random() < 0.6 else ["index", rng.randint(0, 2)]
            return [["rauwif", v, self.any_val(t), p]]
        if k == "createblock":
            return [["createblock", self.fresh_blk(), self.bp(t), [rng.randint(1, 3) for _ in range(rng.randint(0, 2))]]]
        # chaos: anything anywhere
        o = self.any_op()
        return [rng.choice([
            ["erase", o], ["notify", o], ["rauw", self.any_val(), self.any_val()], ["rauw", self.any_val(), None],
            ["retype", self.any_val(), 9], ["insarg", self.any_blk(), rng.randint(0, 2), 2],
            ["erasearg", self.any_val()], ["inlineregion", o, 0, self.bp(o)],
            ["insert", [self.mk_new(o, 1)], self.ip(o)], ["replace", o, [], [self.any_val()]],
        ])]

    def guard(self):
        rng = self.rng
        k = rng.choice(["unused", "stagege", "nblocks"])
        if k == "unused":
            g = ["unused", self.any_val()]
        elif k == "stagege":
            g = ["stagege", self.any_op(), 1]
        else:
            o = self.any_op()
            g = ["nblocks", o, 0, rng.randint(0, 2)]
        return ["not", g] if rng.random() < 0.25 else g

    def table(self):
        rng = self.rng
        tags = list(self.ir.ops)
        rng.shuffle(tags)
        out = []
        for t in tags[:max(1, int(len(tags) * rng.uniform(0.3, 0.9)))]:
            for stage in range(rng.choices([1, 2, 3], [6, 3, 1])[0]):
                st = []
                for _ in range(rng.choices([1, 2, 3], [6, 3, 1])[0]):
                    st += self.steps(t)
                if any(s[0] == "inlineblock" for s in st):
                    for s in st:  # the model's default insertion point is not tracked across inline_block
                        if s[0] == "insert" and s[2] == ["default"]:
                            s[2] = ["before", t]
                out.append({"tag": t, "stage": stage, "guards": [self.guard()] if rng.random() < 0.25 else [], "steps": st})
        return out


CONFIGS = [[a, b, c] for a in (False, True) for b in (False, True) for c in (False, True)]


def gen_walk_bases(rng, n, allow_kf=True):
    bases = []
    for _ in range(n):
        ir = IRGen(rng, rng.randint(4, 12))
        sg = ScriptGen(rng, ir, allow_kf)
        tb = sg.table()
        greedy = rng.random() < 0.35
        if greedy:
            k = rng.randint(1, 3)
            pats = [[] for _ in range(k)]
            for e in tb:
                pats[rng.randrange(k)].append(e)
                if rng.random() < 0.2:   # the same (tag, stage) handled by two patterns: first flag wins
                    e2 = dict(e)
                    e2["steps"] = sg.steps(e["tag"])
                    pats[rng.randrange(k)].append(e2)
        else:
            pats = [tb]
        bases.append({"kind": "walk", "ir": ir.cmds, "pats": pats, "greedy": greedy,
                      "dce": greedy and rng.random() < 0.6})
    return bases


def gen_chain_bases(rng, n):
    """dependency chains against the visiting order: op perm[i] acts only once perm[i+1] has acted, so the
    listener callbacks never re-enqueue the op that became rewritable and one outer pass is needed per link"""
    bases = []
    for _ in range(n):
        k = rng.randint(3, 7)
        cmds = [["op", i, False, 0, 0, [["res", i - 1, 0]] if i > 1 and rng.random() < 0.5 else [], [1], 0]
                for i in range(1, k + 1)]
        perm = list(range(1, k + 1))
        if rng.random() < 0.5:
            perm.reverse()
        if rng.random() < 0.3:
            rng.shuffle(perm)
        tb = []
        for idx, t in enumerate(perm):
            guards = [] if idx == k - 1 else [["stagege", perm[idx + 1], 1]]
            step = rng.choice([["notify", t], ["insert", [new_op(100 + t, [], [1])], ["after", t]],
                               ["retype", ["res", t, 0], 5], ["insert", [new_op(100 + t, [["res", t, 0]])], ["end", 0]]])
            tb.append({"tag": t, "stage": 0, "guards": guards, "steps": [step]})
        bases.append({"kind": "walk", "ir": cmds, "pats": [tb], "greedy": False, "dce": False})
    return bases


def gen_tombstone_bases(rng, n):
    """within one worklist drain: a match erases a still-pending op (a tombstone in the real Worklist),
    then inserts several ops (pushed behind the tombstone); the inserted op that is visited first erases
    another inserted, still pending op"""
    bases = []
    for _ in range(n):
        k = rng.randint(4, 8)
        cmds = [["op", i, False, 0, 0, [], [1] if rng.random() < 0.5 else [], 0] for i in range(1, k + 1)]
        first = rng.randint(1, k)
        victims = rng.sample([i for i in range(1, k + 1) if i != first], rng.randint(1, 2))
        m = rng.randint(2, 4)
        new_ids = list(range(101, 101 + m))
        news = [new_op(i, [], [1] if rng.random() < 0.5 else []) for i in new_ids]
        ip = rng.choice([["after", first], ["before", first], ["end", 0], ["default"]])
        tb = [{"tag": first, "stage": 0, "guards": [],
               "steps": [["erase", v] for v in victims] + [["insert", news, ip]]}]
        for killer in rng.sample(new_ids, rng.randint(1, 2)):
            others = [i for i in new_ids if i != killer]
            tb.append({"tag": killer, "stage": 0, "guards": [],
                       "steps": [["erase", rng.choice(others)]] + ([["erase", rng.choice(others)]] if rng.random() < 0.3 else [])})
        if rng.random() < 0.5:
            t = rng.choice([i for i in range(1, k + 1) if i != first])
            tb.append({"tag": t, "stage": 0, "guards": [], "steps": [["insert", [new_op(120, [], [])], ["after", t]]]})
        bases.append({"kind": "walk", "ir": cmds, "pats": [tb], "greedy": False, "dce": False})
    return bases


def expand(rng, base, cfgs):
    out = []
    for cfg in cfgs:
        for pol in ([], [rng.randrange(64) for _ in range(rng.randint(1, 12))]):
            c = dict(base)
            c["cfg"] = cfg
            c["policy"] = pol
            out.append(c)
    return out


def gen_direct_random(rng, n):
    out = []
    for _ in range(n):
        ir = IRGen(rng, rng.randint(3, 9))
        sg = ScriptGen(rng, ir)
        t = sg.any_op()
        st = []
        for _ in range(rng.choice([1, 1, 2])):
            st += sg.steps(sg.any_op() if rng.random() < 0.3 else t)
        out.append({"kind": "direct", "ir": ir.cmds, "cur": t, "steps": st})
    return out


def run(ctx: Ctx):
    thorough = ctx.tier == "thorough"
    rng = ctx.rng
    replay_findings(ctx, "action-table", impl, holds)
    replay_findings(ctx, "scripted-walks", impl, holds)
    direct = direct_table_cases() + gen_direct_random(rng, 1500 if thorough else 100)
    differential(ctx, DiffSpec("action-table", REQ, direct, impl, coq_expr, holds, known, nontrivial, shard=120))
    walks = []
    for base in gen_walk_bases(rng, 260 if thorough else 16):
        walks += expand(rng, base, CONFIGS)
    for base in gen_walk_bases(rng, 1200 if thorough else 40):
        walks += expand(rng, base, [rng.choice(CONFIGS)])[rng.randrange(2):][:1]
    for base in gen_chain_bases(rng, 100 if thorough else 8):
        walks += expand(rng, base, [rng.choice(CONFIGS[1::2]), rng.choice(CONFIGS)])
    for base in gen_tombstone_bases(rng, 150 if thorough else 14):
        walks += expand(rng, base, [rng.choice(CONFIGS[1::2])])
    differential(ctx, DiffSpec("scripted-walks", REQ, walks, impl, coq_expr, holds, known, nontrivial, shard=60 if thorough else 30))
    hist = {}
    for c in direct + walks:
        for tb in (c.get("pats") or [[{"steps": c.get("steps", [])}]]):
            for e in tb:
                for s in e["steps"]:
                    hist[s[0]] = hist.get(s[0], 0) + 1
    ctx.coverage["template_histogram"] = hist
    ctx.coverage["walk_cases_per_config"] = {str(cfg): sum(1 for c in walks if c["cfg"] == cfg) for cfg in CONFIGS}
    ctx.coverage["greedy_cases"] = sum(1 for c in walks if c["greedy"])
    ctx.coverage["choice_policy_cases"] = sum(1 for c in walks if c["policy"])
    ctx.coverage["rule"] = __doc__.split("\n\n", 1)[1][:1400]
