"""harness/irdump.py -- dump real xDSL IR objects through their RAW PRIVATE FIELDS into the heap
of the Coq model coq/C01/Model.v (same tables, same record fields), DESIGN.md section 4.2.

Shared by C01 (and later C02/C03/C11/C13).

Object identity.  The model allocates ids from one counter per class (op, block, region, value,
use) in the order in which the Python code creates the objects.  `install()` wraps the
constructors of Operation, Block, Region, OpResult, BlockArgument, ErasedSSAValue and Use
(instrumentation from the harness side, nothing in /repo is edited): while a `Registry` is
active every object created gets the next id of its class *at the moment its __init__ starts*,
so a divergence in allocation order between model and code is visible in the dumps.

Ghost marks.  The model marks the sub-tree of a successfully completed erase as erased
(Model.v `kill`).  The same marks are kept here by wrapping exactly the methods that carry the
marks in the model: Operation.erase, Block.erase, Region.erase (sub-tree walked at method entry,
marked when the method returns normally), Block.erase_arg and
Rewriter.replace_value_with_new_type (the removed value).

Record layouts (None = 0), identical to coq/C01/Enc.v:
  op     [id, [operands], [operand_uses], [results], [successors], [successor_uses], [regions],
          parent, next, prev, erased]
  block  [id, [args], first_op, last_op, next, prev, parent, first_use, erased]
  region [id, first_block, last_block, parent, erased]
  value  [id, kind, owner, index, first_use, dead]    kind 0 OpResult / 1 BlockArgument / 2 Erased
  use    [id, op, index, prev, next]
An object that is not in the registry dumps as -1 (never equal to a model id).
"""
from __future__ import annotations

KINDS = ("op", "block", "region", "value", "use")

_CURRENT = None      # the active Registry (or None)
_INSTALLED = False


class Registry:
    def __init__(self):
        self.objs = {k: [] for k in KINDS}        # kind -> objects in allocation order (id = index + 1)
        self.ids = {}                             # id(obj) -> (kind, n)
        self.dead = set()                         # id(obj) of erased ops/blocks/regions, dead values

    # -- registration ---------------------------------------------------------
    def register(self, kind, obj):
        if id(obj) in self.ids:
            return
        self.objs[kind].append(obj)
        self.ids[id(obj)] = (kind, len(self.objs[kind]))

    def id_of(self, obj, kind=None):
        if obj is None:
            return 0
        e = self.ids.get(id(obj))
        if e is None or (kind is not None and e[0] != kind):
            return -1
        return e[1]

    def get(self, kind, n):
        return self.objs[kind][n - 1]

    def is_dead(self, obj):
        return id(obj) in self.dead

    def live(self, kind):
        return [o for o in self.objs[kind] if id(o) not in self.dead]

    def __enter__(self):
        global _CURRENT
        install()
        self._prev = _CURRENT
        _CURRENT = self
        return self

    def __exit__(self, *a):
        global _CURRENT
        _CURRENT = self._prev


# ---------------------------------------------------------------------------- instrumentation

def _wrap_init(cls, kind):
    orig = cls.__init__

    def init(self, *a, **k):
        if _CURRENT is not None:
            _CURRENT.register(kind, self)
        return orig(self, *a, **k)

    init.__wrapped__ = orig
    cls.__init__ = init


def collect_op(op, out):
    """mirror of Model.v collect_op: op, its results, and everything nested (walked through raw fields)"""
    out.append(op)
    out.extend(op.results)
    for r in op.regions:
        collect_region(r, out)


def collect_region(region, out):
    out.append(region)
    b = region._first_block
    n = 0
    while b is not None and n < 100000:
        collect_block(b, out)
        b = b._next_block
        n += 1


def collect_block(block, out):
    out.append(block)
    out.extend(block._args)
    o = block._first_op
    n = 0
    while o is not None and n < 100000:
        collect_op(o, out)
        o = o._next_op
        n += 1


def _wrap_erase(cls, collector):
    orig = cls.erase

    def erase(self, *a, **k):
        reg = _CURRENT
        dead = []
        if reg is not None:
            collector(self, dead)
        r = orig(self, *a, **k)
        if reg is not None:
            reg.dead.update(id(x) for x in dead)
        return r

    erase.__wrapped__ = orig
    cls.erase = erase


def install():
    global _INSTALLED
    if _INSTALLED:
        return
    _INSTALLED = True
    from xdsl.ir import core
    from xdsl import rewriter as rw
    for cls, kind in ((core.Use, "use"), (core.OpResult, "value"), (core.BlockArgument, "value"),
                      (core.ErasedSSAValue, "value"), (core.Block, "block"), (core.Region, "region"),
                      (core.Operation, "op")):
        _wrap_init(cls, kind)
    _wrap_erase(core.Operation, collect_op)
    _wrap_erase(core.Block, collect_block)
    _wrap_erase(core.Region, collect_region)

    orig_erase_arg = core.Block.erase_arg

    def erase_arg(self, arg, *a, **k):
        r = orig_erase_arg(self, arg, *a, **k)
        if _CURRENT is not None:
            _CURRENT.dead.add(id(arg))
        return r

    core.Block.erase_arg = erase_arg

    orig_rvnt = rw.Rewriter.replace_value_with_new_type

    def replace_value_with_new_type(val, new_type):
        r = orig_rvnt(val, new_type)
        if _CURRENT is not None:
            _CURRENT.dead.add(id(val))
        return r

    rw.Rewriter.replace_value_with_new_type = staticmethod(replace_value_with_new_type)


# ---------------------------------------------------------------------------- dumps

def dump_op(reg, o):
    i = reg.id_of
    return [i(o, "op"), [i(v, "value") for v in o._operands], [i(u, "use") for u in o._operand_uses],
            [i(v, "value") for v in o.results], [i(b, "block") for b in o._successors],
            [i(u, "use") for u in o._successor_uses], [i(r, "region") for r in o.regions],
            i(o.parent, "block"), i(o._next_op, "op"), i(o._prev_op, "op"), int(reg.is_dead(o))]


def dump_block(reg, b):
    i = reg.id_of
    return [i(b, "block"), [i(v, "value") for v in b._args], i(b._first_op, "op"), i(b._last_op, "op"),
            i(b._next_block, "block"), i(b._prev_block, "block"), i(b.parent, "region"),
            i(b.first_use, "use"), int(reg.is_dead(b))]


def dump_region(reg, r):
    i = reg.id_of
    return [i(r, "region"), i(r._first_block, "block"), i(r._last_block, "block"), i(r.parent, "op"),
            int(reg.is_dead(r))]


def dump_value(reg, v):
    from xdsl.ir import core
    i = reg.id_of
    if isinstance(v, core.OpResult):
        k, owner, idx = 0, i(v.op, "op"), v.index
    elif isinstance(v, core.BlockArgument):
        k, owner, idx = 1, i(v.block, "block"), v.index
    elif isinstance(v, core.ErasedSSAValue):
        k, owner, idx = 2, i(v.old_value, "value"), 0
    else:
        k, owner, idx = 9, -1, 0
    return [i(v, "value"), k, owner, idx, i(v.first_use, "use"), int(reg.is_dead(v))]


def dump_use(reg, u):
    i = reg.id_of
    return [i(u, "use"), i(u._operation, "op"), u._index, i(u._prev_use, "use"), i(u._next_use, "use")]


DUMPERS = {"op": dump_op, "block": dump_block, "region": dump_region, "value": dump_value, "use": dump_use}


def dump(reg) -> dict:
    """whole heap: kind -> list of records (index = id - 1)"""
    return {k: [DUMPERS[k](reg, o) for o in reg.objs[k]] for k in KINDS}


def delta(prev: dict | None, cur: dict) -> list:
    """records of `cur` that are new or differ from `prev`, per kind, in id order"""
    out = []
    for k in KINDS:
        old = prev[k] if prev else []
        out.append([r for n, r in enumerate(cur[k]) if n >= len(old) or old[n] != r])
    return out
