"""Shared machinery for every property check (see DESIGN.md sections 2, 4, 5, 12).

A property module (harness/props/cXX.py) provides

  META           dict: id, title, level_text, level_note, technique, design_ref
  COQ_TARGETS    list of .vo targets (relative to coq/) that must build
  PROPS_FILE     "Props/CXX.v" (only theorems closed by `exact`, + Print Assumptions)
  generate(ctx)  optional translator step writing coq/Gen/*.v from /repo's working tree
  run(ctx)       the correspondence check + oracle search + known-finding replay

and normally implements run() through `differential(ctx, spec)` below.
"""
from __future__ import annotations

import fcntl
import hashlib
import json
import os
import random
import re
import shutil
import subprocess
import sys
import time
from dataclasses import dataclass, field
from pathlib import Path
from typing import Any, Callable, Iterable

VERIF = Path("/verif")
COQ = VERIF / "coq"
BUILD = VERIF / "build"
REPO = Path("/repo")
EVID = VERIF / "evidence"
REPLAY = VERIF / "replay"
NCPU = int(os.environ.get("VERIF_NCPU", "16"))

BASE_TRUST = [
    "Coq 8.16.1 kernel (coqc, full .vo build, no -vos); vm_compute used for Examples, finite sweeps and case evaluation; no native_compute",
    "correspondence harness (python generators, canonicalisation, S-expression printer Base/Show.v) and CPython 3.12 semantics of the parts modelled by hand",
]


class ModelUnavailable(Exception):
    pass


class Untranslatable(Exception):
    pass


# ----------------------------------------------------------------------------
# S-expressions


def parse_sx(s: str):
    toks = re.findall(r"\(|\)|-?\d+", s)
    pos = 0

    def go():
        nonlocal pos
        t = toks[pos]
        pos += 1
        if t == "(":
            out = []
            while toks[pos] != ")":
                out.append(go())
            pos += 1
            return out
        return int(t)

    r = go()
    if pos != len(toks):
        raise ValueError("trailing tokens in sx: " + s[:200])
    return r


def coq_Z(n: int) -> str:
    return f"({n})%Z" if n < 0 else f"{n}%Z"


def coq_list(items: Iterable[str]) -> str:
    return "[" + "; ".join(items) + "]"


def coq_Zs(ns: Iterable[int]) -> str:
    return coq_list(coq_Z(n) for n in ns)


def coq_nat(n: int) -> str:
    assert 0 <= n < 5000, n
    return f"{n}%nat"


def coq_nats(ns: Iterable[int]) -> str:
    return coq_list(coq_nat(n) for n in ns)


def coq_bool(b: bool) -> str:
    return "true" if b else "false"


def coq_pos(n: int) -> str:
    assert n >= 1
    return f"{n}%positive"


def coq_string(s: str) -> str:
    """ASCII-only Coq string literal."""
    assert all(32 <= ord(c) < 127 for c in s), s
    return '"' + s.replace('"', '""') + '"%string'


def to_jsonable(x):
    if isinstance(x, (list, tuple)):
        return [to_jsonable(y) for y in x]
    if isinstance(x, (set, frozenset)):
        return sorted(to_jsonable(y) for y in x)
    if isinstance(x, dict):
        return {str(k): to_jsonable(v) for k, v in x.items()}
    if isinstance(x, (int, str, float, bool)) or x is None:
        return x
    return repr(x)


# exception enum shared by all models (DESIGN 4.2)
EXC = {
    "ParseError": 1,
    "VerifyException": 2,
    "ValueError": 3,
    "KeyError": 4,
    "IndexError": 5,
    "AssertionError": 6,
    "TypeError": 7,
    "NotImplementedError": 8,
    "PassFailedException": 9,
    "Other": 10,
    "InterpretationError": 11,
    "PyRDLError": 12,
    "DiagnosticException": 13,
}


def exc_code(e: BaseException) -> int:
    for cls in type(e).__mro__:
        if cls.__name__ in EXC:
            return EXC[cls.__name__]
    return EXC["Other"]


# ----------------------------------------------------------------------------


@dataclass
class BuildResult:
    ok: bool
    log: str
    failed_file: str | None = None
    failed_msg: str | None = None


@dataclass
class Ctx:
    prop_id: str
    tier: str
    seed: int
    t0: float = field(default_factory=time.time)
    coverage: dict = field(default_factory=dict)
    assumptions: list = field(default_factory=list)
    violations: list = field(default_factory=list)
    broken: list = field(default_factory=list)  # proof / correspondence items that no longer check
    known_lines: list = field(default_factory=list)
    known_findings: list = field(default_factory=list)
    fixed_findings: list = field(default_factory=list)
    samples: list = field(default_factory=list)
    checker_cmds: list = field(default_factory=list)
    trusted: list = field(default_factory=list)
    theorems: dict = field(default_factory=dict)  # name -> assumptions text
    obligations: int = 0
    discharged: int = 0
    evaluations: int = 0
    nontrivial: set = field(default_factory=set)
    proof_ok: bool = False
    _tmp: Path | None = None

    def __post_init__(self):
        self.rng = random.Random(self.seed)
        files = [VERIF / "known_findings.json"] + sorted((VERIF / "known_findings.d").glob("*.json"))
        for kf in files:
            if not kf.exists():
                continue
            for e in json.loads(kf.read_text()):
                if e.get("property") != self.prop_id:
                    continue
                (self.fixed_findings if e.get("fixed") else self.known_findings).append(e)

    def active_known_ids(self) -> set:
        """ids of listed (unfixed) known findings: only these may suppress a failing case; a `fixed`
        entry suppresses nothing, and an id a module invents without a committed entry neither."""
        return {e.get("id") for e in self.known_findings if e.get("id")}

    # -- scratch -------------------------------------------------------------
    def tmpdir(self) -> Path:
        if self._tmp is None:
            self._tmp = BUILD / f"tmp-{self.prop_id}-{os.getpid()}"
            self._tmp.mkdir(parents=True, exist_ok=True)
        return self._tmp

    def cleanup(self):
        if self._tmp is not None:
            shutil.rmtree(self._tmp, ignore_errors=True)

    # -- Coq -----------------------------------------------------------------
    def coq_build(self, targets: list[str], props_file: str | None) -> BuildResult:
        res = coq_make(targets)
        self.checker_cmds.append(res_cmd(targets))
        if not res.ok:
            return res
        if props_file:
            src = (COQ / props_file).read_text()
            names = re.findall(r"^\s*(?:Theorem|Lemma|Example|Corollary)\s+(\w+)", src, re.M)
            self.obligations += len(names)
            cmd = ["timeout", "600", "coqc", "-Q", ".", "XV", props_file]
            self.checker_cmds.append("cd /verif/coq && " + " ".join(cmd))
            with build_lock():
                p = subprocess.run(cmd, cwd=COQ, capture_output=True, text=True)
            if p.returncode != 0:
                return BuildResult(False, p.stdout + p.stderr, props_file, p.stderr[-2000:])
            self.discharged += len(names)
            printed = re.findall(r"^\s*Print Assumptions\s+(\w+)", src, re.M)
            blocks = re.split(r"(?m)^(?=Closed under the global context|Axioms:)", p.stdout)
            blocks = [b.strip() for b in blocks if b.strip()]
            for n, b in zip(printed, blocks):
                self.theorems[n] = re.sub(r"\s+", " ", b)[:600]
            missing = [n for n in names if n not in printed]
            if missing:
                self.coverage.setdefault("theorems_without_print_assumptions", missing)
        return res

    def coq_eval(self, requires: list[str], exprs: list[str], shard: int = 300,
                 prelude: str = "", timeout_s: int = 900) -> list:
        """Evaluate Coq expressions of type sx with vm_compute inside coqc; returns parsed values."""
        if not exprs:
            return []
        d = self.tmpdir()
        tag = hashlib.sha1(("".join(exprs[:3]) + str(len(exprs)) + str(time.time())).encode()).hexdigest()[:8]
        files = []
        for k in range(0, len(exprs), shard):
            name = f"cases_{tag}_{k // shard}"
            body = [
                "From Coq Require Import ZArith List String Bool.",
                "From XV Require Import Base.Show.",
            ]
            body += [f"From XV Require Import {r}." for r in requires]
            body += ["Import ListNotations.", "Local Open Scope Z_scope.", prelude,
                     "Definition cases : list sx := ["]
            body.append(";\n".join(exprs[k:k + shard]))
            body.append("].")
            body.append("Eval vm_compute in lines cases.")
            (d / f"{name}.v").write_text("\n".join(body) + "\n")
            files.append(name)
        procs = []
        outs: dict[str, str] = {}
        pending = list(files)
        running: list[tuple[str, subprocess.Popen]] = []
        env = dict(os.environ)
        while pending or running:
            while pending and len(running) < NCPU:
                n = pending.pop(0)
                pr = subprocess.Popen(
                    ["bash", "-c", f"ulimit -s unlimited; exec timeout {timeout_s} coqc -Q {COQ} XV {n}.v"],
                    cwd=d, stdout=subprocess.PIPE, stderr=subprocess.PIPE, text=True, env=env)
                running.append((n, pr))
            n, pr = running.pop(0)
            so, se = pr.communicate()
            if pr.returncode != 0:
                for _, q in running:
                    q.kill()
                raise ModelUnavailable(f"coqc failed on {n}.v: {se[-1500:]}")
            outs[n] = so
        results = []
        for n in files:
            so = outs[n]
            m = re.search(r'=\s*"(.*)"\s*:\s*string\s*$', so, re.S)
            if not m:
                raise ModelUnavailable(f"unparseable coqc output for {n}: {so[:500]}")
            txt = m.group(1).replace('""', '"')
            results += [parse_sx(line) for line in txt.split("\n")]
        if len(results) != len(exprs):
            raise ModelUnavailable(f"expected {len(exprs)} results, got {len(results)}")
        self.checker_cmds.append(f"coqc -Q /verif/coq XV cases_*.v  ({len(files)} shard(s), {len(exprs)} cases, Eval vm_compute)")
        return results

    # -- reporting -----------------------------------------------------------
    def sample(self, s, limit=5):
        if len(self.samples) < limit:
            self.samples.append(to_jsonable(s))

    def violation(self, witness: dict, nofail: bool = False):
        REPLAY.mkdir(exist_ok=True)
        blob = json.dumps(to_jsonable(witness), sort_keys=True, indent=1)
        h = hashlib.sha1(blob.encode()).hexdigest()[:10]
        path = REPLAY / f"{self.prop_id}-{h}.json"
        doc = {"property": self.prop_id, "seed": self.seed, "tier": self.tier,
               "no_failing_input_found": nofail, "witness": to_jsonable(witness)}
        path.write_text(json.dumps(doc, indent=1, sort_keys=True))
        self.violations.append(str(path))
        line = f"VIOLATION property={self.prop_id} replay={path}"
        if nofail:
            line += " no-failing-input-found"
        print(line, flush=True)

    def known(self, kf_id: str, what: str):
        line = f"KNOWN-FINDING: property={self.prop_id} {kf_id} {what}"
        if line not in self.known_lines:
            self.known_lines.append(line)
            print(line, flush=True)

    def write_evidence(self, level: str = "proof"):
        EVID.mkdir(exist_ok=True)
        cov = dict(self.coverage)
        cov.update({
            "obligations": self.obligations,
            "discharged": self.discharged,
            "checker_cmd": " ; ".join(dict.fromkeys(self.checker_cmds)) or "none",
            "trusted_base": BASE_TRUST + self.trusted + [
                f"Print Assumptions {n}: {a}" for n, a in self.theorems.items()],
            "evaluations": self.evaluations,
            "distinct_nontrivial": len(self.nontrivial),
            "samples": self.samples or ["<no case evaluated>"],
            "known_findings_replayed": self.known_lines,
            "broken_obligations": to_jsonable(self.broken),
        })
        cov.setdefault("rule", "see module docstring")
        # keys the evidence schema types: a module's free-form extra of the same name must not shadow them
        typed = {"evaluations": int, "distinct_nontrivial": int, "states": int, "transitions": int,
                 "traces_validated_against_impl": int, "obligations": int, "discharged": int, "programs": int,
                 "disagreements_checked": int, "rule": str, "explanation": str, "checker_cmd": str,
                 "exhaustive": bool, "samples": list, "trusted_base": list}
        for k, t in typed.items():
            if k in cov and (not isinstance(cov[k], t) or (t is int and isinstance(cov[k], bool))):
                cov[k + "_detail"] = cov.pop(k)
        cov["trusted_base"] = [str(x) for x in cov.get("trusted_base", [])]
        doc = {
            "property_id": self.prop_id,
            "tier": self.tier,
            "seed": self.seed,
            "level": level,
            "coverage": cov,
            "assumptions": self.assumptions,
            "wall_s": round(time.time() - self.t0, 2),
            "violations": len(self.violations),
        }
        (EVID / f"{self.prop_id}.json").write_text(json.dumps(doc, indent=1, sort_keys=True) + "\n")


# ----------------------------------------------------------------------------
# build helpers


class build_lock:
    def __enter__(self):
        BUILD.mkdir(exist_ok=True)
        self.f = open(BUILD / ".lock", "w")
        fcntl.flock(self.f, fcntl.LOCK_EX)
        return self

    def __exit__(self, *a):
        fcntl.flock(self.f, fcntl.LOCK_UN)
        self.f.close()


def res_cmd(targets):
    return "cd /verif/coq && timeout 3000 make -j16 " + " ".join(targets)


def write_if_changed(path: Path, text: str) -> bool:
    if path.exists() and path.read_text() == text:
        return False
    path.parent.mkdir(parents=True, exist_ok=True)
    path.write_text(text)
    return True


def ensure_makefile():
    """(Re)generate _CoqProject and Makefile when the set of .v files changed."""
    vs = sorted(str(p.relative_to(COQ)) for p in COQ.rglob("*.v"))
    proj = "-Q . XV\n-arg -w -arg -notation-overridden,-deprecated-hint-without-locality,-deprecated-instance-without-locality\n" + "\n".join(vs) + "\n"
    changed = write_if_changed(COQ / "_CoqProject", proj)
    if changed or not (COQ / "Makefile").exists():
        subprocess.run(["coq_makefile", "-f", "_CoqProject", "-o", "Makefile"], cwd=COQ, check=True,
                       capture_output=True)


def coq_make(targets: list[str], jobs: int = NCPU) -> BuildResult:
    with build_lock():
        ensure_makefile()
        p = subprocess.run(["timeout", "3000", "make", f"-j{jobs}", *targets], cwd=COQ,
                           capture_output=True, text=True)
    log = p.stdout + p.stderr
    if p.returncode == 0:
        return BuildResult(True, log)
    m = re.search(r'File "\./([^"]+)", line (\d+), characters [\d-]+:\s*\n(?:Error:)?(.*?)(?:\n\n|\Z)', log, re.S)
    ff = m.group(1) if m else None
    msg = (m.group(0) if m else log[-2000:])
    return BuildResult(False, log, ff, msg[-2000:])



# ----------------------------------------------------------------------------
# parallel evaluation of implementation + oracle (fork pool; globals inherited)

_WORK = None


def _work_chunk(chunk):
    impl, holds, known, nontrivial = _WORK
    out = []
    for c in chunk:
        r = to_jsonable(impl(c))
        ok, why, kid = True, "", None
        if holds:
            ok, why = holds(c, r)
            if not ok and known:
                kid = known(c, r)
        nt = repr(nontrivial(c, r)) if nontrivial else repr(c)
        out.append((r, ok, why, kid, nt if nt != "None" else None))
    return out


def eval_cases(cases: list, impl, holds=None, known=None, nontrivial=None, parallel=None):
    """-> list of (impl_result, oracle_ok, why, known_id, nontrivial_key)"""
    global _WORK
    _WORK = (impl, holds, known, nontrivial)
    if parallel is None:
        parallel = len(cases) >= 30000
    if not parallel:
        return _work_chunk(cases)
    import multiprocessing as mp
    n = max(1, min(NCPU, len(cases) // 500))
    size = (len(cases) + n * 4 - 1) // (n * 4)
    chunks = [cases[i:i + size] for i in range(0, len(cases), size)]
    with mp.get_context("fork").Pool(n) as pool:
        res = pool.map(_work_chunk, chunks)
    return [x for ch in res for x in ch]

# ----------------------------------------------------------------------------
# generic differential driver


@dataclass
class DiffSpec:
    """One correspondence family: the same cases run on implementation and model."""
    name: str
    requires: list[str]                       # Coq modules (under XV.) the case file imports
    cases: list                               # JSON-able case descriptions
    impl: Callable[[Any], Any]                # case -> canonical nested-int result (real code)
    coq_expr: Callable[[Any], str]            # case -> Coq term : sx  (model)
    holds: Callable[[Any, Any], tuple[bool, str]] | None = None  # statement-level oracle on impl result
    known: Callable[[Any, Any], str | None] | None = None        # failing case -> known-finding id
    nontrivial: Callable[[Any, Any], Any] | None = None          # case,result -> hashable key or None
    prelude: str = ""
    shard: int = 300
    exhaustive: bool = False


def _report(ctx, name, n, fails, diverge, known_hits, model_err, exhaustive, t):
    fam = {"cases": n, "oracle_failures": len(fails), "known_finding_hits": known_hits,
           "divergences": len(diverge), "model_error": model_err, "exhaustive": exhaustive,
           "wall_s": round(time.time() - t, 2)}
    ctx.coverage.setdefault("families", {})[name] = fam
    if fails:
        fails.sort(key=lambda x: len(json.dumps(to_jsonable(x[0]))))
        c, r, why = fails[0]
        ctx.violation({"family": name, "case": c, "impl_result": r, "oracle": why,
                       "other_failing_cases": len(fails) - 1})
    if diverge:
        diverge.sort(key=lambda x: len(json.dumps(to_jsonable(x[0]))))
        c, r, m = diverge[0]
        ctx.broken.append({"correspondence": name, "first_diverging_case": c, "impl": r, "model": m,
                           "count": len(diverge)})
    if model_err:
        ctx.broken.append({"correspondence": name, "model_unavailable": model_err[-800:]})
    return fam


def differential(ctx: Ctx, spec: DiffSpec) -> dict:
    """Run one family; record evidence; report violations per DESIGN section 5."""
    t = time.time()
    ev = eval_cases(spec.cases, spec.impl, spec.holds, spec.known, spec.nontrivial)
    ctx.evaluations += len(spec.cases)
    fails, diverge, known_hits = [], [], {}
    active = ctx.active_known_ids()
    for c, (r, ok, why, kid, nt) in zip(spec.cases, ev):
        if nt is not None:
            ctx.nontrivial.add((spec.name, nt))
        if not ok:
            if kid and kid in active:
                known_hits[kid] = known_hits.get(kid, 0) + 1
            else:
                fails.append((c, r, why))
    for c, e in list(zip(spec.cases, ev))[:2]:
        ctx.sample({"family": spec.name, "case": c, "impl": e[0]})
    model_err = None
    try:
        model_res = ctx.coq_eval(spec.requires, [spec.coq_expr(c) for c in spec.cases],
                                 shard=spec.shard, prelude=spec.prelude)
        for c, e, m in zip(spec.cases, ev, model_res):
            if e[0] != m:
                diverge.append((c, e[0], m))
    except ModelUnavailable as e:
        model_err = str(e)
    return _report(ctx, spec.name, len(spec.cases), fails, diverge, known_hits, model_err, spec.exhaustive, t)


def sweep_differential(ctx: Ctx, name: str, requires: list[str], shards: list[tuple[str, list]],
                       impl, holds=None, known=None, nontrivial=None, exhaustive=True,
                       sample_limit=2) -> dict:
    """Like `differential`, but each Coq expression enumerates a whole shard of cases itself
    (an `L [...]` of per-case results, in the same order as the python list of cases)."""
    t = time.time()
    fails, diverge, known_hits = [], [], {}
    model_err = None
    active = ctx.active_known_ids()
    flat = [c for _, cases in shards for c in cases]
    ev = eval_cases(flat, impl, holds, known, nontrivial)
    try:
        model = ctx.coq_eval(requires, [e for e, _ in shards], shard=1)
        mflat = []
        for si, (_, cases) in enumerate(shards):
            if len(model[si]) != len(cases):
                raise ModelUnavailable(f"{name}: shard {si} has {len(cases)} cases but model returned {len(model[si])}")
            mflat += model[si]
    except ModelUnavailable as e:
        mflat, model_err = None, str(e)
    for i, (c, (r, ok, why, kid, nt)) in enumerate(zip(flat, ev)):
        if nt is not None:
            ctx.nontrivial.add((name, nt))
        if not ok:
            if kid and kid in active:
                known_hits[kid] = known_hits.get(kid, 0) + 1
            else:
                fails.append((c, r, why))
        if mflat is not None and mflat[i] != r:
            diverge.append((c, r, mflat[i]))
        if i < sample_limit:
            ctx.sample({"family": name, "case": c, "impl": r})
    ctx.evaluations += len(flat)
    return _report(ctx, name, len(flat), fails, diverge, known_hits, model_err, exhaustive, t)


def replay_findings(ctx: Ctx, family: str, impl, holds):
    """Replay the committed witnesses of `family` (entries of known_findings*.json whose
    "family" field equals `family`) on the implementation.  A listed known finding that still
    fails prints its KNOWN-FINDING line; a `fixed` entry that fails again is a violation."""
    for e in ctx.known_findings + ctx.fixed_findings:
        if e.get("family") != family or "witness" not in e:
            continue
        r = to_jsonable(impl(e["witness"]))
        ok, why = holds(e["witness"], r)
        ctx.evaluations += 1
        if e.get("fixed"):
            if not ok:
                ctx.violation({"family": family, "case": e["witness"], "impl_result": r, "oracle": why,
                               "regression_of_fixed_finding": e.get("line") or e.get("id")})
        elif not ok:
            ctx.known(e["id"], e["what"])
        else:
            ctx.coverage.setdefault("known_findings_no_longer_failing", []).append(e["id"])
