"""c23_tables -- fail-closed extractor (python `ast`, the sources are never imported or executed) of the
tables and small decision functions that ARE the mechanism of the LLVM backend:

  xdsl/backend/llvm/convert_op.py
      _BINARY_OP_MAP        llvm-dialect op class -> llvmlite IRBuilder method        (`lambda b: b.<meth>`)
      _convert_binop        which operands are passed in which order; per flag-carrying base class the rule
                            that turns the op's property into the `flags=` keyword (overflow int through
                            OverflowAttr.from_int, fast-math attr, `exact`, `disjoint`)
      _ICMP_PRED_MAP        predicate string -> (llvmlite comparison operator, signed?)
      _convert_icmp         from_int -> .value -> table -> icmp_signed / icmp_unsigned (lhs, rhs)
      _CAST_OP_NAMES        cast op class -> LLVM opcode;   _convert_cast: flag rules (overflow attr, nneg)
      _FCMP_CMP_MAP         + the ordered/unordered split of _convert_fcmp
      convert_op            the dispatch: which op classes have an arm at all
  xdsl/dialects/llvm.py
      every op class with its `name = "llvm.x"` and base classes; the Dialect("llvm", [...]) op list;
      ICmpPredicateFlag / FCmpPredicateFlag member order (= from_int index); OverflowFlag values;
      OverflowAttr.from_int / to_int arms
  xdsl/dialects/utils/fast_math.py   FastMathFlag values
  llvmlite/ir/builder.py (the library the backend drives; outside /repo, read from the installed package)
      _CMP_MAP  (operator -> predicate suffix), the `@_binop('<opcode>') def <method>` pairs

and writes them as Coq association lists of strings into coq/Gen/C23_tables.v.  Every shape that is not exactly
one of the recognised forms raises Untranslatable naming the node: an edit of the mechanism either changes a
table (then the theorems of coq/Props/C23.v are re-checked against the new table) or stops the translation.
"""
from __future__ import annotations

import ast
import hashlib
from pathlib import Path

from harness.common import Untranslatable, write_if_changed

CONVERT_OP = "xdsl/backend/llvm/convert_op.py"
CONVERT = "xdsl/backend/llvm/convert.py"
DIALECT = "xdsl/dialects/llvm.py"
FASTMATH = "xdsl/dialects/utils/fast_math.py"


def U(rel, node, why):
    src = ast.unparse(node) if isinstance(node, ast.AST) else repr(node)
    return Untranslatable(f"{rel} line {getattr(node, 'lineno', '?')}: {why}: {src[:160]}")


def norm(node) -> str:
    return ast.unparse(node)


def flat(node) -> str:
    """unparse with the indentation removed (substring checks on statement sequences)"""
    return "\n".join(line.strip() for line in ast.unparse(node).splitlines())


# ----------------------------------------------------------------------------------------------
# helpers on module-level definitions


class Src:
    def __init__(self, path: Path, rel: str):
        self.rel = rel
        self.text = path.read_text()
        self.tree = ast.parse(self.text)
        self.assigns: dict[str, ast.AST] = {}
        self.funcs: dict[str, ast.FunctionDef] = {}
        self.classes: dict[str, ast.ClassDef] = {}
        for n in self.tree.body:
            if isinstance(n, ast.Assign) and len(n.targets) == 1 and isinstance(n.targets[0], ast.Name):
                self.assigns[n.targets[0].id] = n.value
            elif isinstance(n, ast.AnnAssign) and isinstance(n.target, ast.Name) and n.value is not None:
                self.assigns[n.target.id] = n.value
            elif isinstance(n, ast.FunctionDef):
                self.funcs[n.name] = n
            elif isinstance(n, ast.ClassDef):
                self.classes[n.name] = n

    def need(self, kind: str, name: str):
        d = getattr(self, kind)
        if name not in d:
            raise Untranslatable(f"{self.rel}: module-level {kind[:-1]} `{name}` not found")
        return d[name]

    def span(self, node) -> list[int]:
        return [node.lineno, getattr(node, "end_lineno", node.lineno)]


def llvm_attr(rel, node) -> str:
    """`llvm.X` -> "X" """
    if isinstance(node, ast.Attribute) and isinstance(node.value, ast.Name) and node.value.id == "llvm":
        return node.attr
    raise U(rel, node, "expected `llvm.<Class>`")


def str_const(rel, node) -> str:
    if isinstance(node, ast.Constant) and isinstance(node.value, str):
        return node.value
    raise U(rel, node, "expected a string literal")


def dict_items(rel, node):
    if not isinstance(node, ast.Dict):
        raise U(rel, node, "expected a dict literal")
    if any(k is None for k in node.keys):
        raise U(rel, node, "dict unpacking in a table")
    return list(zip(node.keys, node.values))


def nodup(rel, node, keys):
    if len(set(keys)) != len(keys):
        raise U(rel, node, "duplicate key in a table (the later entry would silently win)")


# ----------------------------------------------------------------------------------------------
# convert_op.py


def binary_op_map(s: Src):
    node = s.need("assigns", "_BINARY_OP_MAP")
    out = []
    for k, v in dict_items(s.rel, node):
        cls = llvm_attr(s.rel, k)
        # lambda b: b.<meth>
        if not (isinstance(v, ast.Lambda) and len(v.args.args) == 1 and not v.args.defaults
                and not v.args.kwonlyargs and v.args.vararg is None and v.args.kwarg is None
                and isinstance(v.body, ast.Attribute) and isinstance(v.body.value, ast.Name)
                and v.body.value.id == v.args.args[0].arg):
            raise U(s.rel, v, "expected `lambda b: b.<method>`")
        out.append((cls, v.body.attr))
    nodup(s.rel, node, [c for c, _ in out])
    return out


FLAG_COMP = "[f.value for f in {}]"


def _single_if(s, body, what):
    if len(body) != 1 or not isinstance(body[0], ast.If) or body[0].orelse:
        raise U(s.rel, body[0] if body else what, "expected exactly one `if op.<prop>:` without else")
    return body[0]


def _kwargs_flags_assign(s, st):
    """`kwargs["flags"] = <expr>` -> expr"""
    if not (isinstance(st, ast.Assign) and len(st.targets) == 1 and norm(st.targets[0]) == "kwargs['flags']"):
        raise U(s.rel, st, "expected `kwargs[\"flags\"] = ...`")
    return st.value


def _string_list(s, node):
    if not isinstance(node, ast.List):
        raise U(s.rel, node, "expected a list of string literals")
    return [str_const(s.rel, e) for e in node.elts]


def convert_binop(s: Src):
    """-> (operand order, [(base class, rule, prop, const flags)])"""
    fn = s.need("funcs", "_convert_binop")
    if [a.arg for a in fn.args.args] != ["op", "builder", "val_map"]:
        raise U(s.rel, fn, "unexpected signature")
    body = [st for st in fn.body if not (isinstance(st, ast.Expr) and isinstance(st.value, ast.Constant))]
    if len(body) != 4:
        raise U(s.rel, fn, "expected: kwargs = {}; op_builder = ...; match op; val_map[...] = ...")
    if norm(body[0]) != "kwargs = {}":
        raise U(s.rel, body[0], "expected `kwargs = {}`")
    if norm(body[1]) != "op_builder = _BINARY_OP_MAP[type(op)]":
        raise U(s.rel, body[1], "expected `op_builder = _BINARY_OP_MAP[type(op)]`")
    m = body[2]
    if not (isinstance(m, ast.Match) and norm(m.subject) == "op"):
        raise U(s.rel, m, "expected `match op:`")
    arms = []
    for case in m.cases:
        if case.guard is not None:
            raise U(s.rel, case.guard, "guard on a flag arm")
        p = case.pattern
        if isinstance(p, ast.MatchAs) and p.pattern is None and p.name is None:
            if norm(ast.Module(body=case.body, type_ignores=[])) != "pass":
                raise U(s.rel, case.body[0], "default arm must be `pass`")
            continue
        if not (isinstance(p, ast.MatchClass) and not p.patterns and not p.kwd_patterns):
            raise U(s.rel, p, "expected `case llvm.<Base>():`")
        base = llvm_attr(s.rel, p.cls)
        iff = _single_if(s, case.body, p)
        t = iff.test
        if not (isinstance(t, ast.Attribute) and isinstance(t.value, ast.Name) and t.value.id == "op"):
            raise U(s.rel, t, "expected `if op.<prop>:`")
        prop = t.attr
        if len(iff.body) == 2:
            # overflow_attr = llvm.OverflowAttr.from_int(op.<prop>.value.data); kwargs["flags"] = [f.value for f in overflow_attr.data]
            if norm(iff.body[0]) != f"overflow_attr = llvm.OverflowAttr.from_int(op.{prop}.value.data)":
                raise U(s.rel, iff.body[0], "expected `overflow_attr = llvm.OverflowAttr.from_int(op.<prop>.value.data)`")
            e = _kwargs_flags_assign(s, iff.body[1])
            if norm(e) != FLAG_COMP.format("overflow_attr.data"):
                raise U(s.rel, e, "expected `[f.value for f in overflow_attr.data]`")
            arms.append((base, "overflow_int", prop, []))
        elif len(iff.body) == 1:
            e = _kwargs_flags_assign(s, iff.body[0])
            if norm(e) == FLAG_COMP.format(f"op.{prop}.data"):
                arms.append((base, "attr_values", prop, []))
            else:
                arms.append((base, "unit", prop, _string_list(s, e)))
        else:
            raise U(s.rel, iff, "unrecognised flag arm")
    nodup(s.rel, m, [a[0] for a in arms])
    last = body[3]
    want = "val_map[op.results[0]] = op_builder(builder)(val_map[op.operands[{}]], val_map[op.operands[{}]], **kwargs)"
    order = None
    for i, j in ((0, 1), (1, 0), (0, 0), (1, 1)):
        if norm(last) == want.format(i, j):
            order = [i, j]
    if order is None:
        raise U(s.rel, last, "expected `val_map[op.results[0]] = op_builder(builder)(val_map[op.operands[i]], val_map[op.operands[j]], **kwargs)`")
    return order, arms, s.span(fn)


def icmp_pred_map(s: Src):
    node = s.need("assigns", "_ICMP_PRED_MAP")
    out = []
    for k, v in dict_items(s.rel, node):
        if not (isinstance(v, ast.Tuple) and len(v.elts) == 2 and isinstance(v.elts[1], ast.Constant)
                and isinstance(v.elts[1].value, bool)):
            raise U(s.rel, v, "expected `(\"<op>\", True|False)`")
        out.append((str_const(s.rel, k), str_const(s.rel, v.elts[0]), v.elts[1].value))
    nodup(s.rel, node, [k for k, _, _ in out])
    return out


def convert_icmp(s: Src):
    """-> (method when signed, method when unsigned, [first operand, second operand])"""
    fn = s.need("funcs", "_convert_icmp")
    body = [norm(st) for st in fn.body]
    head = ["predicate = op.predicate.value.data",
            "flag = llvm.ICmpPredicateFlag.from_int(predicate)",
            "pred_str = flag.value",
            "llvm_pred, is_signed = _ICMP_PRED_MAP[pred_str]"]
    if len(body) != 6 or body[:4] != head:
        raise U(s.rel, fn, "unexpected body of _convert_icmp (predicate decoding)")
    st = fn.body[4]
    if not (isinstance(st, ast.Assign) and norm(st.targets[0]) == "target_func" and isinstance(st.value, ast.IfExp)
            and norm(st.value.test) == "is_signed"):
        raise U(s.rel, st, "expected `target_func = builder.<a> if is_signed else builder.<b>`")

    def meth(e):
        if isinstance(e, ast.Attribute) and isinstance(e.value, ast.Name) and e.value.id == "builder":
            return e.attr
        raise U(s.rel, e, "expected `builder.<method>`")
    ms, mu = meth(st.value.body), meth(st.value.orelse)
    last = fn.body[5]
    for x, y in (("lhs", "rhs"), ("rhs", "lhs"), ("lhs", "lhs"), ("rhs", "rhs")):
        if norm(last) == f"val_map[op.results[0]] = target_func(llvm_pred, val_map[op.{x}], val_map[op.{y}])":
            return ms, mu, [x, y], s.span(fn)
    raise U(s.rel, last, "expected `val_map[op.results[0]] = target_func(llvm_pred, val_map[op.lhs], val_map[op.rhs])`")


def cast_op_names(s: Src):
    node = s.need("assigns", "_CAST_OP_NAMES")
    out = [(llvm_attr(s.rel, k), str_const(s.rel, v)) for k, v in dict_items(s.rel, node)]
    nodup(s.rel, node, [c for c, _ in out])
    return out


def convert_cast(s: Src):
    fn = s.need("funcs", "_convert_cast")
    if len(fn.body) != 4:
        raise U(s.rel, fn, "unexpected body of _convert_cast")
    m = fn.body[0]
    if not (isinstance(m, ast.Match) and norm(m.subject) == "op"):
        raise U(s.rel, m, "expected `match op:`")
    arms = []
    for case in m.cases:
        p = case.pattern
        if len(case.body) != 1 or not (isinstance(case.body[0], ast.Assign) and norm(case.body[0].targets[0]) == "flags"):
            raise U(s.rel, case.body[0], "expected `flags = ...`")
        e = case.body[0].value
        if isinstance(p, ast.MatchAs) and p.pattern is None and p.name is None:
            if case.guard is not None or norm(e) != "[]":
                raise U(s.rel, case.body[0], "default arm must be `flags = []`")
            continue
        if not (isinstance(p, ast.MatchClass) and not p.patterns and not p.kwd_patterns):
            raise U(s.rel, p, "expected `case llvm.<Base>() if op.<prop>:`")
        base = llvm_attr(s.rel, p.cls)
        g = case.guard
        if not (isinstance(g, ast.Attribute) and isinstance(g.value, ast.Name) and g.value.id == "op"):
            raise U(s.rel, g or p, "expected guard `if op.<prop>`")
        prop = g.attr
        if norm(e) == FLAG_COMP.format(f"op.{prop}.data"):
            arms.append((base, "attr_values", prop, []))
        else:
            arms.append((base, "unit", prop, _string_list(s, e)))
    nodup(s.rel, m, [a[0] for a in arms])
    want = ["instr = CastInstrWithFlags(builder.block, _CAST_OP_NAMES[type(op)], val_map[op.operands[0]], "
            "convert_type(op.results[0].type), flags=flags)",
            "builder._insert(instr)",
            "val_map[op.results[0]] = instr"]
    got = [norm(st) for st in fn.body[1:]]
    if got != want:
        raise U(s.rel, fn.body[1], "unexpected construction of the cast instruction")
    # the printing of CastInstrWithFlags: `<opname> <flags...> <ty> <val> to <ty>`
    cls = s.need("classes", "CastInstrWithFlags")
    descr = [n for n in cls.body if isinstance(n, ast.FunctionDef) and n.name == "descr"]
    if len(descr) != 1 or "' '.join([self.opname] + list(self.flags)) if self.flags else self.opname" not in norm(descr[0]):
        raise U(s.rel, cls, "CastInstrWithFlags.descr no longer prints `opname flags...`")
    return arms, s.span(fn)


def fcmp(s: Src):
    node = s.need("assigns", "_FCMP_CMP_MAP")
    table = [(str_const(s.rel, k), str_const(s.rel, v)) for k, v in dict_items(s.rel, node)]
    nodup(s.rel, node, [k for k, _ in table])
    fn = s.need("funcs", "_convert_fcmp")
    want = ["pred_int: int = op.predicate.value.data",
            "flag = llvm.FCmpPredicateFlag.from_int(pred_int)",
            "pred = flag.value",
            "is_ordered = pred[0] == 'o'",
            "key = pred[1:]",
            "cmpop = _FCMP_CMP_MAP.get(key, pred)",
            "fn = builder.fcmp_ordered if is_ordered else builder.fcmp_unordered",
            "val_map[op.results[0]] = fn(cmpop, val_map[op.lhs], val_map[op.rhs])"]
    got = [norm(st) for st in fn.body]
    # the repaired form (proposed fix C23-3) maps "_false"/"_true" to LLVM's "false"/"true"
    strips = False
    for alt in ("cmpop = _FCMP_CMP_MAP.get(key, pred.lstrip('_'))", "cmpop = _FCMP_CMP_MAP.get(key, pred.removeprefix('_'))"):
        if len(got) == len(want) and got[5] == alt:
            got[5] = want[5]
            strips = True
    if got != want:
        bad = next((a for a, b in zip(fn.body, want) if norm(a) != b), fn)
        raise U(s.rel, bad, "unexpected body of _convert_fcmp (the hand model C23/Model.v:fcmp_convert mirrors it)")
    return table, strips, s.span(fn)


def dispatch(s: Src):
    """convert_op's `match op:` -> list of (kind, name): ("table", "_X_MAP") | ("class", "X") in arm order"""
    fn = s.need("funcs", "convert_op")
    ms = [st for st in fn.body if isinstance(st, ast.Match)]
    if len(ms) != 1 or norm(ms[0].subject) != "op":
        raise U(s.rel, fn, "expected one `match op:` in convert_op")
    out = []
    default_raises = False
    for case in ms[0].cases:
        p = case.pattern
        if isinstance(p, ast.MatchAs) and p.pattern is None and p.name is None:
            default_raises = len(case.body) == 1 and isinstance(case.body[0], ast.Raise) and \
                norm(case.body[0].exc).startswith("NotImplementedError(")
            continue
        if isinstance(p, ast.MatchAs) and p.pattern is None and p.name == "op":
            g = case.guard
            if not (isinstance(g, ast.Compare) and norm(g.left) == "type(op)" and len(g.ops) == 1
                    and isinstance(g.ops[0], ast.In) and isinstance(g.comparators[0], ast.Name)):
                raise U(s.rel, g or p, "expected `case op if type(op) in _TABLE:`")
            out.append(("table", g.comparators[0].id, norm(case.body[0])))
            continue
        if isinstance(p, ast.MatchClass) and not p.patterns and not p.kwd_patterns:
            g = norm(case.guard) if case.guard is not None else ""
            if g not in ("", "block_map is not None"):
                raise U(s.rel, case.guard, "unexpected guard on a dispatch arm")
            out.append(("class", llvm_attr(s.rel, p.cls), norm(case.body[0])))
            continue
        raise U(s.rel, p, "unrecognised dispatch arm")
    if not default_raises:
        raise U(s.rel, ms[0], "the default arm of convert_op no longer raises NotImplementedError")
    return out, s.span(fn)


def table_keys(s: Src, name: str):
    return [llvm_attr(s.rel, k) for k, _ in dict_items(s.rel, s.need("assigns", name))]


# ----------------------------------------------------------------------------------------------
# convert.py: the phi construction (shape check only: the algorithm is hand-modelled in C23/Model.v)


def convert_func_shape(s_conv: Src, s_op: Src):
    """shape check of _convert_func / _convert_br / _convert_condbr (the algorithm is hand-modelled in C23/Model.v)
    and detection of the two repaired variants (proposed fixes C23-1, C23-2), whose exact statements are required"""
    fn = s_conv.need("funcs", "_convert_func")
    txt = flat(fn)
    ordered = "PostOrderIterator" in txt
    need = ["for i, block in enumerate(op.body.blocks):",
            "llvm_block = func.append_basic_block(name=block.name_hint or '')",
            "for arg, llvm_arg in zip(block.args, func.args):",
            "phi = builder.phi(convert_type(arg.type))",
            "val_map[arg] = phi",
            "for op_in_block in block.ops:",
            "convert_op(op_in_block, builder, val_map, block_map)"]
    if ordered:
        need += ["order = list(reversed(tuple(PostOrderIterator(op.body.blocks[0]))))",
                 "order += [b for b in op.body.blocks if not any((b is o for o in order))]",
                 "for block in order:"]
    else:
        need += ["for block in op.body.blocks:"]
    for line in need:
        if line not in txt:
            raise U(s_conv.rel, fn, f"_convert_func no longer contains `{line}` (hand model C23/Model.v:conv_func mirrors it)")
    br = s_op.need("funcs", "_convert_br")
    cbr = s_op.need("funcs", "_convert_condbr")
    tb, tc = flat(br), flat(cbr)
    same_block_special = "then_block is else_block" in tc
    cb_lines = ["for arg, val in zip(then_block.args, op.then_arguments):",
                "for arg, val in zip(else_block.args, op.else_arguments):",
                "phi.add_incoming(val_map[val], current_block)",
                "builder.cbranch(val_map[op.cond], block_map[then_block], block_map[else_block])"]
    if same_block_special:
        cb_lines += ["if then_block is else_block:\ncond = val_map[op.cond]\n"
                     "for arg, t, e in zip(then_block.args, op.then_arguments, op.else_arguments):\n"
                     "phi = val_map[arg]\nassert isinstance(phi, PhiInstr)\n"
                     "val = val_map[t] if t is e else builder.select(cond, val_map[t], val_map[e])\n"
                     "phi.add_incoming(val, current_block)\nphi.add_incoming(val, current_block)\n"
                     "builder.cbranch(cond, block_map[then_block], block_map[else_block])\nreturn"]
    for t, lines, f in ((tb, ["for arg, val in zip(dest.args, op.arguments):", "phi.add_incoming(val_map[val], current_block)",
                              "builder.branch(block_map[dest])"], br), (tc, cb_lines, cbr)):
        for line in lines:
            if line not in t:
                raise U(s_op.rel, f, f"branch conversion no longer contains `{line}`")
    return {"condbr_same_block_special_case": same_block_special, "blocks_converted_in_dominance_order": ordered,
            "spans": {"_convert_func": s_conv.span(fn), "_convert_br": s_op.span(br), "_convert_condbr": s_op.span(cbr)}}


# ----------------------------------------------------------------------------------------------
# dialect


def enum_members(s: Src, cls_name: str):
    cls = s.need("classes", cls_name)
    out = []
    for n in cls.body:
        if isinstance(n, ast.Assign) and len(n.targets) == 1 and isinstance(n.targets[0], ast.Name) \
                and isinstance(n.value, ast.Constant) and isinstance(n.value.value, str):
            out.append((n.targets[0].id, n.value.value))
    if not out:
        raise U(s.rel, cls, "enum without string members")
    return out


def check_from_int(s: Src, cls_name: str, tuple_name: str):
    """`from_int(index)` must be `return ALL_X[index]` with ALL_X = tuple(<Enum>)`: index = member position"""
    cls = s.need("classes", cls_name)
    f = [n for n in cls.body if isinstance(n, ast.FunctionDef) and n.name == "from_int"]
    if len(f) != 1 or norm(f[0].body[-1]) != f"return {tuple_name}[index]":
        raise U(s.rel, cls, f"{cls_name}.from_int is no longer `return {tuple_name}[index]`")
    if norm(s.need("assigns", tuple_name)) != f"tuple({cls_name})":
        raise U(s.rel, s.need("assigns", tuple_name), f"{tuple_name} is no longer tuple({cls_name})")


def overflow_from_int(s: Src, flag_values: dict):
    cls = s.need("classes", "OverflowAttr")
    f = [n for n in cls.body if isinstance(n, ast.FunctionDef) and n.name == "from_int"]
    if len(f) != 1 or len(f[0].body) != 1 or not isinstance(f[0].body[0], ast.Match):
        raise U(s.rel, cls, "OverflowAttr.from_int is not a single match")
    out = []
    raises_otherwise = False
    for case in f[0].body[0].cases:
        p = case.pattern
        if isinstance(p, ast.MatchAs) and p.pattern is None:
            raises_otherwise = isinstance(case.body[0], ast.Raise)
            continue
        if not (isinstance(p, ast.MatchValue) and isinstance(p.value, ast.Constant) and type(p.value.value) is int):
            raise U(s.rel, p, "expected an integer literal case")
        r = case.body[0]
        if not (isinstance(r, ast.Return) and isinstance(r.value, ast.Call) and norm(r.value.func) == "OverflowAttr"
                and len(r.value.args) == 1):
            raise U(s.rel, r, "expected `return OverflowAttr(...)`")
        a = r.value.args[0]
        if isinstance(a, ast.Constant) and a.value == "none":
            flags = []
        elif isinstance(a, ast.Tuple):
            flags = []
            for e in a.elts:
                if not (isinstance(e, ast.Attribute) and norm(e.value) == "OverflowFlag" and e.attr in flag_values):
                    raise U(s.rel, e, "expected OverflowFlag.<MEMBER>")
                flags.append(flag_values[e.attr])
        else:
            raise U(s.rel, a, "expected \"none\" or a tuple of OverflowFlag members")
        out.append((p.value.value, flags))
    if not raises_otherwise:
        raise U(s.rel, f[0], "OverflowAttr.from_int no longer raises on other integers")
    return out


def dialect_ops(s: Src):
    """every class with a string `name = "llvm...."` in its body: (class, op/attr name, bases) + the op list
    handed to Dialect("llvm", [...])"""
    named = {}
    bases = {}
    for cname, c in s.classes.items():
        bs = []
        for b in c.bases:
            if isinstance(b, ast.Name):
                bs.append(b.id)
            elif isinstance(b, ast.Subscript) and isinstance(b.value, ast.Name):
                bs.append(b.value.id)
            else:
                bs.append(norm(b))
        bases[cname] = bs
        for n in c.body:
            if isinstance(n, ast.Assign) and len(n.targets) == 1 and norm(n.targets[0]) == "name" \
                    and isinstance(n.value, ast.Constant) and isinstance(n.value.value, str):
                named[cname] = n.value.value
    d = s.need("assigns", "LLVM")
    if not (isinstance(d, ast.Call) and norm(d.func) == "Dialect" and len(d.args) >= 2 and isinstance(d.args[1], ast.List)):
        raise U(s.rel, d, "expected LLVM = Dialect(\"llvm\", [ops], [attrs])")
    ops = []
    for e in d.args[1].elts:
        if not (isinstance(e, ast.Name) and e.id in named):
            raise U(s.rel, e, "op list entry is not a class with a literal name")
        ops.append(e.id)
    return ops, named, bases


def ancestors(cls, bases):
    seen, todo = [], list(bases.get(cls, []))
    while todo:
        b = todo.pop(0)
        if b not in seen:
            seen.append(b)
            todo += bases.get(b, [])
    return seen


# ----------------------------------------------------------------------------------------------
# llvmlite (installed package)


def llvmlite_tables():
    import importlib.util
    spec = importlib.util.find_spec("llvmlite")
    if spec is None or not spec.submodule_search_locations:
        raise Untranslatable("llvmlite package not found")
    path = Path(list(spec.submodule_search_locations)[0]) / "ir" / "builder.py"
    s = Src(path, "llvmlite/ir/builder.py")
    cmp_map = [(str_const(s.rel, k), str_const(s.rel, v)) for k, v in dict_items(s.rel, s.need("assigns", "_CMP_MAP"))]
    ib = s.need("classes", "IRBuilder")
    binops = []
    for n in ib.body:
        if isinstance(n, ast.FunctionDef):
            for d in n.decorator_list:
                if isinstance(d, ast.Call) and isinstance(d.func, ast.Name) and d.func.id == "_binop" \
                        and len(d.args) == 1 and isinstance(d.args[0], ast.Constant):
                    binops.append((n.name, d.args[0].value))
    icmp = [n for n in ib.body if isinstance(n, ast.FunctionDef) and n.name == "_icmp"]
    if len(icmp) != 1 or "if cmpop not in ('==', '!='):\nop = prefix + op" not in flat(icmp[0]):
        raise U(s.rel, ib, "IRBuilder._icmp changed (hand model C23/Model.v:llvmlite_icmp mirrors it)")
    for nm, pre in (("icmp_signed", "s"), ("icmp_unsigned", "u")):
        f = [n for n in ib.body if isinstance(n, ast.FunctionDef) and n.name == nm]
        if len(f) != 1 or norm(f[0].body[-1]) != f"return self._icmp('{pre}', cmpop, lhs, rhs, name)":
            raise U(s.rel, ib, f"IRBuilder.{nm} changed")
    for nm, pre in (("fcmp_ordered", "o"), ("fcmp_unordered", "u")):
        f = [n for n in ib.body if isinstance(n, ast.FunctionDef) and n.name == nm]
        if len(f) != 1 or f"if cmpop in _CMP_MAP:\nop = '{pre}' + _CMP_MAP[cmpop]\nelse:\nop = cmpop" not in flat(f[0]):
            raise U(s.rel, ib, f"IRBuilder.{nm} changed")
    s2 = Src(path.parent / "instructions.py", "llvmlite/ir/instructions.py")
    fc = s2.need("classes", "FCMPInstr")
    valid = None
    for n in fc.body:
        if isinstance(n, ast.Assign) and norm(n.targets[0]) == "VALID_OP":
            valid = [str_const(s2.rel, k) for k, _ in dict_items(s2.rel, n.value)]
    if valid is None:
        raise U(s2.rel, fc, "FCMPInstr.VALID_OP not found")
    return cmp_map, binops, valid


# ----------------------------------------------------------------------------------------------
# rendering


def cs(x: str) -> str:
    assert all(32 <= ord(c) < 127 for c in x), x
    return '"' + x.replace('"', '""') + '"'


def cl(items) -> str:
    return "[" + "; ".join(items) + "]"


def cpairs(ps) -> str:
    return cl(f"({cs(a)}, {cs(b)})" for a, b in ps)


def extract(repo: Path) -> dict:
    so = Src(repo / CONVERT_OP, CONVERT_OP)
    sc = Src(repo / CONVERT, CONVERT)
    sd = Src(repo / DIALECT, DIALECT)
    sf = Src(repo / FASTMATH, FASTMATH)
    t: dict = {}
    t["binary_op_map"] = binary_op_map(so)
    t["binop_order"], t["binop_flag_arms"], sp_bin = convert_binop(so)
    t["icmp_pred_map"] = icmp_pred_map(so)
    t["icmp_signed_method"], t["icmp_unsigned_method"], t["icmp_operands"], sp_icmp = convert_icmp(so)
    t["cast_op_names"] = cast_op_names(so)
    t["cast_flag_arms"], sp_cast = convert_cast(so)
    t["fcmp_cmp_map"], t["fcmp_strips_underscore"], sp_fcmp = fcmp(so)
    disp, sp_disp = dispatch(so)
    t["dispatch_arms"] = [(k, n) for k, n, _ in disp]
    dispatched = []
    for k, n, _ in disp:
        for c in (table_keys(so, n) if k == "table" else [n]):
            if c not in dispatched:
                dispatched.append(c)
    t["dispatched"] = dispatched
    # the first arm that can take an op of class C decides (python `match`): the model relies on the order
    # "binary table, ICmpOp, FCmpOp, cast table" among the modelled arms
    order = [n for _, n, _ in disp]
    want_prefix = ["_BINARY_OP_MAP", "ICmpOp", "FCmpOp", "_CAST_OP_NAMES"]
    if order[:4] != want_prefix:
        raise U(CONVERT_OP, so.funcs["convert_op"], "the first four dispatch arms changed")
    handlers = {n: b for _, n, b in disp}
    for n, h in (("_BINARY_OP_MAP", "_convert_binop(op, builder, val_map)"), ("ICmpOp", "_convert_icmp(op, builder, val_map)"),
                 ("FCmpOp", "_convert_fcmp(op, builder, val_map)"), ("_CAST_OP_NAMES", "_convert_cast(op, builder, val_map)"),
                 ("SelectOp", "_convert_select(op, builder, val_map)"), ("BrOp", "_convert_br(op, builder, val_map, block_map)"),
                 ("CondBrOp", "_convert_condbr(op, builder, val_map, block_map)"),
                 ("AllocaOp", "_convert_alloca(op, builder, val_map)"), ("LoadOp", "_convert_load(op, builder, val_map)"),
                 ("StoreOp", "_convert_store(op, builder, val_map)"), ("ReturnOp", "_convert_return(op, builder, val_map)"),
                 ("ConstantOp", "val_map[op.result] = create_constant(op.result.type, op.value)")):
        if handlers.get(n) != h:
            raise U(CONVERT_OP, so.funcs["convert_op"], f"dispatch arm for {n} is no longer `{h}`")
    sel = so.need("funcs", "_convert_select")
    if norm(sel.body[-1]) != "val_map[op.res] = builder.select(val_map[op.cond], val_map[op.lhs], val_map[op.rhs])":
        raise U(CONVERT_OP, sel, "unexpected _convert_select")
    t["variant"] = convert_func_shape(sc, so)

    ops, named, bases = dialect_ops(sd)
    t["dialect_ops"] = [(c, named[c], ancestors(c, bases)) for c in ops]
    for c in list(dict.fromkeys([c for c, _ in t["binary_op_map"]] + [c for c, _ in t["cast_op_names"]] + dispatched)):
        if c not in named:
            raise Untranslatable(f"{CONVERT_OP}: class llvm.{c} used by the backend has no literal `name` in {DIALECT}")
    t["icmp_flags"] = [v for _, v in enum_members(sd, "ICmpPredicateFlag")]
    check_from_int(sd, "ICmpPredicateFlag", "ALL_ICMP_FLAGS")
    t["fcmp_flags"] = [v for _, v in enum_members(sd, "FCmpPredicateFlag")]
    check_from_int(sd, "FCmpPredicateFlag", "ALL_FCMP_FLAGS")
    ov = dict(enum_members(sd, "OverflowFlag"))
    t["overflow_flags"] = list(ov.values())
    t["overflow_from_int"] = overflow_from_int(sd, ov)
    t["fastmath_flags"] = [v for _, v in enum_members(sf, "FastMathFlag")]
    t["llvmlite_cmp_map"], t["llvmlite_binop_opname"], t["llvmlite_fcmp_valid"] = llvmlite_tables()
    t["spans"] = {"_convert_binop": sp_bin, "_convert_icmp": sp_icmp, "_convert_cast": sp_cast, "_convert_fcmp": sp_fcmp,
                  "convert_op": sp_disp}
    return t


def render(t: dict) -> str:
    def arms(a):
        return cl(f"({cs(b)}, ({cs(rule)}, ({cs(prop)}, {cl(cs(f) for f in fl)})))" for b, rule, prop, fl in a)
    L = []
    A = L.append
    A("(* GENERATED on every run by harness/translate/c23_tables.py from the working tree of /repo")
    A("   (xdsl/backend/llvm/convert_op.py, xdsl/dialects/llvm.py, xdsl/dialects/utils/fast_math.py) and the")
    A("   installed llvmlite/ir/builder.py.  Data only; do not edit. *)")
    A("From Coq Require Import ZArith List String Bool.")
    A("Import ListNotations.")
    A("Local Open Scope string_scope.")
    A("")
    A("(* _BINARY_OP_MAP : llvm-dialect op class -> llvmlite IRBuilder method *)")
    A(f"Definition binary_op_map : list (string * string) :=\n  {cpairs(t['binary_op_map'])}.")
    A("(* _convert_binop : indices of op.operands passed as (lhs, rhs) *)")
    A(f"Definition binop_operand_order : list Z := {cl(str(i) + '%Z' for i in t['binop_order'])}.")
    A("(* _convert_binop : base class -> (rule, (python attribute tested and read, constant flag list)) in arm order *)")
    A(f"Definition binop_flag_arms : list (string * (string * (string * list string))) :=\n  {arms(t['binop_flag_arms'])}.")
    A("(* _ICMP_PRED_MAP : predicate string -> (llvmlite operator, signed?) *)")
    A("Definition icmp_pred_map : list (string * (string * bool)) :=\n  " +
      cl(f"({cs(k)}, ({cs(o)}, {'true' if sg else 'false'}))" for k, o, sg in t["icmp_pred_map"]) + ".")
    A(f"Definition icmp_signed_method : string := {cs(t['icmp_signed_method'])}.")
    A(f"Definition icmp_unsigned_method : string := {cs(t['icmp_unsigned_method'])}.")
    A(f"Definition icmp_operands : list string := {cl(cs(x) for x in t['icmp_operands'])}.")
    A("(* _CAST_OP_NAMES : cast op class -> LLVM opcode *)")
    A(f"Definition cast_op_names : list (string * string) :=\n  {cpairs(t['cast_op_names'])}.")
    A(f"Definition cast_flag_arms : list (string * (string * (string * list string))) :=\n  {arms(t['cast_flag_arms'])}.")
    A("(* _FCMP_CMP_MAP *)")
    A(f"Definition fcmp_cmp_map : list (string * string) := {cpairs(t['fcmp_cmp_map'])}.")
    A(f"Definition fcmp_strips_underscore : bool := {'true' if t['fcmp_strips_underscore'] else 'false'}.")
    A("(* op classes convert_op has an arm for (tables expanded), in arm order *)")
    A(f"Definition dispatched : list string :=\n  {cl(cs(c) for c in t['dispatched'])}.")
    A("(* every op class registered in Dialect(\"llvm\", ...): (class, (op name, all ancestors)) *)")
    A("Definition dialect_ops : list (string * (string * list string)) :=\n  " +
      cl(f"({cs(c)}, ({cs(n)}, {cl(cs(b) for b in bs)}))" for c, n, bs in t["dialect_ops"]) + ".")
    A("(* enum member values in definition order = from_int index *)")
    A(f"Definition icmp_flags : list string := {cl(cs(x) for x in t['icmp_flags'])}.")
    A(f"Definition fcmp_flags : list string := {cl(cs(x) for x in t['fcmp_flags'])}.")
    A(f"Definition overflow_flags : list string := {cl(cs(x) for x in t['overflow_flags'])}.")
    A("(* OverflowAttr.from_int arms (any other integer raises ValueError) *)")
    A("Definition overflow_from_int : list (Z * list string) :=\n  " +
      cl(f"({i}%Z, {cl(cs(f) for f in fl)})" for i, fl in t["overflow_from_int"]) + ".")
    A(f"Definition fastmath_flags : list string := {cl(cs(x) for x in t['fastmath_flags'])}.")
    A("(* llvmlite: _CMP_MAP, IRBuilder method -> opcode of @_binop, opcodes FCMPInstr accepts *)")
    A(f"Definition llvmlite_cmp_map : list (string * string) := {cpairs(t['llvmlite_cmp_map'])}.")
    A(f"Definition llvmlite_binop_opname : list (string * string) :=\n  {cpairs(t['llvmlite_binop_opname'])}.")
    A(f"Definition llvmlite_fcmp_valid : list string := {cl(cs(x) for x in t['llvmlite_fcmp_valid'])}.")
    A("(* which variant of the branch / block-order handling the working tree has (see C23/Model.v) *)")
    v = t["variant"]
    A(f"Definition condbr_same_block_special_case : bool := {'true' if v['condbr_same_block_special_case'] else 'false'}.")
    A(f"Definition blocks_converted_in_dominance_order : bool := {'true' if v['blocks_converted_in_dominance_order'] else 'false'}.")
    return "\n".join(L) + "\n"


def generate(repo: Path, out_dir: Path) -> dict:
    t = extract(repo)
    text = render(t)
    write_if_changed(out_dir / "C23_tables.v", text)
    info = {"file": "coq/Gen/C23_tables.v", "sha1": hashlib.sha1(text.encode()).hexdigest()[:12],
            "tables": {k: (len(v) if isinstance(v, list) else v) for k, v in t.items() if k not in ("spans", "variant")},
            "spans": t["spans"], "variant": t["variant"]}
    return {"tables": t, "info": info}


if __name__ == "__main__":
    import sys
    r = generate(Path(sys.argv[1] if len(sys.argv) > 1 else "/repo"), Path(sys.argv[2] if len(sys.argv) > 2 else "/verif/coq/Gen"))
    print(render(r["tables"]))
