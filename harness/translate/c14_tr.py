"""c14_tr -- fail-closed translator (python `ast` -> Gallina) for the integer-folding code of C14.

Reads the WORKING TREE sources (never imports or executes them):
  xdsl/utils/comparisons.py                      bound functions (plain int functions)
  xdsl/dialects/builtin.py                       IntegerType.normalized_value, IntegerAttr.__init__
  xdsl/dialects/arith.py                         class walk below SignlessIntegerBinaryOperation:
                                                 py_operation / is_right_unit / is_right_zero of every
                                                 concrete subclass, the Commutative trait, `fold`
  xdsl/transforms/canonicalization_patterns/arith.py   the integer / select / cmpi patterns
and writes coq/Gen/C14_Arith.v.

Statements: docstrings, `x = e`, `if/elif/else` (the continuation is duplicated into both branches, so a
re-assignment is a shadowing `let`), `return [e]`, `assert` (only the listed always-true type assertions),
expression statements that are a `rewriter.replace(...)` idiom.  Expressions: int/bool literals, names,
+ - * & | ^ % ** << >>, comparisons, `and/or/not`, `x if c else y`, `(x := e)`, `e in (k1, k2, ...)`, calls of
translated functions, and the IDIOMS of the per-function binding table (matched on the unparsed source text).
Anything else raises Untranslatable -- nothing is guessed.

Optional values (`int | None`, `IntegerAttr | None`) are Coq `option Z`.  Reading the payload
(`x.value.data`, or using an `int | None` as an int) is only accepted where the translator has PROVED from the
enclosing tests (`is None`, `is not None`, `isa(x, IntegerAttr)`, short-circuit order) that the value is not
None; the payload is then `oget x`.
"""
from __future__ import annotations

import ast
from pathlib import Path

from harness.common import Untranslatable

REPO = Path("/repo")


def U(node, why):
    src = ast.unparse(node) if isinstance(node, ast.AST) else repr(node)
    return Untranslatable(f"line {getattr(node, 'lineno', '?')}: {why}: {src[:140]}")


class Fn:
    """translation of one function body in continuation-passing style"""

    def __init__(self, name, params, ret, idioms, calls, stmts_idioms=None, truthy=()):
        self.name = name
        self.params = params            # [(coq_name, coq_type)]
        self.ret = ret                  # 'Z' | 'bool' | 'optZ' | 'out' | 'pairZ'
        self.idioms = idioms            # unparsed expr -> (coq, type)
        self.calls = calls              # callee name -> (coq function, [arg types], result type)
        self.stmt_idioms = stmts_idioms or {}   # unparsed statement -> 'skip' | ('out', coq)
        self.uid = 0

    # ---- expressions: -> (coq, type)
    def expr(self, n, env, known):
        src = ast.unparse(n)
        if src in self.idioms:
            c, t = self.idioms[src]
            if t.startswith("payload:"):          # payload of an optional: needs a proof of not-None
                var = t.split(":", 1)[1]
                if var not in known:
                    raise U(n, f"payload of `{var}` read where it may be None")
                return c, "Z"
            return c, t
        if isinstance(n, ast.Constant):
            if isinstance(n.value, bool):
                return ("true" if n.value else "false"), "bool"
            if isinstance(n.value, int):
                return (f"({n.value})" if n.value < 0 else str(n.value)), "Z"
            if n.value is None:
                return "None", "optZ"
            raise U(n, "constant")
        if isinstance(n, ast.Name):
            if n.id not in env:
                raise U(n, "unbound name")
            t = env[n.id]
            return n.id + "_", t
        if isinstance(n, ast.BinOp):
            a, ta = self.as_int(n.left, env, known)
            b, tb = self.as_int(n.right, env, known)
            ops = {ast.Add: "({} + {})", ast.Sub: "({} - {})", ast.Mult: "({} * {})", ast.BitAnd: "(Z.land {} {})",
                   ast.BitOr: "(Z.lor {} {})", ast.BitXor: "(Z.lxor {} {})", ast.Mod: "(Z.modulo {} {})",
                   ast.Pow: "(Z.pow {} {})", ast.LShift: "(Z.shiftl {} {})", ast.RShift: "(Z.shiftr {} {})"}
            for k, f in ops.items():
                if isinstance(n.op, k):
                    if k in (ast.Mod,) and not (isinstance(n.right, ast.BinOp) and isinstance(n.right.op, ast.Pow)):
                        raise U(n, "`%` by something that is not a power (could be zero)")
                    return f.format(a, b), "Z"
            raise U(n, "binary operator")
        if isinstance(n, ast.UnaryOp):
            if isinstance(n.op, ast.USub):
                a, _ = self.as_int(n.operand, env, known)
                return f"(- {a})", "Z"
            if isinstance(n.op, ast.Not):
                a = self.as_bool(n.operand, env, known)
                return f"(negb {a})", "bool"
            raise U(n, "unary operator")
        if isinstance(n, ast.Compare):
            if len(n.ops) == 2 and all(isinstance(o, (ast.Lt, ast.LtE)) for o in n.ops):
                a, _ = self.as_int(n.left, env, known)
                b, _ = self.as_int(n.comparators[0], env, known)
                c, _ = self.as_int(n.comparators[1], env, known)
                f = lambda o, x, y: f"({x} <? {y})" if isinstance(o, ast.Lt) else f"({x} <=? {y})"
                return f"({f(n.ops[0], a, b)} && {f(n.ops[1], b, c)})", "bool"
            if len(n.ops) != 1:
                raise U(n, "comparison chain")
            o, r = n.ops[0], n.comparators[0]
            if isinstance(o, (ast.Is, ast.IsNot)) and isinstance(r, ast.Constant) and r.value is None:
                a, t = self.expr(n.left, env, known)
                if t != "optZ":
                    raise U(n, "`is None` on a non-optional")
                return (f"(isnone {a})" if isinstance(o, ast.Is) else f"(issome {a})"), "bool"
            if isinstance(o, ast.In) and isinstance(r, ast.Tuple) and all(
                    isinstance(e, ast.Constant) and isinstance(e.value, int) for e in r.elts):
                a, _ = self.as_int(n.left, env, known)
                return "(" + " || ".join(f"({a} =? {e.value})" for e in r.elts) + ")", "bool"
            a, ta = self.expr(n.left, env, known)
            b, tb = self.expr(r, env, known)
            if ta == "ity" and tb == "ity" and isinstance(o, (ast.Eq, ast.NotEq)):
                c = f"(ity_eqb {a} {b})"
                return (c if isinstance(o, ast.Eq) else f"(negb {c})"), "bool"
            if ta == "Z" and tb == "Z":
                sym = {ast.Eq: "=?", ast.Lt: "<?", ast.LtE: "<=?", ast.Gt: ">?", ast.GtE: ">=?"}
                for k, s in sym.items():
                    if isinstance(o, k):
                        return f"({a} {s} {b})", "bool"
                if isinstance(o, ast.NotEq):
                    return f"(negb ({a} =? {b}))", "bool"
            raise U(n, f"comparison of {ta} and {tb}")
        if isinstance(n, ast.BoolOp):
            c, _, _ = self.cond(n, env, known)
            return c, "bool"
        if isinstance(n, ast.IfExp):
            c, ft, ff = self.cond(n.test, env, known)
            a, ta = self.expr(n.body, env, known | ft)
            b, tb = self.expr(n.orelse, env, known | ff)
            if ta != tb:
                raise U(n, "branches of different type")
            return f"(if {c} then {a} else {b})", ta
        if isinstance(n, ast.Call):
            fn = ast.unparse(n.func)
            if fn in self.calls and not n.keywords:
                coq, argt, rt = self.calls[fn]
                if len(argt) != len(n.args):
                    raise U(n, "arity")
                args = []
                for a, t in zip(n.args, argt):
                    if t == "Z":
                        args.append(self.as_int(a, env, known)[0])
                    else:
                        c, ct = self.expr(a, env, known)
                        if ct != t:
                            raise U(a, f"argument of type {ct}, expected {t}")
                        args.append(c)
                return "(" + " ".join([coq] + args) + ")", rt
            raise U(n, "call outside the binding table")
        if isinstance(n, ast.Tuple) and len(n.elts) == 2 and self.ret == "pairZ":
            a, _ = self.as_int(n.elts[0], env, known)
            b, _ = self.as_int(n.elts[1], env, known)
            return f"({a}, {b})", "pairZ"
        raise U(n, "expression")

    def as_int(self, n, env, known):
        c, t = self.expr(n, env, known)
        if t == "Z":
            return c, t
        if t == "optZ" and isinstance(n, ast.Name):      # an `int | None` used as an int
            if n.id not in known:
                raise U(n, f"`{n.id}` used as an int where it may be None")
            return f"(oget {c})", "Z"
        raise U(n, f"expected an int, got {t}")

    def as_bool(self, n, env, known):
        c, _, _ = self.cond(n, env, known)
        return c

    # ---- conditions: -> (coq bool, names known not-None if true, ... if false)
    def cond(self, n, env, known):
        if isinstance(n, ast.BoolOp):
            is_and = isinstance(n.op, ast.And)
            parts, acc_t, acc_f = [], set(), set()
            kn = set(known)
            for v in n.values:
                c, ft, ff = self.cond(v, env, kn)
                parts.append(c)
                if is_and:
                    kn |= ft
                    acc_t |= ft
                else:
                    kn |= ff
                    acc_f |= ff
            return "(" + (" && " if is_and else " || ").join(parts) + ")", (acc_t if is_and else set()), (
                acc_f if not is_and else set())
        if isinstance(n, ast.UnaryOp) and isinstance(n.op, ast.Not):
            c, ft, ff = self.cond(n.operand, env, known)
            return f"(negb {c})", ff, ft
        if isinstance(n, ast.Compare) and len(n.ops) == 1 and isinstance(n.ops[0], (ast.Is, ast.IsNot)) \
                and isinstance(n.comparators[0], ast.Constant) and n.comparators[0].value is None \
                and isinstance(n.left, ast.Name):
            c, _ = self.expr(n, env, known)
            nm = {n.left.id}
            return (c, set(), nm) if isinstance(n.ops[0], ast.Is) else (c, nm, set())
        if isinstance(n, ast.Call) and ast.unparse(n.func) == "isa" and len(n.args) == 2 \
                and ast.unparse(n.args[1]) == "IntegerAttr" and isinstance(n.args[0], ast.Name):
            # the model's constants are scalar integer attributes: isa(x, IntegerAttr) <-> x is not None
            c, t = self.expr(n.args[0], env, known)
            if t != "optZ":
                raise U(n, "isa on a non-optional")
            return f"(issome {c})", {n.args[0].id}, set()
        c, t = self.expr(n, env, known)
        if t == "bool":
            return c, set(), set()
        if t == "Z":                                    # truthiness of an int
            return f"(negb ({c} =? 0))", set(), set()
        if t == "optZ" and isinstance(n, ast.Name) and n.id in known:
            return f"(negb (oget {c} =? 0))", set(), set()
        raise U(n, f"condition of type {t}")

    # ---- walrus hoisting: returns list of (name, coq, type) and the expression with walruses replaced
    def hoist(self, n, env, known):
        lets = []
        if not any(isinstance(x, ast.NamedExpr) for x in ast.walk(n)):
            return [], n, dict(env)          # nothing to hoist: keep the original node (and its line number)

        class R(ast.NodeTransformer):
            def visit_NamedExpr(s, node):
                node = s.generic_visit(node)
                lets.append((node.target.id, node.value))
                return ast.copy_location(ast.Name(id=node.target.id, ctx=ast.Load()), node)

        n2 = R().visit(ast.parse(ast.unparse(n), mode="eval").body)
        ast.fix_missing_locations(n2)
        out = []
        env = dict(env)
        for name, val in lets:
            c, t = self.expr(val, env, known)
            env[name] = t
            out.append((name, c, t))
        return out, n2, env

    # ---- statements (CPS): returns a Coq term of type self.ret
    def stmts(self, body, env, known, out):
        if not body:
            return self.fall_off(out)
        s, rest = body[0], body[1:]
        src = ast.unparse(s)
        if isinstance(s, ast.Expr) and isinstance(s.value, ast.Constant) and isinstance(s.value.value, str):
            return self.stmts(rest, env, known, out)
        if src in self.stmt_idioms:
            act = self.stmt_idioms[src]
            if act == "skip":
                return self.stmts(rest, env, known, out)
            if act[0] == "out":
                if self.ret != "out":
                    raise U(s, "rewriter action in a value function")
                c = act[1]
                for var in act[2]:
                    if var not in known:
                        raise U(s, f"payload of `{var}` read where it may be None")
                self.uid += 1
                o2 = f"out{self.uid}"
                return f"let {o2} := seq_out {out} {c} in\n{self.stmts(rest, env, known, o2)}"
        if isinstance(s, ast.Assign) and len(s.targets) == 1 and isinstance(s.targets[0], ast.Name):
            lets, val, env2 = self.hoist(s.value, env, known)
            c, t = self.expr(val, env2, known)
            env2[s.targets[0].id] = t
            kn = set(known)
            kn.discard(s.targets[0].id)
            if t == "optZ" and isinstance(s.value, ast.Name) and s.value.id in known:
                kn.add(s.targets[0].id)
            pre = "".join(f"let {n}_ := {cc} in\n" for n, cc, _ in lets)
            return pre + f"let {s.targets[0].id}_ := {c} in\n" + self.stmts(rest, env2, kn, out)
        if isinstance(s, ast.Assign) and len(s.targets) == 1 and isinstance(s.targets[0], ast.Tuple) \
                and len(s.targets[0].elts) == 2 and all(isinstance(e, ast.Name) for e in s.targets[0].elts):
            c, t = self.expr(s.value, env, known)
            if t != "pairZ":
                raise U(s, "tuple assignment from a non-pair")
            a, b = (e.id for e in s.targets[0].elts)
            env2 = dict(env)
            env2[a] = env2[b] = "Z"
            return f"let '({a}_, {b}_) := {c} in\n" + self.stmts(rest, env2, known - {a, b}, out)
        if isinstance(s, ast.If):
            lets, test, env2 = self.hoist(s.test, env, known)
            kn = set(known) - {n for n, _, _ in lets}
            c, ft, ff = self.cond(test, env2, kn)
            pre = "".join(f"let {n}_ := {cc} in\n" for n, cc, _ in lets)
            a = self.stmts(list(s.body) + rest, env2, kn | ft, out)
            b = self.stmts(list(s.orelse) + rest, env2, kn | ff, out)
            return pre + f"if {c}\nthen ({a})\nelse ({b})"
        if isinstance(s, ast.Return):
            if s.value is None or (isinstance(s.value, ast.Constant) and s.value.value is None):
                return self.fall_off(out)
            rsrc = ast.unparse(s.value)
            if self.ret == "out":
                if rsrc in self.idioms and self.idioms[rsrc][1] == "out":
                    return self.idioms[rsrc][0]
                lets, val, env2 = self.hoist(s.value, env, known)
                c, t = self.expr(val, env2, known)
                if t != "out":
                    raise U(s, "return value is not a rewrite outcome")
                return c
            lets, val, env2 = self.hoist(s.value, env, known)
            if self.ret == "optZ":
                c, t = self.expr(val, env2, known)
                if t == "Z":
                    return f"Some {c}"
                if t == "optZ":
                    return c
                raise U(s, f"return of type {t}")
            if self.ret == "Z":
                return self.as_int(val, env2, known)[0]
            if self.ret == "bool":
                return self.as_bool(val, env2, known)
            c, t = self.expr(val, env2, known)
            if t != self.ret:
                raise U(s, f"return of type {t}, expected {self.ret}")
            return c
        raise U(s, "statement")

    def fall_off(self, out):
        if self.ret == "out":
            return out
        if self.ret == "optZ":
            return "None"
        raise Untranslatable(f"{self.name}: control reaches the end of a function that must return a value")

    def define(self, body):
        env = {}
        t = self.stmts(body, env, set(), "NoChange")
        ps = " ".join(f"({n} : {ty})" for n, ty in self.params)
        rt = {"Z": "Z", "bool": "bool", "optZ": "option Z", "out": "outcome", "pairZ": "(Z * Z)"}[self.ret]
        return f"Definition {self.name} {ps} : {rt} :=\n{t}.\n"


# ----------------------------------------------------------------------------- source access
def parse(rel):
    p = REPO / rel
    return ast.parse(p.read_text(), filename=str(p))


def top_function(mod, name):
    for n in mod.body:
        if isinstance(n, ast.FunctionDef) and n.name == name:
            return n
    raise Untranslatable(f"function {name} not found")


def class_def(mod, name):
    for n in mod.body:
        if isinstance(n, ast.ClassDef) and n.name == name:
            return n
    raise Untranslatable(f"class {name} not found")


def method(cls, name):
    found = None
    for n in cls.body:
        if isinstance(n, ast.FunctionDef) and n.name == name \
                and not any(ast.unparse(d) == "overload" for d in n.decorator_list):
            found = n
    return found


def body_of(fn):
    return list(fn.body)


def param_names(fn):
    a = fn.args
    if a.vararg or a.kwarg:
        raise U(fn, "varargs")
    return [x.arg for x in a.posonlyargs + a.args + a.kwonlyargs]


# ----------------------------------------------------------------------------- the model file
HEADER = """(* GENERATED by harness/translate/c14_tr.py from the working tree of /repo -- do not edit.
   Sources: xdsl/utils/comparisons.py, xdsl/dialects/builtin.py (IntegerType.normalized_value,
   IntegerAttr.__init__), xdsl/dialects/arith.py (class walk below SignlessIntegerBinaryOperation),
   xdsl/transforms/canonicalization_patterns/arith.py. *)
From Coq Require Import ZArith Bool List.
From XV Require Import C14.Pre.
Import ListNotations.
Local Open Scope Z_scope.
Local Open Scope bool_scope.

"""


def int_functions(out):
    cmp_mod = parse("xdsl/utils/comparisons.py")
    calls = {}
    for name in ("unsigned_upper_bound", "signed_lower_bound", "signed_upper_bound"):
        fn = top_function(cmp_mod, name)
        ps = param_names(fn)
        f = Fn(name, [(p + "_", "Z") for p in ps], "Z", {}, dict(calls, max=("Z.max", ["Z", "Z"], "Z")))
        env = {p: "Z" for p in ps}
        out.append(f"Definition {name} {' '.join(f'({p}_ : Z)' for p in ps)} : Z :=\n"
                   + f.stmts(body_of(fn), env, set(), "NoChange") + ".\n")
        calls[name] = (name, ["Z"] * len(ps), "Z")
    fn = top_function(cmp_mod, "signless_value_range")
    ps = param_names(fn)
    f = Fn("signless_value_range", [(p + "_", "Z") for p in ps], "pairZ", {}, calls)
    out.append(f"Definition signless_value_range {' '.join(f'({p}_ : Z)' for p in ps)} : Z * Z :=\n"
               + f.stmts(body_of(fn), {p: "Z" for p in ps}, set(), "NoChange") + ".\n")
    calls["signless_value_range"] = ("signless_value_range", ["Z"], "pairZ")

    bmod = parse("xdsl/dialects/builtin.py")
    # IntegerType.value_range must dispatch on the signedness; for a signless type that is signless_value_range
    vr = method(class_def(bmod, "IntegerType"), "value_range")
    if vr is None or ast.unparse(vr.body[-1]) != "return self.signedness.data.value_range(self.width.data)":
        raise Untranslatable("IntegerType.value_range is no longer `self.signedness.data.value_range(self.width.data)`")
    sig = class_def(bmod, "Signedness")
    svr = method(sig, "value_range")
    ok = svr is not None and any(
        "SIGNLESS" in ast.unparse(c.pattern) and "signless_value_range" in ast.unparse(c.body[0])
        for st in svr.body if isinstance(st, ast.Match) for c in st.cases)
    if not ok:
        raise Untranslatable("Signedness.value_range no longer maps SIGNLESS to signless_value_range")
    nv = method(class_def(bmod, "IntegerType"), "normalized_value")
    if nv is None or param_names(nv) != ["self", "value", "truncate_bits"]:
        raise Untranslatable("IntegerType.normalized_value signature changed")
    f = Fn("normalized_value", [("bitwidth_", "Z"), ("value_", "Z"), ("truncate_bits_", "bool")], "optZ",
           {"self.value_range()": ("(signless_value_range bitwidth_)", "pairZ"),
            "self.bitwidth": ("bitwidth_", "Z"),
            "self.signedness.data != Signedness.UNSIGNED": ("true", "bool")},
           calls)
    out.append("(* IntegerType.normalized_value for a SIGNLESS type of width `bitwidth` *)\n"
               "Definition normalized_value (bitwidth_ value_ : Z) (truncate_bits_ : bool) : option Z :=\n"
               + f.stmts(body_of(nv), {"value": "Z", "truncate_bits": "bool"}, set(), "NoChange") + ".\n")
    ia = method(class_def(bmod, "IntegerAttr"), "__init__")
    if ia is None or param_names(ia) != ["self", "value", "value_type", "truncate_bits"]:
        raise Untranslatable("IntegerAttr.__init__ signature changed")
    # value is an int and value_type a type object in the model: the two coercion prologues are identities
    f = Fn("int_attr", [], "Z", {}, {})
    want = [
        "if isinstance(value_type, int):\n    value_type = IntegerType(value_type)",
        "if not isinstance(value, int):\n    value = value.data",
        "if not isinstance(value_type, IndexType):\n    normalized_value = value_type.normalized_value(value, truncate_bits=truncate_bits)\n    if normalized_value is not None:\n        value = normalized_value",
        "super().__init__(IntAttr(value), value_type)",
    ]
    got = [ast.unparse(s) for s in ia.body]
    if got != want:
        raise Untranslatable("IntegerAttr.__init__ body changed:\n" + "\n".join(got))
    out.append("(* IntegerAttr.__init__: the stored value.data (statement-for-statement; the first two statements are\n"
               "   coercions of `int` widths / IntAttr values and are identities here) *)\n"
               "Definition int_attr (value_type_ : ity) (value_ : Z) (truncate_bits_ : bool) : Z :=\n"
               "match value_type_ with\n| TIndex => value_\n| TInt w_ =>\n"
               "  let normalized_value_ := normalized_value w_ value_ truncate_bits_ in\n"
               "  if issome normalized_value_ then oget normalized_value_ else value_\nend.\n")
    return calls


def class_walk(amod):
    classes = {n.name: n for n in amod.body if isinstance(n, ast.ClassDef)}
    root = "SignlessIntegerBinaryOperation"

    def bases(c):
        return [ast.unparse(b).split("[")[0] for b in classes[c].bases]

    def descends(c):
        return c == root or any(b in classes and descends(b) for b in bases(c))

    concrete = []
    for name, c in classes.items():
        if name != root and descends(name) and any(ast.unparse(d) == "irdl_op_definition" for d in c.decorator_list):
            concrete.append(name)

    def resolve(c, meth):
        seen = [c]
        while seen:
            cur = seen.pop(0)
            m = method(classes[cur], meth)
            if m is not None:
                return m
            seen += [b for b in bases(cur) if b in classes]
        raise Untranslatable(f"{c}.{meth} not found")

    def traits(c):
        for st in classes[c].body:
            if isinstance(st, ast.Assign) and ast.unparse(st.targets[0]) == "traits":
                return ast.unparse(st.value)
        return ""

    def opname(c):
        for st in classes[c].body:
            if isinstance(st, ast.Assign) and ast.unparse(st.targets[0]) == "name":
                return st.value.value
        raise Untranslatable(f"{c} has no name")

    return classes, concrete, resolve, traits, opname


def generate() -> tuple[str, dict]:
    out = [HEADER]
    calls = int_functions(out)
    amod = parse("xdsl/dialects/arith.py")
    classes, concrete, resolve, traits, opname = class_walk(amod)
    info = {"classes": concrete, "names": {c: opname(c) for c in concrete}}
    out.append("Inductive binop :=\n" + "\n".join(f"| {c}" for c in concrete) + ".\n")
    out.append("Definition all_binops : list binop := [" + "; ".join(concrete) + "]%list.\n")
    out.append("Definition commutative (o : binop) : bool :=\nmatch o with\n"
               + "\n".join(f"| {c} => {'true' if 'Commutative()' in traits(c) else 'false'}" for c in concrete)
               + "\nend.\n")

    out.append("(* the op class carries the Pure trait (constant-fold-interp only rewrites Pure ops) *)\n"
               "Definition pure_trait (o : binop) : bool :=\nmatch o with\n"
               + "\n".join(f"| {c} => {'true' if 'Pure()' in traits(c) else 'false'}" for c in concrete)
               + "\nend.\n")
    # which classes have an interpreter implementation: @impl(arith.X) decorators in interpreters/arith.py
    imod = parse("xdsl/interpreters/arith.py")
    impls = set()
    for fn in class_def(imod, "ArithFunctions").body:
        if isinstance(fn, ast.FunctionDef):
            for d in fn.decorator_list:
                if isinstance(d, ast.Call) and ast.unparse(d.func) == "impl" and len(d.args) == 1:
                    impls.add(ast.unparse(d.args[0]).removeprefix("arith."))
    info["interp_impls"] = sorted(impls)
    out.append("(* xdsl/interpreters/arith.py has an @impl for the class *)\n"
               "Definition interp_impl (o : binop) : bool :=\nmatch o with\n"
               + "\n".join(f"| {c} => {'true' if c in impls else 'false'}" for c in concrete)
               + "\nend.\n")

    # py_operation / is_right_unit / is_right_zero
    def per_class(meth, params, ret, mk):
        arms = []
        for c in concrete:
            m = resolve(c, meth)
            if not any(ast.unparse(d) == "staticmethod" for d in m.decorator_list):
                raise U(m, f"{c}.{meth} is not a staticmethod")
            f, env = mk(m)
            arms.append(f"| {c} => (* arith.py:{m.lineno} *)\n" + f.stmts(body_of(m), env, set(), "NoChange"))
        rt = {"optZ": "option Z", "bool": "bool"}[ret]
        out.append(f"Definition {meth} (o : binop) {params} : {rt} :=\nmatch o with\n" + "\n".join(arms) + "\nend.\n")

    def mk_pyop(m):
        if param_names(m) != ["lhs", "rhs"]:
            raise U(m, "py_operation parameters")
        return Fn("py_operation", [], "optZ", {}, {}), {"lhs": "Z", "rhs": "Z"}

    def mk_attr(m):
        if param_names(m) != ["attr"]:
            raise U(m, "parameters")
        return Fn(m.name, [], "bool",
                  {"attr.value.data": ("a_", "Z"),
                   "attr == IntegerAttr(1, attr.type)": ("(a_ =? int_attr ty_ 1 false)", "bool"),
                   "attr == IntegerAttr(0, attr.type)": ("(a_ =? int_attr ty_ 0 false)", "bool")}, {}), {}

    per_class("py_operation", "(lhs_ rhs_ : Z)", "optZ", mk_pyop)
    per_class("is_right_unit", "(ty_ : ity) (a_ : Z)", "bool", mk_attr)
    per_class("is_right_zero", "(ty_ : ity) (a_ : Z)", "bool", mk_attr)

    # SignlessIntegerBinaryOperation.fold
    fold = method(classes["SignlessIntegerBinaryOperation"], "fold")
    f = Fn("fold", [("o", "binop"), ("ty_", "ity"), ("lhs_c", "option Z"), ("rhs_c", "option Z")], "out",
           {"ConstantLike.get_constant_value(self.lhs)": ("lhs_c", "optZ"),
            "ConstantLike.get_constant_value(self.rhs)": ("rhs_c", "optZ"),
            "lhs.value.data": ("(oget lhs_)", "payload:lhs"),
            "rhs.value.data": ("(oget rhs_)", "payload:rhs"),
            "self.has_trait(Commutative)": ("(commutative o)", "bool"),
            "(self.lhs,)": ("ReplLhs", "out"), "(self.rhs,)": ("ReplRhs", "out")},
           {"self.py_operation": ("py_operation o", ["Z", "Z"], "optZ")},
           {"assert lhs.type == rhs.type": "skip"})
    f.idioms["self.is_right_unit(rhs)"] = ("(is_right_unit o ty_ (oget rhs_))", "payload:rhs")
    f.idioms["self.is_right_unit(lhs)"] = ("(is_right_unit o ty_ (oget lhs_))", "payload:lhs")
    f.idioms["(IntegerAttr(result, lhs.type, truncate_bits=True),)"] = ("(ReplConst (int_attr ty_ (oget result_) true))", "out")
    body = body_of(fold)
    out.append("(* SignlessIntegerBinaryOperation.fold; lhs_c / rhs_c = ConstantLike.get_constant_value of the operand\n"
               "   (Some stored-value for a scalar integer constant of the operand type, None otherwise) *)\n"
               + FoldFn(f).define(body))

    # canonicalization patterns
    pmod = parse("xdsl/transforms/canonicalization_patterns/arith.py")
    umod = parse("xdsl/transforms/canonicalization_patterns/utils.py")
    ceo = ast.unparse(top_function(umod, "const_evaluate_operand"))
    if "attr.value.data" not in ceo or "const_evaluate_operand_attribute(operand)" not in ceo:
        raise Untranslatable("const_evaluate_operand changed")
    cea = ast.unparse(top_function(umod, "const_evaluate_operand_attribute"))
    if "isinstance((op := operand.owner), arith.ConstantOp)" not in cea or "isinstance((val := op.value), IntegerAttr)" not in cea:
        raise Untranslatable("const_evaluate_operand_attribute changed")

    def pattern(cls, coq_name, params, idioms, calls_, stmt_idioms, comment):
        m = method(class_def(pmod, cls), "match_and_rewrite")
        if m is None:
            raise Untranslatable(f"{cls}.match_and_rewrite not found")
        ff = FoldFn(Fn(coq_name, params, "out", idioms, calls_, stmt_idioms))
        out.append(f"(* {cls} (canonicalization_patterns/arith.py:{m.lineno}); {comment} *)\n" + ff.define(body_of(m)))

    opt = "option Z"
    pattern("SignlessIntegerBinaryOperationZeroOrUnitRight", "pat_zero_or_unit_right",
            [("o", "binop"), ("ty_", "ity"), ("rhs_c", opt)],
            {"const_evaluate_operand_attribute(op.rhs)": ("rhs_c", "optZ"),
             "op.is_right_zero(rhs)": ("(is_right_zero o ty_ (oget rhs_))", "payload:rhs"),
             "op.is_right_unit(rhs)": ("(is_right_unit o ty_ (oget rhs_))", "payload:rhs")},
            {},
            {"rewriter.replace(op, (), (op.rhs,))": ("out", "ReplRhs", []),
             "rewriter.replace(op, (), (op.lhs,))": ("out", "ReplLhs", [])},
            "rhs_c = stored value of the rhs when it is an arith.constant with an IntegerAttr")
    pattern("SignlessIntegerBinaryOperationConstantProp", "pat_constant_prop",
            [("o", "binop"), ("ty_", "ity"), ("lhs_c", opt), ("rhs_c", opt)],
            {"const_evaluate_operand(op.lhs)": ("lhs_c", "optZ"),
             "const_evaluate_operand(op.rhs)": ("rhs_c", "optZ"),
             "op.has_trait(Commutative)": ("(commutative o)", "bool")},
            {"op.py_operation": ("py_operation o", ["Z", "Z"], "optZ")},
            {"rewriter.replace(op, op.__class__(op.rhs, op.lhs))": ("out", "NewSwapped", []),
             "assert isinstance(op.result.type, IntegerType | IndexType)": "skip",
             "rewriter.replace(op, arith.ConstantOp.from_int_and_width(res, op.result.type, truncate_bits=True))":
                 ("out", "(ReplConst (int_attr ty_ (oget res_) true))", ["res"])},
            "from_int_and_width(v, t, truncate_bits=True) = ConstantOp with IntegerAttr(v, t, truncate_bits=True)")
    fiw = ast.unparse(method(class_def(amod, "ConstantOp"), "from_int_and_width"))
    if "IntegerAttr(value, value_type, truncate_bits=truncate_bits)" not in fiw:
        raise Untranslatable("ConstantOp.from_int_and_width changed")
    pattern("SelectConstPattern", "pat_select_const", [("cond_c", opt)],
            {"const_evaluate_operand(op.cond)": ("cond_c", "optZ"),
             "(op.lhs,)": ("ReplLhs", "out"), "(op.rhs,)": ("ReplRhs", "out")},
            {}, {"rewriter.replace(op, (), new_results)": ("out", "new_results_", [])},
            "cond_c = stored value of the condition when it is a constant")
    pattern("SelectTrueFalsePattern", "pat_select_true_false",
            [("ty_", "ity"), ("lhs_c", opt), ("rhs_c", opt)],
            {"op.result.type": ("ty_", "ity"), "IntegerType(1)": ("(TInt 1)", "ity"),
             "const_evaluate_operand(op.lhs)": ("lhs_c", "optZ"),
             "const_evaluate_operand(op.rhs)": ("rhs_c", "optZ")},
            {}, {"rewriter.replace(op, (), (op.cond,))": ("out", "ReplCond", []),
                 "rewriter.replace(op, arith.XOrIOp(op.cond, op.rhs))": ("out", "NewXoriCondRhs", [])},
            "ty_ = result type; lhs_c / rhs_c = constant operands")
    pattern("SelectSamePattern", "pat_select_same", [("same_", "bool")],
            {"op.lhs == op.rhs": ("same_", "bool")}, {},
            {"rewriter.replace(op, (), (op.lhs,))": ("out", "ReplLhs", [])},
            "same_ = the two value operands are the same SSA value")
    fb = ast.unparse(method(class_def(parse("xdsl/dialects/builtin.py"), "IntegerAttr"), "from_bool"))
    if "return IntegerAttr(value, 1)" not in fb:
        raise Untranslatable("IntegerAttr.from_bool changed")
    pattern("ApplyCmpiPredicateToEqualOperands", "pat_cmpi_equal_operands", [("same_", "bool"), ("pred_", "Z")],
            {"op.lhs != op.rhs": ("(negb same_)", "bool"), "op.predicate.value.data": ("pred_", "Z")}, {},
            {"rewriter.replace(op, arith.ConstantOp(BoolAttr.from_bool(val)))":
                 ("out", "(ReplConst (int_attr (TInt 1) (if val_ then 1 else 0) false))", [])},
            "BoolAttr.from_bool(v) = IntegerAttr(v, 1); Python True = 1")
    info["patterns"] = ["SignlessIntegerBinaryOperationZeroOrUnitRight", "SignlessIntegerBinaryOperationConstantProp",
                        "SelectConstPattern", "SelectTrueFalsePattern", "SelectSamePattern",
                        "ApplyCmpiPredicateToEqualOperands"]
    info["functions"] = ["unsigned_upper_bound", "signed_lower_bound", "signed_upper_bound", "signless_value_range",
                         "IntegerType.normalized_value", "IntegerAttr.__init__",
                         "SignlessIntegerBinaryOperation.fold"] + [
        f"{c}.{m}" for c in concrete for m in ("py_operation", "is_right_unit", "is_right_zero")]
    return "\n".join(out), info


class FoldFn:
    """wrapper: payload idioms typed by what they produce"""

    def __init__(self, f: Fn):
        self.f = f
        orig = f.expr

        def expr(n, env, known):
            src = ast.unparse(n)
            if src in f.idioms and f.idioms[src][1].startswith("payload:") and "is_right" in src:
                c, t = f.idioms[src]
                var = t.split(":", 1)[1]
                if var not in known:
                    raise U(n, f"payload of `{var}` read where it may be None")
                return c, "bool"
            return orig(n, env, known)

        f.expr = expr

    def define(self, body):
        return self.f.define(body)


def write(path: Path) -> dict:
    from harness.common import write_if_changed
    text, info = generate()
    write_if_changed(path, text)
    return info


if __name__ == "__main__":
    t, i = generate()
    print(t)
