"""regex2coq -- fail-closed translator from Python `re` pattern literals to the regex AST of
coq/C07/Regex.v (DESIGN.md section 4.1).

* `extract(path, names)` finds `NAME = re.compile(<expr>[, flags])` assignments by `ast` (module level or
  class body); `<expr>` may be a string literal or a `+`-concatenation of literals and of names bound to
  string literals earlier in the same scope.  Flags: only `re.ASCII` (or none).
* `parse(pattern, ascii)` is a small parser for the subset: literals, escapes, `.`, classes `[...]`
  (ranges, negation, `\\w \\d \\s` and escapes inside), groups `( )` / `(?: )`, alternation, greedy
  quantifiers `* + ? {n} {n,m}`, the anchor `$`.  Everything else (lazy/possessive quantifiers,
  look-around, back-references, `^`, `\\b`, named groups, inline flags) raises `Untranslatable`.
* `to_coq(node)` prints the AST as a Coq term;  `a+` is `Cat a (Star a)`, `a?` is `Alt a Eps`,
  `a{n}` is the n-fold `Cat`; concatenations nest to the right.
The same AST has a python evaluator (`ref_match`) mirroring Regex.bt used only by unit checks of the
translator itself; the tie to CPython's `re` is the correspondence family `regex-vs-re` of the C07 check.
"""
from __future__ import annotations

import ast
from dataclasses import dataclass
from pathlib import Path

from harness.common import Untranslatable

MAXCP = 0x10FFFF


# ---------------------------------------------------------------------------------- extraction
@dataclass
class Extracted:
    name: str
    pattern: str
    ascii: bool
    lineno: int
    end_lineno: int


def _const_str(node, env, where):
    if isinstance(node, ast.Constant) and isinstance(node.value, str):
        return node.value
    if isinstance(node, ast.Name) and node.id in env:
        return env[node.id]
    if isinstance(node, ast.BinOp) and isinstance(node.op, ast.Add):
        return _const_str(node.left, env, where) + _const_str(node.right, env, where)
    raise Untranslatable(f"{where}: pattern expression is not a string literal / concatenation "
                         f"(line {getattr(node, 'lineno', '?')}: {ast.dump(node)[:80]})")


def _flags(node, where):
    """-> ascii?  Only re.ASCII / re.A accepted."""
    if isinstance(node, ast.Attribute) and isinstance(node.value, ast.Name) and node.value.id == "re" \
            and node.attr in ("ASCII", "A"):
        return True
    raise Untranslatable(f"{where}: unsupported regex flags {ast.dump(node)[:80]}")


def _scan(body, out, where):
    env: dict[str, str] = {}
    for st in body:
        if isinstance(st, ast.ClassDef):
            _scan(st.body, out, where)
            continue
        if not (isinstance(st, ast.Assign) and len(st.targets) == 1 and isinstance(st.targets[0], ast.Name)):
            continue
        name = st.targets[0].id
        v = st.value
        if isinstance(v, ast.Constant) and isinstance(v.value, str):
            env[name] = v.value
            continue
        if isinstance(v, ast.Call) and isinstance(v.func, ast.Attribute) and v.func.attr == "compile" \
                and isinstance(v.func.value, ast.Name) and v.func.value.id == "re":
            w = f"{where}:{name}"
            if v.keywords or not 1 <= len(v.args) <= 2:
                raise Untranslatable(f"{w}: unsupported re.compile call shape")
            pat = _const_str(v.args[0], env, w)
            asc = _flags(v.args[1], w) if len(v.args) == 2 else False
            out[name] = Extracted(name, pat, asc, st.lineno, st.end_lineno or st.lineno)


def extract(path: Path, required: list[str] | None = None) -> dict[str, Extracted]:
    """All `NAME = re.compile(...)` of the file; every name in `required` must be present."""
    tree = ast.parse(Path(path).read_text())
    out: dict[str, Extracted] = {}
    _scan(tree.body, out, Path(path).name)
    for n in required or []:
        if n not in out:
            raise Untranslatable(f"{path}: no `{n} = re.compile(...)` found")
    return out


# ---------------------------------------------------------------------------------- regex AST
# nodes: ("eps",) ("chr", cset) ("cat", a, b) ("alt", a, b) ("star", a) ("end",)
# cset: (neg: bool, ranges: tuple[(lo,hi)], named: tuple[str])   named in {"UWord","UDigit","USpace"}

ASCII_CLASSES = {
    "d": ((48, 57),),
    "w": ((48, 57), (65, 90), (95, 95), (97, 122)),
    "s": ((9, 13), (32, 32)),
}
NAMED = {"d": "UDigit", "w": "UWord", "s": "USpace"}
SIMPLE_ESC = {"n": 10, "t": 9, "r": 13, "f": 12, "v": 11, "a": 7, "0": 0}
PUNCT_OK = set("\\\"'.-$^*+?()[]{}|/#!@%&~:;,<>= _`")


class _P:
    def __init__(self, pat: str, ascii_: bool, where: str):
        self.p, self.i, self.ascii, self.where = pat, 0, ascii_, where

    def err(self, msg):
        raise Untranslatable(f"{self.where}: {msg} at offset {self.i} of pattern {self.p!r}")

    def peek(self):
        return self.p[self.i] if self.i < len(self.p) else None

    def eat(self):
        c = self.peek()
        if c is None:
            self.err("unexpected end of pattern")
        self.i += 1
        return c

    # alternation
    def alt(self):
        branches = [self.seq()]
        while self.peek() == "|":
            self.i += 1
            branches.append(self.seq())
        node = branches[-1]
        for b in reversed(branches[:-1]):
            node = ("alt", b, node)
        return node

    def seq(self):
        items = []
        while self.peek() is not None and self.peek() not in "|)":
            items.append(self.quantified())
        if not items:
            return ("eps",)
        node = items[-1]
        for it in reversed(items[:-1]):
            node = ("cat", it, node)
        return node

    def quantified(self):
        a = self.atom()
        c = self.peek()
        if c in ("*", "+", "?"):
            self.i += 1
            if self.peek() in ("?", "+"):
                self.err("lazy/possessive quantifier")
            if a == ("end",):
                self.err("quantified anchor")
            if c == "*":
                return ("star", a)
            if c == "+":
                return ("cat", a, ("star", a))
            return ("alt", a, ("eps",))
        if c == "{":
            j = self.p.find("}", self.i)
            body = self.p[self.i + 1:j] if j > 0 else ""
            parts = body.split(",")
            if j < 0 or not all(x.isascii() and x.isdigit() for x in parts) or len(parts) > 2:
                self.err("unsupported {..} quantifier")
            self.i = j + 1
            if self.peek() in ("?", "+"):
                self.err("lazy/possessive quantifier")
            lo = int(parts[0])
            hi = int(parts[-1])
            if hi < lo or hi > 16:
                self.err("unsupported {..} bounds")
            node = ("eps",)
            for _ in range(hi - lo):      # optional copies, innermost last: a?(a?(...))
                node = ("alt", ("cat", a, node) if node != ("eps",) else a, ("eps",))
            for _ in range(lo):
                node = ("cat", a, node) if node != ("eps",) else a
            return node
        return a

    def atom(self):
        c = self.eat()
        if c == "(":
            if self.peek() == "?":
                if self.p[self.i:self.i + 2] != "?:":
                    self.err("unsupported group extension")
                self.i += 2
            node = self.alt()
            if self.eat() != ")":
                self.err("expected )")
            return node
        if c == "[":
            return ("chr", self.cls())
        if c == ".":
            return ("chr", (True, ((10, 10),), ()))
        if c == "$":
            return ("end",)
        if c == "\\":
            return ("chr", self.escape(False))
        if c in "^*+?{})|":
            self.err(f"unsupported metacharacter {c!r}")
        return ("chr", (False, ((ord(c), ord(c)),), ()))

    def escape(self, in_class):
        """after a backslash -> cset"""
        c = self.eat()
        if c in "dws":
            if self.ascii:
                return (False, ASCII_CLASSES[c], ())
            return (False, (), (NAMED[c],))
        if c in SIMPLE_ESC and not (c == "0" and (self.peek() or "x").isdigit()):
            return (False, ((SIMPLE_ESC[c], SIMPLE_ESC[c]),), ())
        if c == "x":
            h = self.p[self.i:self.i + 2]
            if len(h) != 2 or any(x not in "0123456789abcdefABCDEF" for x in h):
                self.err("bad \\x escape")
            self.i += 2
            return (False, ((int(h, 16), int(h, 16)),), ())
        if c.isascii() and (c.isalnum()):
            self.err(f"unsupported escape \\{c}")
        return (False, ((ord(c), ord(c)),), ())

    def cls(self):
        neg = False
        if self.peek() == "^":
            neg = True
            self.i += 1
        ranges, named = [], []
        first = True
        while True:
            c = self.eat()
            if c == "]" and not first:
                break
            first = False
            if c == "[" and self.peek() == ":":
                self.err("posix class")
            if c == "\\":
                cs = self.escape(True)
                if cs[2] or len(cs[1]) != 1 or cs[1][0][0] != cs[1][0][1]:
                    if self.peek() == "-" and self.p[self.i + 1:self.i + 2] != "]":
                        self.err("class escape as range endpoint")
                    ranges += list(cs[1])
                    named += list(cs[2])
                    continue
                lo = cs[1][0][0]
            else:
                lo = ord(c)
            if self.peek() == "-" and self.p[self.i + 1:self.i + 2] not in ("]", ""):
                self.i += 1
                d = self.eat()
                if d == "\\":
                    cs = self.escape(True)
                    if cs[2] or len(cs[1]) != 1 or cs[1][0][0] != cs[1][0][1]:
                        self.err("class escape as range endpoint")
                    hi = cs[1][0][0]
                else:
                    hi = ord(d)
                if hi < lo:
                    self.err("bad range")
                ranges.append((lo, hi))
            else:
                ranges.append((lo, lo))
        return (neg, tuple(ranges), tuple(named))


def parse(pattern: str, ascii_: bool = False, where: str = "<pattern>"):
    p = _P(pattern, ascii_, where)
    node = p.alt()
    if p.i != len(pattern):
        p.err("unbalanced )")
    return node


# ---------------------------------------------------------------------------------- printing
def _z(n):
    return f"{n}%Z"


def cset_to_coq(cs):
    neg, ranges, named = cs
    rs = "; ".join(f"({_z(a)}, {_z(b)})" for a, b in ranges)
    ns = "; ".join(named)
    return f"(CS {'true' if neg else 'false'} [{rs}] [{ns}])"


def to_coq(n) -> str:
    t = n[0]
    if t == "eps":
        return "Eps"
    if t == "end":
        return "EndA"
    if t == "chr":
        return f"(Chr {cset_to_coq(n[1])})"
    if t == "star":
        return f"(Star {to_coq(n[1])})"
    if t in ("cat", "alt"):
        return f"({'Cat' if t == 'cat' else 'Alt'} {to_coq(n[1])} {to_coq(n[2])})"
    raise Untranslatable(f"unknown node {n!r}")


# ---------------------------------------------------------------------------------- reference evaluator
def cs_mem(cs, x, uni):
    neg, ranges, named = cs
    hit = any(a <= x <= b for a, b in ranges) or any(uni(nm, x) for nm in named)
    return hit != neg


def ref_match(node, s, i, uni, budget=None):
    """Backtracking matcher with the same exploration order and step counting as Regex.bt.
    Returns (steps, end index or None).  `budget` = max steps (raises TimeoutError)."""
    import sys
    old_limit = sys.getrecursionlimit()
    sys.setrecursionlimit(max(old_limit, 100000))   # restored below: the code under test must see the default
    n = len(s)
    steps = [0]

    def tick(k=1):
        steps[0] += k
        if budget is not None and steps[0] > budget:
            raise TimeoutError

    def bt(r, i, k):
        t = r[0]
        if t == "eps":
            return k(i)
        if t == "chr":
            tick()
            if i < n and cs_mem(r[1], s[i], uni):
                return k(i + 1)
            return None
        if t == "cat":
            return bt(r[1], i, lambda j: bt(r[2], j, k))
        if t == "alt":
            tick()
            e = bt(r[1], i, k)
            if e is not None:
                return e
            return bt(r[2], i, k)
        if t == "star":
            def loop(i):
                tick()
                e = bt(r[1], i, lambda j: loop(j) if j > i else k(j))
                if e is not None:
                    return e
                return k(i)
            return loop(i)
        if t == "end":
            tick()
            if i == n or (i == n - 1 and s[i] == 10):
                return k(i)
            return None
        raise Untranslatable(f"unknown node {r!r}")

    try:
        e = bt(node, i, lambda j: j)
    finally:
        sys.setrecursionlimit(old_limit)
    return steps[0], e


# ---------------------------------------------------------------------------------- pump families
def _sample(cs, uni, avoid=()):
    """a code point of the class (ASCII preferred)"""
    for x in list(range(97, 123)) + list(range(32, 127)) + list(range(0, 32)) + [233, 0x4E00]:
        if x not in avoid and cs_mem(cs, x, uni):
            return x
    return None


def nested_star_bodies(node, path=()):
    """yield (prefix-literals, inner class) for every Star whose body can reach a Star/`+` over a class
    at its top level (the (X+)* shape), with the literal characters that must precede it."""
    t = node[0]
    if t == "star":
        b = node[1]
        for alt in _alts(b):
            seq = _seq(alt)
            if seq and seq[0][0] == "chr" and len(seq) > 1 and seq[1] == ("star", seq[0]):
                yield seq[0][1]
        yield from nested_star_bodies(b)
    elif t in ("cat", "alt"):
        yield from nested_star_bodies(node[1])
        yield from nested_star_bodies(node[2])


def _alts(n):
    return _alts(n[1]) + _alts(n[2]) if n[0] == "alt" else [n]


def _seq(n):
    return [n[1]] + _seq(n[2]) if n[0] == "cat" else [n]


def leading_literals(node, uni):
    """code points forced at the start of the pattern before the first star"""
    out = []
    for it in _seq(node):
        if it[0] == "chr":
            x = _sample(it[1], uni)
            if x is None:
                break
            out.append(x)
        else:
            break
    return out
