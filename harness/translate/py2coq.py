"""py2coq -- fail-closed translator from a closed subset of Python to Gallina (DESIGN.md 4.1).

Input : Python source text (parsed with `ast`, never executed or imported).
Output: Coq `Definition`s over Z / bool; a function whose Python body can raise (assert, raise,
        `//` or `%` by a non-literal, `<<`/`>>` by a non-literal, or a call of such a function) has
        result type `option T`, None meaning "an exception was raised" (coq/C15/Py.v gives the
        partial operators `py_floordiv py_mod py_lshift py_rshift` and the bind notation).
Anything outside the subset raises `Untranslatable(node, lineno, why)`; nothing is guessed.

Subset
  functions   parameters annotated `int`/`bool`; no defaults, *args, decorators (plain mode)
  statements  `return e` / `return a, b`; `x = e` (re-assignment = shadowing `let`), `a, b = f(..)` for a
              tuple-valued translated function, `x op= e`, bare annotations `x: int`, docstrings,
              `if/elif/else`, `assert c` (-> None when c is false), `raise ...` (-> None),
              `match e:` on non-negative int literals / known enum members / `case _`
  expressions int and bool literals, names, + - * // % << >> & | ^, unary - + ~ not, comparisons
              (chains allowed), `and`/`or` on booleans, `a if c else b`, calls of translated functions,
              `max min abs int bool`
  An `if` without a returning branch is translated by duplicating the continuation into both
  branches, so every variable is a plain `let`.  Sub-expressions that can raise are hoisted, in
  evaluation order, into binds; this is only sound because the expression language has no side
  effects and every exception is the one value None; a raising sub-expression under `and`/`or`/
  `if-else` (where hoisting would change whether it is evaluated) is Untranslatable.
Not modelled: MemoryError/OverflowError of astronomically large shifts, recursion limits.

Interpreter idioms (`Binding`): methods `run_x(self, interpreter, op, args)` are not integer
functions; an explicit table maps the idioms to integer parameters (an idiom outside the table is
an unbound name, hence Untranslatable):
  args[i], `(lhs, rhs) = args`            -> parameters a0, a1, ...
  _int_bitwidth(interpreter, op.F.type)   -> the width parameter the table gives for field F
  op.predicate.value.data                 -> parameter `pred`
  len(args)                               -> the arity literal
  isa(op.F.type, builtin.IndexType | builtin.IntegerType) -> true (precondition of the model: the
                                             check only runs ops on integer/index typed values)
  return (e,)                             -> e          interpreter.interpreter_assert(c, ..) -> assert c
"""
from __future__ import annotations

import ast
import hashlib
from dataclasses import dataclass, field

from harness import common

COQ_RESERVED = {
    "as", "at", "cofix", "else", "end", "exists", "exists2", "fix", "for", "forall", "fun", "if", "IF", "in",
    "let", "match", "mod", "Prop", "return", "Set", "then", "Type", "using", "where", "with", "bind", "Some",
    "None", "true", "false", "negb", "andb", "orb", "Z", "bool", "option", "pair", "fst", "snd",
    "py_floordiv", "py_mod", "py_lshift", "py_rshift",
}


class Untranslatable(common.Untranslatable):
    def __init__(self, node, lineno=None, why=""):
        self.node = node
        self.lineno = lineno if lineno is not None else getattr(node, "lineno", None)
        self.why = why
        dump = ast.dump(node)[:160] if isinstance(node, ast.AST) else repr(node)[:160]
        super().__init__(f"line {self.lineno}: {why}: {dump}")


Z, B = "Z", "bool"


def tuple_ty(n):
    return ("tuple", n)


def coq_ty(t, partial=False):
    s = t if t in (Z, B) else "(" + " * ".join(["Z"] * t[1]) + ")"
    return f"option {s}" if partial else s


@dataclass
class FnSig:
    py_name: str
    coq_name: str
    params: list            # [(coq_name, type)]
    ret: object             # Z | B | ("tuple", n)
    partial: bool
    lineno: int = 0

    def describe(self):
        return {"py": self.py_name, "coq": self.coq_name, "params": [f"{n}:{t}" for n, t in self.params],
                "ret": coq_ty(self.ret, self.partial), "line": self.lineno}


@dataclass
class Binding:
    """Integer view of an interpreter method for one op class (see module docstring)."""
    coq_name: str
    params: list                      # [(name, type)] in signature order
    arity: int                        # number of operands: args[0..arity-1] -> a0..
    widths: dict                      # op field name -> coq term (a width parameter or a literal)
    has_pred: bool = False


@dataclass
class Ex:
    code: str
    ty: object
    atomic: bool = False


def paren(e: Ex) -> str:
    return e.code if e.atomic else f"({e.code})"


def lit(n: int) -> Ex:
    return Ex(str(n), Z, True) if n >= 0 else Ex(f"(-{-n})", Z, True)


class _Fn:
    """Translation of one function body (one pass; see Translator.function for the passes)."""

    def __init__(self, tr: "Translator", binding: Binding | None, monadic: bool, ret_ty):
        self.tr = tr
        self.binding = binding
        self.monadic = monadic
        self.ret_ty = ret_ty           # fixed return type, or None while inferring
        self.seen_ret = []
        self.used_partial = False
        self.pending: list[tuple[str, str]] = []
        self.nohoist = 0
        self.ntmp = 0
        self.size = 0

    # ------------------------------------------------------------------ helpers
    def fail(self, node, why):
        raise Untranslatable(node, getattr(node, "lineno", None), why)

    def tmp(self):
        self.ntmp += 1
        return f"t_{self.ntmp}"

    def hoist(self, node, code: str) -> Ex:
        """`code : option Z` -> a fresh name bound before the current statement."""
        self.used_partial = True
        if not self.monadic:
            self.fail(node, "internal: partial construct in a function classified total")
        if self.nohoist:
            self.fail(node, "sub-expression that can raise under and/or/if-else (evaluation would become unconditional)")
        t = self.tmp()
        self.pending.append((t, code))
        return Ex(t, Z, True)

    def take(self) -> list:
        """the binds hoisted out of the expression(s) just translated; must be taken BEFORE the
        continuation is translated (the continuation hoists into a fresh list)"""
        p, self.pending = self.pending, []
        return p

    @staticmethod
    def prefix(p: list, inner: str) -> str:
        out = inner
        for t, c in reversed(p):
            out = f"let? {t} := {c} in\n{out}"
        return out

    def toZ(self, e: Ex) -> Ex:
        if e.ty == Z:
            return e
        if e.ty == B:
            return Ex(f"Z.b2z {paren(e)}", Z)
        self.fail(ast.Constant(0), f"tuple used as a number ({e.code})")

    def toB(self, e: Ex, node) -> Ex:
        if e.ty == B:
            return e
        if e.ty == Z:
            return Ex(f"negb ({e.code} =? 0)", B)
        self.fail(node, "tuple used as a condition")

    # ------------------------------------------------------------------ expressions
    def expr(self, n, env) -> Ex:
        self.size += 1
        if self.size > 4000:
            self.fail(n, "translated term too large")
        m = getattr(self, "e_" + type(n).__name__, None)
        if m is None:
            self.fail(n, f"expression form {type(n).__name__} is outside the subset")
        return m(n, env)

    def e_Constant(self, n, env):
        if isinstance(n.value, bool):
            return Ex("true" if n.value else "false", B, True)
        if isinstance(n.value, int):
            return lit(n.value)
        self.fail(n, f"literal of type {type(n.value).__name__}")

    def e_Name(self, n, env):
        if n.id in env:
            nm, ty = env[n.id]
            return Ex(nm, ty, True)
        self.fail(n, f"unbound name `{n.id}`")

    def e_UnaryOp(self, n, env):
        if isinstance(n.op, ast.Not):
            return Ex(f"negb {paren(self.toB(self.expr(n.operand, env), n))}", B)
        v = self.toZ(self.expr(n.operand, env))
        if isinstance(n.op, ast.USub):
            if isinstance(n.operand, ast.Constant) and isinstance(n.operand.value, int) and not isinstance(n.operand.value, bool):
                return lit(-n.operand.value)
            return Ex(f"- {paren(v)}", Z)
        if isinstance(n.op, ast.UAdd):
            return v
        if isinstance(n.op, ast.Invert):
            return Ex(f"Z.lnot {paren(v)}", Z)
        self.fail(n, "unary operator")

    @staticmethod
    def _int_literal(n):
        if isinstance(n, ast.Constant) and isinstance(n.value, int) and not isinstance(n.value, bool):
            return n.value
        return None

    def e_BinOp(self, n, env):
        a = self.toZ(self.expr(n.left, env))
        b = self.toZ(self.expr(n.right, env))
        op = type(n.op)
        infix = {ast.Add: "+", ast.Sub: "-", ast.Mult: "*"}
        fun = {ast.BitAnd: "Z.land", ast.BitOr: "Z.lor", ast.BitXor: "Z.lxor"}
        if op in infix:
            return Ex(f"{paren(a)} {infix[op]} {paren(b)}", Z)
        if op in fun:
            return Ex(f"{fun[op]} {paren(a)} {paren(b)}", Z)
        k = self._int_literal(n.right)
        if op in (ast.FloorDiv, ast.Mod):
            if k is not None and k != 0:
                return Ex(f"{paren(a)} {'/' if op is ast.FloorDiv else 'mod'} {paren(b)}", Z)
            return self.hoist(n, f"{'py_floordiv' if op is ast.FloorDiv else 'py_mod'} {paren(a)} {paren(b)}")
        if op in (ast.LShift, ast.RShift):
            if k is not None and k >= 0:
                return Ex(f"{'Z.shiftl' if op is ast.LShift else 'Z.shiftr'} {paren(a)} {paren(b)}", Z)
            return self.hoist(n, f"{'py_lshift' if op is ast.LShift else 'py_rshift'} {paren(a)} {paren(b)}")
        self.fail(n, f"binary operator {op.__name__}")

    def e_Compare(self, n, env):
        if len(n.ops) == 1 and self._int_literal(n.left) is not None and self._int_literal(n.comparators[0]) is not None \
                and type(n.ops[0]) in (ast.Eq, ast.NotEq, ast.Lt, ast.LtE, ast.Gt, ast.GtE):
            # comparison of two int literals (after binding: `len(args) == 1`): fold
            import operator as _o
            f = {ast.Eq: _o.eq, ast.NotEq: _o.ne, ast.Lt: _o.lt, ast.LtE: _o.le, ast.Gt: _o.gt, ast.GtE: _o.ge}[type(n.ops[0])]
            return Ex("true" if f(self._int_literal(n.left), self._int_literal(n.comparators[0])) else "false", B, True)
        operands = [self.expr(x, env) for x in [n.left] + n.comparators]
        if len(operands) == 2 and all(o.atomic and o.ty == Z and o.code.lstrip("(-").rstrip(")").isdigit() for o in operands) \
                and type(n.ops[0]) in (ast.Eq, ast.NotEq, ast.Lt, ast.LtE, ast.Gt, ast.GtE):
            import operator as _o
            f = {ast.Eq: _o.eq, ast.NotEq: _o.ne, ast.Lt: _o.lt, ast.LtE: _o.le, ast.Gt: _o.gt, ast.GtE: _o.ge}[type(n.ops[0])]
            vals = [int(o.code.strip("()")) for o in operands]
            return Ex("true" if f(*vals) else "false", B, True)
        parts = []
        for (l, r, op) in zip(operands, operands[1:], n.ops):
            o = type(op)
            if o in (ast.Eq, ast.NotEq) and l.ty == B and r.ty == B:
                c = f"Bool.eqb {paren(l)} {paren(r)}"
            else:
                if o not in (ast.Eq, ast.NotEq, ast.Lt, ast.LtE, ast.Gt, ast.GtE):
                    self.fail(n, f"comparison operator {o.__name__}")
                lz, rz = paren(self.toZ(l)), paren(self.toZ(r))
                c = {ast.Eq: f"{lz} =? {rz}", ast.NotEq: f"{lz} =? {rz}", ast.Lt: f"{lz} <? {rz}",
                     ast.LtE: f"{lz} <=? {rz}", ast.Gt: f"{rz} <? {lz}", ast.GtE: f"{rz} <=? {lz}"}[o]
            if o is ast.NotEq:
                c = f"negb ({c})"
            parts.append(c)
        if len(parts) == 1:
            return Ex(parts[0], B)
        # a < b < c: every operand was evaluated above exactly once (pure), conjunction of the links
        return Ex(" && ".join(f"({p})" for p in parts), B)

    def e_BoolOp(self, n, env):
        first = self.expr(n.values[0], env)
        self.nohoist += 1
        rest = [self.expr(v, env) for v in n.values[1:]]
        self.nohoist -= 1
        vals = [first] + rest
        if any(v.ty != B for v in vals):
            self.fail(n, "and/or on non-boolean operands (Python returns an operand, not a bool)")
        op = " && " if isinstance(n.op, ast.And) else " || "
        return Ex(op.join(paren(v) for v in vals), B)

    def e_IfExp(self, n, env):
        c = self.toB(self.expr(n.test, env), n)
        self.nohoist += 1
        a, b = self.expr(n.body, env), self.expr(n.orelse, env)
        self.nohoist -= 1
        if a.ty != b.ty:
            a, b = self.toZ(a), self.toZ(b)
        return Ex(f"if {c.code} then {a.code} else {b.code}", a.ty)

    def e_Tuple(self, n, env):
        self.fail(n, "tuple outside `return`")

    # -- attribute / subscript / call: only through the binding table
    @staticmethod
    def _dotted(n):
        parts = []
        while isinstance(n, ast.Attribute):
            parts.append(n.attr)
            n = n.value
        if isinstance(n, ast.Name):
            parts.append(n.id)
            return ".".join(reversed(parts))
        return None

    def e_Attribute(self, n, env):
        d = self._dotted(n)
        b = self.binding
        if b is not None and b.has_pred and d == "op.predicate.value.data":
            return Ex("pred", Z, True)
        if d is not None and d in self.tr.enum_env:
            return lit(self.tr.enum_env[d])
        self.fail(n, f"unbound attribute `{d}`")

    def e_Subscript(self, n, env):
        b = self.binding
        if (b is not None and isinstance(n.value, ast.Name) and n.value.id == "args" and "args" not in env):
            i = self._int_literal(n.slice)
            if i is not None and 0 <= i < b.arity:
                return Ex(f"a{i}", Z, True)
            self.fail(n, f"args[...] index outside the op's {b.arity} operands")
        self.fail(n, "subscript")

    def _width(self, n):
        """op.<field>.type -> width term, from the binding table"""
        d = self._dotted(n)
        b = self.binding
        if b is not None and d is not None:
            parts = d.split(".")
            if len(parts) == 3 and parts[0] == "op" and parts[2] == "type" and parts[1] in b.widths:
                w = b.widths[parts[1]]
                return Ex(w, Z, True)
        self.fail(n, f"no width binding for `{d}`")

    def e_Call(self, n, env):
        if n.keywords:
            self.fail(n, "keyword arguments")
        f = n.func
        b = self.binding
        if isinstance(f, ast.Name) and f.id not in env:
            name = f.id
            # ---- binding-table idioms
            if b is not None and name == "_int_bitwidth" and len(n.args) == 2 \
                    and isinstance(n.args[0], ast.Name) and n.args[0].id == "interpreter":
                return self._width(n.args[1])
            if b is not None and name == "len" and len(n.args) == 1 and isinstance(n.args[0], ast.Name) \
                    and n.args[0].id == "args" and "args" not in env:
                return lit(b.arity)
            if b is not None and name == "isa" and len(n.args) == 2:
                self._width(n.args[0])       # must be a bound op field
                t = n.args[1]
                names = set()
                for x in ([t.left, t.right] if isinstance(t, ast.BinOp) and isinstance(t.op, ast.BitOr) else [t]):
                    names.add(self._dotted(x))
                if names and names <= {"builtin.IndexType", "builtin.IntegerType", "IndexType", "IntegerType"}:
                    return Ex("true", B, True)
                self.fail(n, "isa(...) against a type other than IndexType | IntegerType")
            # ---- builtins
            if name in ("max", "min") and len(n.args) == 2:
                x, y = (self.toZ(self.expr(a, env)) for a in n.args)
                return Ex(f"Z.{name} {paren(x)} {paren(y)}", Z)
            if name == "abs" and len(n.args) == 1:
                return Ex(f"Z.abs {paren(self.toZ(self.expr(n.args[0], env)))}", Z)
            if name == "int" and len(n.args) == 1:
                return self.toZ(self.expr(n.args[0], env))
            if name == "bool" and len(n.args) == 1:
                return self.toB(self.expr(n.args[0], env), n)
            # ---- translated functions
            sig = self.tr.lookup(name, n)
            if sig is not None:
                if len(n.args) != len(sig.params):
                    self.fail(n, f"call of `{name}` with {len(n.args)} arguments, expected {len(sig.params)}")
                args = []
                for a, (_, pt) in zip(n.args, sig.params):
                    v = self.expr(a, env)
                    args.append(paren(self.toB(v, a) if pt == B else self.toZ(v)))
                code = " ".join([sig.coq_name] + args)
                if sig.partial:
                    if sig.ret != Z:
                        # bind a non-Z result: give it a name with its own type
                        self.used_partial = True
                        if not self.monadic:
                            self.fail(n, "internal: partial call in total function")
                        if self.nohoist:
                            self.fail(n, "call that can raise under and/or/if-else")
                        t = self.tmp()
                        self.pending.append((t, code))
                        return Ex(t, sig.ret, True)
                    return self.hoist(n, code)
                return Ex(code, sig.ret)
            self.fail(n, f"unbound function `{name}`")
        self.fail(n, "call of a non-name (method call)")

    # ------------------------------------------------------------------ statements
    def ret(self, e: Ex, node) -> str:
        self.seen_ret.append(e.ty)
        if self.ret_ty is not None:
            if self.ret_ty == Z:
                e = self.toZ(e)
            elif self.ret_ty != e.ty:
                self.fail(node, f"return type {e.ty} differs from the function's {self.ret_ty}")
        p = self.take()
        if not self.monadic:
            return self.prefix(p, e.code)
        if p and p[-1][0] == e.code:
            # `let? t := c in Some t`  ==  `c`
            _, c = p.pop()
            return self.prefix(p, c)
        return self.prefix(p, f"Some {paren(e)}")

    def block(self, stmts, env, k) -> str:
        """code of `stmts` followed by continuation k(env) (k None: falling off the end is an error)"""
        if not stmts:
            if k is None:
                self.fail(ast.Pass(), "control can fall off the end of the function (implicit `return None`)")
            return k(env)
        s, rest = stmts[0], stmts[1:]
        self.size += 1
        kk = lambda env2: self.block(rest, env2, k)
        m = getattr(self, "s_" + type(s).__name__, None)
        if m is None:
            self.fail(s, f"statement form {type(s).__name__} is outside the subset")
        return m(s, env, kk, bool(rest) or k is not None)

    def s_Return(self, s, env, kk, more):
        if s.value is None:
            self.fail(s, "bare return")
        v = s.value
        if isinstance(v, ast.Tuple):
            if self.binding is not None:
                if len(v.elts) != 1:
                    self.fail(s, "interpreter method must return a 1-tuple")
                return self.ret(self.expr(v.elts[0], env), s)
            elts = [self.toZ(self.expr(x, env)) for x in v.elts]
            return self.ret(Ex("(" + ", ".join(e.code for e in elts) + ")", tuple_ty(len(elts)), True), s)
        if self.binding is not None:
            self.fail(s, "interpreter method must return a 1-tuple `(e,)`")
        return self.ret(self.expr(v, env), s)

    def _let(self, name, e: Ex, env, kk, node) -> str:
        if name in COQ_RESERVED or name.startswith("t_") or name in ("pred",) or \
                (self.binding is not None and name in {p for p, _ in self.binding.params}):
            cname = name + "_py"
        else:
            cname = name
        env2 = dict(env)
        env2[name] = (cname, e.ty)
        p = self.take()
        if p and p[-1][0] == e.code and e.ty == Z:
            # `let? t := c in let x := t in k`  ==  `let? x := c in k`
            _, c = p.pop()
            return self.prefix(p, f"let? {cname} := {c} in\n{kk(env2)}")
        return self.prefix(p, f"let {cname} := {e.code} in\n{kk(env2)}")

    def s_Assign(self, s, env, kk, more):
        if len(s.targets) != 1:
            self.fail(s, "chained assignment")
        t = s.targets[0]
        if isinstance(t, ast.Name):
            e = self.expr(s.value, env)
            if e.ty not in (Z, B):
                self.fail(s, "tuple assigned to a single name")
            return self._let(t.id, e, env, kk, s)
        if isinstance(t, ast.Tuple) and all(isinstance(x, ast.Name) for x in t.elts):
            names = [x.id for x in t.elts]
            b = self.binding
            if b is not None and isinstance(s.value, ast.Name) and s.value.id == "args" and "args" not in env:
                if len(names) != b.arity:
                    self.fail(s, f"unpacking args into {len(names)} names, the op has {b.arity} operands (ValueError)")
                def chain(i, env_i):
                    if i == len(names):
                        return kk(env_i)
                    return self._let(names[i], Ex(f"a{i}", Z, True), env_i, lambda e2: chain(i + 1, e2), s)
                return chain(0, env)
            e = self.expr(s.value, env)
            if e.ty != tuple_ty(len(names)):
                self.fail(s, "tuple unpacking of a value that is not a tuple of that length")
            env2 = dict(env)
            cn = []
            for nm in names:
                c = nm + "_py" if nm in COQ_RESERVED else nm
                env2[nm] = (c, Z)
                cn.append(c)
            p = self.take()
            return self.prefix(p, f"let '({', '.join(cn)}) := {e.code} in\n{kk(env2)}")
        self.fail(s, "assignment target")

    def s_AnnAssign(self, s, env, kk, more):
        if not isinstance(s.target, ast.Name):
            self.fail(s, "annotated assignment target")
        if s.value is None:
            return kk(env)       # `lhs: int` declares nothing at run time
        return self._let(s.target.id, self.expr(s.value, env), env, kk, s)

    def s_AugAssign(self, s, env, kk, more):
        if not isinstance(s.target, ast.Name):
            self.fail(s, "augmented assignment target")
        fake = ast.BinOp(left=ast.Name(id=s.target.id, ctx=ast.Load()), op=s.op, right=s.value)
        ast.copy_location(fake, s)
        ast.copy_location(fake.left, s)
        return self._let(s.target.id, self.expr(fake, env), env, kk, s)

    def s_Expr(self, s, env, kk, more):
        v = s.value
        if isinstance(v, ast.Constant) and isinstance(v.value, str):
            return kk(env)       # docstring
        if (self.binding is not None and isinstance(v, ast.Call)
                and self._dotted(v.func) == "interpreter.interpreter_assert" and 1 <= len(v.args) <= 2):
            return self._assert(v.args[0], env, kk, s)
        self.fail(s, "expression statement")

    def _assert(self, test, env, kk, node):
        c = self.toB(self.expr(test, env), node)
        p = self.take()
        if c.code == "true":
            return self.prefix(p, kk(env))
        self.used_partial = True
        if c.code == "false":
            return self.prefix(p, "None")
        if not self.monadic:
            self.fail(node, "internal: assert in total function")
        return self.prefix(p, f"if {c.code} then\n{kk(env)}\nelse None")

    def s_Assert(self, s, env, kk, more):
        return self._assert(s.test, env, kk, s)

    def s_Raise(self, s, env, kk, more):
        self.used_partial = True
        if not self.monadic:
            self.fail(s, "internal: raise in total function")
        return "None"

    def s_Pass(self, s, env, kk, more):
        return kk(env)

    def s_If(self, s, env, kk, more):
        c = self.toB(self.expr(s.test, env), s)
        p = self.take()
        a = self.block(s.body, env, kk)
        b = self.block(s.orelse, env, kk) if s.orelse else kk(env)
        return self.prefix(p, f"if {c.code} then\n{a}\nelse\n{b}")

    def s_Match(self, s, env, kk, more):
        subj = self.toZ(self.expr(s.subject, env))
        pre = self.take()
        arms, seen, default = [], set(), None
        for i, case in enumerate(s.cases):
            if case.guard is not None:
                self.fail(case.pattern, "match guard")
            p = case.pattern
            if isinstance(p, ast.MatchAs) and p.pattern is None and p.name is None:
                if i != len(s.cases) - 1:
                    self.fail(p, "`case _` before the last case")
                default = self.block(case.body, env, kk)
                continue
            if not isinstance(p, ast.MatchValue):
                self.fail(p, "match pattern other than a literal / enum member / `_`")
            if isinstance(p.value, ast.Attribute):
                d = self._dotted(p.value)
                if d not in self.tr.enum_env:
                    self.fail(p, f"unknown enum member `{d}`")
                v = self.tr.enum_env[d]
            else:
                v = self._int_literal(p.value)
            if v is None or v < 0:
                self.fail(p, "match pattern must be a non-negative int literal")
            if v in seen:
                continue          # unreachable duplicate arm (first match wins in Python too)
            seen.add(v)
            arms.append(f"| {v} => ({self.block(case.body, env, kk)})")
        if default is None:
            default = kk(env)
        return self.prefix(pre, f"match {subj.code} with\n" + "\n".join(arms) + f"\n| _ => ({default})\nend")


class Translator:
    """Translates selected functions of one source file; `env` holds signatures of functions of
    previously translated modules that may be called (by their Python name)."""

    def __init__(self, src: str, filename: str, env: dict[str, FnSig] | None = None, enum_env=None):
        self.src = src
        self.filename = filename
        try:
            self.tree = ast.parse(src)
        except SyntaxError as e:
            raise Untranslatable(ast.Pass(), e.lineno, f"{filename}: syntax error")
        self.env: dict[str, FnSig] = dict(env or {})
        self.enum_env = dict(enum_env or {})
        self.defs: dict[str, ast.FunctionDef] = {}
        for n in self.tree.body:
            if isinstance(n, ast.FunctionDef):
                self.defs[n.name] = n
        self.out: list[tuple[FnSig, str]] = []
        self.in_progress: set[str] = set()

    def lookup(self, name, node):
        if name in self.env:
            return self.env[name]
        if name in self.defs:
            if name in self.in_progress:
                raise Untranslatable(node, node.lineno, f"recursive function `{name}`")
            return self.function(self.defs[name])
        return None

    def function(self, fd: ast.FunctionDef, binding: Binding | None = None) -> FnSig:
        key = fd.name if binding is None else binding.coq_name
        if binding is None and fd.name in self.env:
            return self.env[fd.name]
        a = fd.args
        if a.vararg or a.kwarg or a.kwonlyargs or a.defaults or a.kw_defaults or a.posonlyargs:
            raise Untranslatable(fd, fd.lineno, "parameter form (defaults / *args / keyword-only)")
        env = {}
        if binding is None:
            if fd.decorator_list:
                raise Untranslatable(fd, fd.lineno, "decorated function")
            params = []
            for p in a.args:
                ann = p.annotation
                if not (isinstance(ann, ast.Name) and ann.id in ("int", "bool")):
                    raise Untranslatable(fd, fd.lineno, f"parameter `{p.arg}` is not annotated int/bool")
                ty = Z if ann.id == "int" else B
                cn = p.arg + "_py" if p.arg in COQ_RESERVED or p.arg.startswith("t_") else p.arg
                env[p.arg] = (cn, ty)
                params.append((cn, ty))
            coq_name = fd.name.lstrip("_")
            if coq_name in COQ_RESERVED or any(s.coq_name == coq_name for s in self.env.values()):
                raise Untranslatable(fd, fd.lineno, f"name clash for `{coq_name}`")
        else:
            names = [p.arg for p in a.args]
            if names != ["self", "interpreter", "op", "args"]:
                raise Untranslatable(fd, fd.lineno, "interpreter method signature is not (self, interpreter, op, args)")
            params = list(binding.params)
            coq_name = binding.coq_name
        self.in_progress.add(fd.name)
        try:
            force_partial = binding is not None
            # pass 1: infer return type and partiality
            f1 = _Fn(self, binding, True, Z if binding is not None else None)
            f1.block(fd.body, env, None)
            if not f1.seen_ret:
                raise Untranslatable(fd, fd.lineno, "function never returns a value")
            tys = set(map(str, f1.seen_ret))
            if binding is not None:
                ret = Z
            elif len(tys) == 1:
                ret = f1.seen_ret[0]
            elif all(t in (Z, B) for t in f1.seen_ret):
                ret = Z
            else:
                raise Untranslatable(fd, fd.lineno, "return statements of different tuple shapes")
            partial = f1.used_partial or force_partial
            f2 = _Fn(self, binding, partial, ret)
            body = f2.block(fd.body, env, None)
        finally:
            self.in_progress.discard(fd.name)
        sig = FnSig(fd.name, coq_name, params, ret, partial, fd.lineno)
        groups, cur = [], None
        for n, t in params:
            if cur and cur[1] == t:
                cur[0].append(n)
            else:
                cur = ([n], t)
                groups.append(cur)
        ps = " ".join(f"({' '.join(ns)} : {t})" for ns, t in groups)
        text = (f"(* {self.filename}:{fd.lineno}  def {fd.name} *)\n"
                f"Definition {coq_name} {ps} : {coq_ty(ret, partial)} :=\n{indent(body)}.\n")
        if binding is None:
            self.env[fd.name] = sig
        self.out.append((sig, text))
        return sig

    def method(self, cls_name: str, meth_name: str) -> ast.FunctionDef:
        for n in self.tree.body:
            if isinstance(n, ast.ClassDef) and n.name == cls_name:
                for m in n.body:
                    if isinstance(m, ast.FunctionDef) and m.name == meth_name:
                        return m
        raise Untranslatable(ast.Pass(), 0, f"{self.filename}: no method {cls_name}.{meth_name}")

    def render(self, requires: list[str], title: str) -> str:
        h = hashlib.sha256(self.src.encode()).hexdigest()[:16]
        head = [f"(* GENERATED by harness/translate/py2coq.py from {self.filename} (sha256 {h}) -- {title}.",
                "   Regenerated from the working tree on every check; do not edit; not committed. *)",
                "From Coq Require Import ZArith Bool.",
                "From XV Require Import " + " ".join(requires) + ".",
                "Local Open Scope Z_scope.", "Local Open Scope bool_scope.", "Local Open Scope py_scope.", ""]
        return "\n".join(head) + "\n".join(t for _, t in self.out)


def indent(code: str, by: int = 2) -> str:
    return "\n".join(" " * by + line for line in code.split("\n"))
