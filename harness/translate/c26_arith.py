"""c26_arith -- fail-closed translator (python `ast` -> Gallina) for the arithmetic arms of
AffineExpr.eval and AffineExpr._try_fold_constant in xdsl/ir/affine/affine_expr.py.

Reads the WORKING TREE source (never imports or executes it) and writes coq/Gen/C26_Arith.v with
  gen_eval_kind : kind -> Z -> Z -> res Z     (the `if self.kind == AffineBinaryOpKind.X: return e` chain of eval)
  gen_fold_kind : kind -> Z -> Z -> res Z     (the `case AffineBinaryOpKind.X: return AffineExpr.constant(e)` arms)
coq/C26/ProofsGen.v proves both equal to the hand model's eval_kind / fold_kind, so an edit of an
arm breaks a proof obligation instead of going unnoticed.

Accepted: exactly one arm per kind Add Mul Mod FloorDiv CeilDiv; arm expressions over the two operand
names built from integer literals, + - * // % and unary minus.  `//` and `%` become Z.div / Z.modulo guarded by
`if divisor =? 0 then Raise ZeroDiv` (CPython raises ZeroDivisionError).  Anything else raises Untranslatable.
"""
from __future__ import annotations

import ast
from pathlib import Path

from harness.common import COQ, Untranslatable, write_if_changed

SRC = Path("/repo/xdsl/ir/affine/affine_expr.py")
KINDS = ["Add", "Mul", "Mod", "FloorDiv", "CeilDiv"]


def U(node, why):
    src = ast.unparse(node) if isinstance(node, ast.AST) else repr(node)
    return Untranslatable(f"affine_expr.py line {getattr(node, 'lineno', '?')}: {why}: {src[:120]}")


def tr_expr(e, names, guards):
    """names: python source text of an operand -> Coq variable"""
    key = ast.unparse(e)
    if key in names:
        return names[key]
    if isinstance(e, ast.Constant) and type(e.value) is int:
        return f"({e.value})" if e.value < 0 else str(e.value)
    if isinstance(e, ast.UnaryOp) and isinstance(e.op, ast.USub):
        return f"(- {tr_expr(e.operand, names, guards)})"
    if isinstance(e, ast.BinOp):
        a = tr_expr(e.left, names, guards)
        b = tr_expr(e.right, names, guards)
        if isinstance(e.op, ast.Add):
            return f"({a} + {b})"
        if isinstance(e.op, ast.Sub):
            return f"({a} - {b})"
        if isinstance(e.op, ast.Mult):
            return f"({a} * {b})"
        if isinstance(e.op, ast.FloorDiv):
            guards.append(b)
            return f"({a} / {b})"
        if isinstance(e.op, ast.Mod):
            guards.append(b)
            return f"({a} mod {b})"
    raise U(e, "expression outside the translated subset")


def arm(e, names):
    guards: list[str] = []
    body = f"Ok {tr_expr(e, names, guards)}"
    for g in reversed(guards):
        body = f"if {g} =? 0 then Raise ZeroDiv else {body}"
    return body


def kind_of(node):
    if (isinstance(node, ast.Attribute) and isinstance(node.value, ast.Name)
            and node.value.id == "AffineBinaryOpKind" and node.attr in KINDS):
        return node.attr
    raise U(node, "expected AffineBinaryOpKind.<kind>")


def find_method(tree, cls, name):
    for c in tree.body:
        if isinstance(c, ast.ClassDef) and c.name == cls:
            for f in c.body:
                if isinstance(f, ast.FunctionDef) and f.name == name:
                    return f
    raise Untranslatable(f"{cls}.{name} not found in affine_expr.py")


def eval_arms(fn):
    """the if/elif chain on self.kind inside `if isinstance(self, AffineBinaryOpExpr):`"""
    block = None
    for st in fn.body:
        if (isinstance(st, ast.If) and ast.unparse(st.test) == "isinstance(self, AffineBinaryOpExpr)"):
            block = st.body
    if block is None:
        raise U(fn, "no `if isinstance(self, AffineBinaryOpExpr)` block in eval")
    want = ["lhs = self.lhs.eval(dims, symbols)", "rhs = self.rhs.eval(dims, symbols)"]
    if [ast.unparse(s) for s in block[:2]] != want or len(block) != 3 or not isinstance(block[2], ast.If):
        raise U(block[0], "unexpected statements before the kind dispatch of eval (lhs must be evaluated first, then rhs)")
    arms = {}
    node = block[2]
    while True:
        t = node.test
        if not (isinstance(t, ast.Compare) and len(t.ops) == 1 and isinstance(t.ops[0], ast.Eq)
                and ast.unparse(t.left) == "self.kind"):
            raise U(t, "expected `self.kind == AffineBinaryOpKind.X`")
        k = kind_of(t.comparators[0])
        if k in arms or len(node.body) != 1 or not isinstance(node.body[0], ast.Return):
            raise U(node, "expected exactly one `return` per kind")
        arms[k] = arm(node.body[0].value, {"lhs": "lhs", "rhs": "rhs"})
        if not node.orelse:
            break
        if len(node.orelse) != 1 or not isinstance(node.orelse[0], ast.If):
            raise U(node.orelse[0], "expected elif chain")
        node = node.orelse[0]
    return arms


def fold_arms(fn):
    body = [s for s in fn.body if not (isinstance(s, ast.Expr) and isinstance(s.value, ast.Constant))]
    guards = ["if not isinstance(self, AffineConstantExpr):\n    return None",
              "if not isinstance(other, AffineConstantExpr):\n    return None"]
    if len(body) != 3 or [ast.unparse(s) for s in body[:2]] != guards or not isinstance(body[2], ast.Match):
        raise U(fn, "unexpected shape of _try_fold_constant")
    m = body[2]
    if ast.unparse(m.subject) != "kind":
        raise U(m, "expected `match kind`")
    arms = {}
    for c in m.cases:
        if not isinstance(c.pattern, ast.MatchValue) or c.guard is not None:
            raise U(c.pattern, "expected a plain kind pattern")
        k = kind_of(c.pattern.value)
        if k in arms or len(c.body) != 1 or not isinstance(c.body[0], ast.Return):
            raise U(c.pattern, "expected exactly one `return` per kind")
        call = c.body[0].value
        if not (isinstance(call, ast.Call) and ast.unparse(call.func) == "AffineExpr.constant"
                and len(call.args) == 1 and not call.keywords):
            raise U(call, "expected `return AffineExpr.constant(e)`")
        arms[k] = arm(call.args[0], {"self.value": "a", "other.value": "b"})
    return arms


def definition(name, x, y, arms):
    if sorted(arms) != sorted(KINDS):
        raise Untranslatable(f"{name}: arms for {sorted(arms)}, expected one per kind {KINDS}")
    lines = [f"Definition {name} (k : kind) ({x} {y} : Z) : res Z :=", "  match k with"]
    lines += [f"  | {k} => {arms[k]}" for k in KINDS]
    return "\n".join(lines + ["  end."])


def generate() -> str:
    tree = ast.parse(SRC.read_text())
    ev = eval_arms(find_method(tree, "AffineExpr", "eval"))
    fo = fold_arms(find_method(tree, "AffineExpr", "_try_fold_constant"))
    text = "\n".join([
        "(* GENERATED by harness/translate/c26_arith.py from xdsl/ir/affine/affine_expr.py -- do not edit *)",
        "From Coq Require Import ZArith.",
        "From XV Require Import C26.Model.",
        "Local Open Scope Z_scope.",
        "",
        definition("gen_eval_kind", "lhs", "rhs", ev),
        "",
        definition("gen_fold_kind", "a", "b", fo),
        "",
    ])
    write_if_changed(COQ / "Gen" / "C26_Arith.v", text)
    return text
