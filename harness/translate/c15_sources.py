"""What C15 translates with py2coq, and the binding table for xdsl/interpreters/arith.py.

generate(repo, out_dir) -> info      writes  <out_dir>/C15_comparisons.v  and  <out_dir>/C15_arith.v
                                     (only if changed) from the working tree under `repo`.
Fail-closed: every function of xdsl/utils/comparisons.py, every module-level helper of
interpreters/arith.py with int parameters and every `@impl(arith.X)` method whose op class X is
an integer op must translate; an `@impl` for an op class that is in neither the integer table nor
the explicit not-an-integer-op list raises Untranslatable (a new supported op would otherwise be
silently uncovered).
"""
from __future__ import annotations

import ast
from pathlib import Path

from harness.common import write_if_changed
from harness.translate.py2coq import B, Binding, Translator, Untranslatable, Z

# arith op class -> (mnemonic, kind)
BINARY = {
    "AddiOp": "addi", "SubiOp": "subi", "MuliOp": "muli", "AndIOp": "andi", "OrIOp": "ori", "XOrIOp": "xori",
    "ShLIOp": "shli", "ShRSIOp": "shrsi", "ShRUIOp": "shrui", "DivSIOp": "divsi", "DivUIOp": "divui",
    "RemSIOp": "remsi", "RemUIOp": "remui", "FloorDivSIOp": "floordivsi", "CeilDivSIOp": "ceildivsi",
    "CeilDivUIOp": "ceildivui", "MinSIOp": "minsi", "MaxSIOp": "maxsi", "MinUIOp": "minui", "MaxUIOp": "maxui",
}
CASTS = {"IndexCastOp": "index_cast", "IndexCastUIOp": "index_castui", "ExtSIOp": "extsi", "ExtUIOp": "extui",
         "TruncIOp": "trunci"}
CMPI = {"CmpiOp": "cmpi"}
# op classes whose implementation is not an integer function (floats, constants): hand-modelled /
# oracle-only, listed so that an unknown class is an error rather than a silent gap
NOT_INTEGER = {"ConstantOp", "SubfOp", "AddfOp", "MulfOp", "DivfOp", "NegfOp", "MinimumfOp", "MaximumfOp",
               "MinnumfOp", "MaxnumfOp", "CmpfOp", "SIToFPOp", "UIToFPOp", "FPToSIOp", "FPToUIOp", "ExtFOp",
               "TruncFOp", "BitcastOp"}
SKIP_HELPERS = {"_int_bitwidth"}      # bound by the table (-> width parameter), not a function of ints


def binding_for(cls: str) -> Binding | None:
    if cls in BINARY:
        return Binding("run_" + BINARY[cls], [("w", Z), ("a0", Z), ("a1", Z)], 2,
                       {"result": "w", "lhs": "w", "rhs": "w"})
    if cls in CMPI:
        # operands have width w; the result is an i1
        return Binding("run_cmpi", [("pred", Z), ("w", Z), ("a0", Z), ("a1", Z)], 2,
                       {"lhs": "w", "rhs": "w", "result": "1"}, has_pred=True)
    if cls in CASTS:
        return Binding("run_" + CASTS[cls], [("w_in", Z), ("w_out", Z), ("a0", Z)], 1,
                       {"input": "w_in", "result": "w_out"})
    return None


def impl_class(m: ast.FunctionDef) -> str | None:
    """the X of a decorator `@impl(arith.X)`"""
    for d in m.decorator_list:
        if isinstance(d, ast.Call) and isinstance(d.func, ast.Name) and d.func.id in ("impl",) and len(d.args) == 1:
            a = d.args[0]
            if isinstance(a, ast.Attribute) and isinstance(a.value, ast.Name) and a.value.id == "arith":
                return a.attr
    return None


def translate_comparisons(repo: Path):
    rel = "xdsl/utils/comparisons.py"
    tr = Translator((repo / rel).read_text(), rel)
    for name, fd in tr.defs.items():
        tr.function(fd)
    return tr


def translate_arith(repo: Path, cmp_env):
    rel = "xdsl/interpreters/arith.py"
    src = (repo / rel).read_text()
    tr = Translator(src, rel, env=cmp_env)
    # names imported from comparisons must really come from there
    imported = set()
    for n in tr.tree.body:
        if isinstance(n, ast.ImportFrom) and n.module == "xdsl.utils.comparisons":
            for a in n.names:
                if a.asname:
                    raise Untranslatable(n, n.lineno, "import ... as ... from comparisons")
                imported.add(a.name)
    tr.env = {k: v for k, v in tr.env.items() if k in imported}
    skipped = {}
    for name, fd in tr.defs.items():
        if name in SKIP_HELPERS:
            continue
        anns = [a.annotation for a in fd.args.args]
        if not all(isinstance(a, ast.Name) and a.id in ("int", "bool") for a in anns):
            # not a function of integers (e.g. a float helper); if an integer method calls it, that call is
            # an unbound function and fails closed there
            skipped["helper " + name] = "parameters are not all int/bool"
            continue
        tr.function(fd)
    methods = {}
    for n in tr.tree.body:
        if not isinstance(n, ast.ClassDef):
            continue
        for m in n.body:
            if not isinstance(m, ast.FunctionDef):
                continue
            cls = impl_class(m)
            if cls is None:
                if m.decorator_list:
                    raise Untranslatable(m, m.lineno, f"unrecognised decorator on {n.name}.{m.name}")
                continue
            b = binding_for(cls)
            if b is None:
                if cls in NOT_INTEGER:
                    skipped[cls] = m.name
                    continue
                raise Untranslatable(m, m.lineno, f"no binding kind for op class arith.{cls} ({m.name})")
            if b.coq_name in methods:
                raise Untranslatable(m, m.lineno, f"two implementations for arith.{cls}")
            sig = tr.function(m, b)
            methods[b.coq_name] = {"class": cls, "method": m.name, "line": m.lineno,
                                   "kind": "binary" if cls in BINARY else "cmpi" if cls in CMPI else "cast"}
    return tr, methods, skipped


def generate(repo: Path, out_dir: Path) -> dict:
    repo, out_dir = Path(repo), Path(out_dir)
    c = translate_comparisons(repo)
    a, methods, skipped = translate_arith(repo, c.env)
    changed = []
    if write_if_changed(out_dir / "C15_comparisons.v", c.render(["C15.Py"], "xdsl.utils.comparisons")):
        changed.append("C15_comparisons.v")
    if write_if_changed(out_dir / "C15_arith.v",
                        a.render(["C15.Py", "Gen.C15_comparisons"], "integer part of xdsl.interpreters.arith")):
        changed.append("C15_arith.v")
    return {
        "comparisons": {s.py_name: s.describe() for s, _ in c.out},
        "arith_helpers": {s.py_name: s.describe() for s, _ in a.out if s.coq_name not in methods},
        "arith_methods": {k: dict(v, sig=next(s.describe() for s, _ in a.out if s.coq_name == k))
                          for k, v in methods.items()},
        "not_translated_non_integer": skipped,
        "files_rewritten": changed,
    }
