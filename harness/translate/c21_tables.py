"""c21_tables -- fail-closed extractor (python `ast`; the sources are parsed, never imported or executed) of the
SysV facts and small structural decisions the x86 backend relies on, written to coq/Gen/C21_tables.v:

  xdsl/backend/x86/lowering/convert_func_to_x86_func.py
      ARG_PASSING_REGISTER_INDICES   argument register order              -> c21_arg_regs
      RETURN_PASSING_REGISTER        return register                      -> c21_ret_reg
      MAX_REG_PASSING_INPUTS         number of register-passed arguments  -> c21_max_reg_args
      STACK_SLOT_SIZE_BYTES          stack slot size                      -> c21_stack_slot
      LowerFuncOp.match_and_rewrite  the `memory_offset=` expression of the DM_MovOp that loads the i-th
                                     stack-passed argument (i = loop variable) -> c21_stack_arg_offset
                                     and the index of the block argument it replaces (MAX_REG_PASSING_INPUTS + 1)
  xdsl/backend/x86/lowering/convert_arith_to_x86.py
      X86_OP_BY_ARITH_BINARY_OP      arith op -> two-address x86 op (integer entries) -> c21_binop_table
      ArithBinaryToX86               which operand is copied (`moved_rhs` from `rhs_x86`) and which one is the
                                     `source=` of the two-address op                 -> c21_binop_copies_rhs
  xdsl/backend/x86/prologue_epilogue_insertion.py
      X86_CALLEE_SAVED_REGISTERS     callee-saved list (names resolved through registers.py) -> c21_callee_saved
      _process_function              the prologue loop pushes `for reg in used`, the epilogue loop pops
                                     `for reg in reversed(used)` before every RetOp -> c21_pop_reversed;
                                     whether rsp-relative memory offsets are rebased by the size of the save
                                     area (any assignment to / construction with `memory_offset` inside
                                     _process_function) -> c21_prologue_shifts
  xdsl/dialects/x86/registers.py
      X86_INDEX_BY_NAME              register name -> index; RBX = Reg64Type.from_name("rbx") ... bindings

Every shape that is not exactly one of the recognised forms raises Untranslatable naming the node.
"""
from __future__ import annotations

import ast
import hashlib
from pathlib import Path

from harness.common import Untranslatable, write_if_changed

FUNC = "xdsl/backend/x86/lowering/convert_func_to_x86_func.py"
ARITH = "xdsl/backend/x86/lowering/convert_arith_to_x86.py"
PRO = "xdsl/backend/x86/prologue_epilogue_insertion.py"
REGS = "xdsl/dialects/x86/registers.py"

# codes shared with coq/C21/Model.v
ARITH_CODE = {"AddiOp": 1, "MuliOp": 2, "SubiOp": 3}
X86_CODE = {"RS_AddOp": 1, "RS_ImulOp": 2, "RS_SubOp": 3}
FLOAT_ENTRIES = {("AddfOp", "RS_FAddOp"), ("MulfOp", "RS_FMulOp"), ("SubfOp", "RS_FSubOp")}   # outside the property


def U(rel, node, why):
    src = ast.unparse(node) if isinstance(node, ast.AST) else repr(node)
    return Untranslatable(f"{rel} line {getattr(node, 'lineno', '?')}: {why}: {src[:160]}")


class Src:
    def __init__(self, root: Path, rel: str):
        self.rel = rel
        self.text = (root / rel).read_text()
        self.tree = ast.parse(self.text)
        self.assigns: dict[str, ast.AST] = {}
        self.classes: dict[str, ast.ClassDef] = {}
        for n in self.tree.body:
            if isinstance(n, ast.Assign) and len(n.targets) == 1 and isinstance(n.targets[0], ast.Name):
                self.assigns[n.targets[0].id] = n.value
            elif isinstance(n, ast.AnnAssign) and isinstance(n.target, ast.Name) and n.value is not None:
                self.assigns[n.target.id] = n.value
            elif isinstance(n, ast.ClassDef):
                self.classes[n.name] = n

    def need(self, name):
        if name not in self.assigns:
            raise Untranslatable(f"{self.rel}: module-level assignment `{name}` not found")
        return self.assigns[name]

    def method(self, cls, name) -> ast.FunctionDef:
        if cls not in self.classes:
            raise Untranslatable(f"{self.rel}: class `{cls}` not found")
        for n in self.classes[cls].body:
            if isinstance(n, ast.FunctionDef) and n.name == name:
                return n
        raise Untranslatable(f"{self.rel}: method `{cls}.{name}` not found")


def int_const(src: Src, name: str) -> int:
    v = src.need(name)
    if isinstance(v, ast.Constant) and type(v.value) is int:
        return v.value
    raise U(src.rel, v, f"`{name}` is not an integer literal")


def int_list(src: Src, name: str) -> list[int]:
    v = src.need(name)
    if isinstance(v, (ast.List, ast.Tuple)) and all(isinstance(e, ast.Constant) and type(e.value) is int for e in v.elts):
        return [e.value for e in v.elts]
    raise U(src.rel, v, f"`{name}` is not a list of integer literals")


def attr_tail(node) -> str | None:
    """`arith.AddiOp` / `x86.ops.RS_AddOp` / `RS_AddOp` -> last component"""
    if isinstance(node, ast.Attribute):
        return node.attr
    if isinstance(node, ast.Name):
        return node.id
    return None


def offset_expr(rel, node, loopvar: str, consts: dict[str, int]) -> str:
    """python integer expression over the loop variable and module constants -> Coq Z term over `i`"""
    if isinstance(node, ast.Constant) and type(node.value) is int:
        return f"({node.value})"
    if isinstance(node, ast.Name):
        if node.id == loopvar:
            return "i"
        if node.id in consts:
            return f"({consts[node.id]})"
        raise U(rel, node, "unbound name in the stack-argument offset")
    if isinstance(node, ast.BinOp) and isinstance(node.op, (ast.Add, ast.Sub, ast.Mult)):
        op = {ast.Add: "+", ast.Sub: "-", ast.Mult: "*"}[type(node.op)]
        return f"({offset_expr(rel, node.left, loopvar, consts)} {op} {offset_expr(rel, node.right, loopvar, consts)})"
    raise U(rel, node, "unsupported expression in the stack-argument offset")


def calls_in(node, tail: str):
    return [n for n in ast.walk(node) if isinstance(n, ast.Call) and attr_tail(n.func) == tail]


def extract(root: Path):
    fsrc, asrc, psrc, rsrc = (Src(root, r) for r in (FUNC, ARITH, PRO, REGS))
    out = {}

    # ---- convert_func_to_x86_func.py -------------------------------------------------------------
    out["arg_regs"] = int_list(fsrc, "ARG_PASSING_REGISTER_INDICES")
    out["ret_reg"] = int_const(fsrc, "RETURN_PASSING_REGISTER")
    out["max_reg_args"] = int_const(fsrc, "MAX_REG_PASSING_INPUTS")
    out["stack_slot"] = int_const(fsrc, "STACK_SLOT_SIZE_BYTES")
    consts = {"MAX_REG_PASSING_INPUTS": out["max_reg_args"], "STACK_SLOT_SIZE_BYTES": out["stack_slot"]}
    if len(out["arg_regs"]) != out["max_reg_args"]:
        raise Untranslatable(f"{FUNC}: {len(out['arg_regs'])} argument registers but MAX_REG_PASSING_INPUTS = "
                             f"{out['max_reg_args']}")
    m = fsrc.method("LowerFuncOp", "match_and_rewrite")
    loops = [n for n in ast.walk(m) if isinstance(n, ast.For) and calls_in(n, "DM_MovOp")]
    if len(loops) != 1:
        raise U(FUNC, m, "expected exactly one loop creating DM_MovOp (stack-passed arguments)")
    loop = loops[0]
    rng = loop.iter
    if not (isinstance(loop.target, ast.Name) and isinstance(rng, ast.Call) and attr_tail(rng.func) == "range"
            and len(rng.args) == 1 and ast.unparse(rng.args[0]) == "num_inputs - MAX_REG_PASSING_INPUTS"):
        raise U(FUNC, loop.iter, "stack-argument loop is not `for i in range(num_inputs - MAX_REG_PASSING_INPUTS)`")
    dm = calls_in(loop, "DM_MovOp")
    if len(dm) != 1:
        raise U(FUNC, loop, "expected one DM_MovOp in the stack-argument loop")
    kws = {k.arg: k.value for k in dm[0].keywords}
    if set(kws) - {"memory", "memory_offset", "destination", "comment"} or dm[0].args or "memory_offset" not in kws:
        raise U(FUNC, dm[0], "unexpected DM_MovOp arguments")
    if not (isinstance(kws.get("memory"), ast.Name) and kws["memory"].id == "sp"):
        raise U(FUNC, dm[0], "stack-argument load is not relative to `sp`")
    out["stack_off"] = offset_expr(FUNC, kws["memory_offset"], loop.target.id, consts)
    out["stack_off_src"] = ast.unparse(kws["memory_offset"])
    # sp is the block argument inserted at min(num_inputs, MAX_REG_PASSING_INPUTS) with type RSP
    sp_assign = [n for n in ast.walk(m) if isinstance(n, ast.Assign) and len(n.targets) == 1
                 and isinstance(n.targets[0], ast.Name) and n.targets[0].id == "sp"]
    if len(sp_assign) != 1 or "insert_arg" not in ast.unparse(sp_assign[0].value) or "RSP" not in ast.unparse(sp_assign[0].value):
        raise U(FUNC, m, "`sp` is not a block argument of type RSP")
    # return register use
    r = fsrc.method("LowerReturnOp", "match_and_rewrite")
    if "from_index(RETURN_PASSING_REGISTER)" not in ast.unparse(r):
        raise U(FUNC, r, "LowerReturnOp does not move the result to from_index(RETURN_PASSING_REGISTER)")

    # ---- convert_arith_to_x86.py -----------------------------------------------------------------
    tab = asrc.need("X86_OP_BY_ARITH_BINARY_OP")
    if not isinstance(tab, ast.Dict):
        raise U(ARITH, tab, "X86_OP_BY_ARITH_BINARY_OP is not a dict literal")
    table = []
    for k, v in zip(tab.keys, tab.values):
        kn, vn = attr_tail(k), attr_tail(v)
        if (kn, vn) in FLOAT_ENTRIES:
            continue
        if kn not in ARITH_CODE or vn not in X86_CODE:
            raise U(ARITH, k, f"unknown entry {kn} -> {vn} in X86_OP_BY_ARITH_BINARY_OP")
        table.append((ARITH_CODE[kn], X86_CODE[vn], kn, vn))
    out["binop_table"] = table
    bm = asrc.method("ArithBinaryToX86", "match_and_rewrite")
    txt = ast.unparse(bm)
    need = ["lhs_x86, rhs_x86 = self.arch.cast_to_regs(op.operands, rewriter)",
            "moved_rhs = self.arch.move_value_to_unallocated(rhs_x86, rewriter, value_type=op.operands[1].type)",
            "new_type(source=lhs_x86, register_in=moved_rhs)"]
    for s in need:
        if s not in txt:
            raise U(ARITH, bm, f"ArithBinaryToX86 no longer contains `{s}`")
    out["copies_rhs"] = True
    # does the pattern refuse 8-bit multiplication (`imul r8, r8` does not exist)?  (proposed repair C21-3)
    guards = [n for n in ast.walk(bm) if isinstance(n, ast.If) and "RS_ImulOp" in ast.unparse(n.test)]
    if not guards:
        out["rejects_imul8"] = False
    elif (len(guards) == 1 and "bitwidth == 8" in ast.unparse(guards[0].test)
          and "new_type is x86.RS_ImulOp" in ast.unparse(guards[0].test)
          and len(guards[0].body) == 1 and isinstance(guards[0].body[0], ast.Raise) and not guards[0].orelse
          and txt.index("RS_ImulOp") < txt.index("cast_to_regs")):
        out["rejects_imul8"] = True
    else:
        raise U(ARITH, guards[0], "unrecognised special case for RS_ImulOp in ArithBinaryToX86")

    # ---- registers.py + prologue_epilogue_insertion.py -------------------------------------------
    idx = rsrc.need("X86_INDEX_BY_NAME")
    if not (isinstance(idx, ast.Dict) and all(isinstance(k, ast.Constant) and isinstance(v, ast.Constant)
                                               for k, v in zip(idx.keys, idx.values))):
        raise U(REGS, idx, "X86_INDEX_BY_NAME is not a literal dict")
    index_by_name = {k.value: v.value for k, v in zip(idx.keys, idx.values)}
    out["index_by_name"] = index_by_name
    binding = {}
    for name, v in rsrc.assigns.items():
        if (isinstance(v, ast.Call) and ast.unparse(v.func) == "Reg64Type.from_name" and len(v.args) == 1
                and isinstance(v.args[0], ast.Constant)):
            binding[name] = v.args[0].value
    cs = psrc.need("X86_CALLEE_SAVED_REGISTERS")
    if not (isinstance(cs, ast.List) and all(isinstance(e, ast.Name) for e in cs.elts)):
        raise U(PRO, cs, "X86_CALLEE_SAVED_REGISTERS is not a list of register names")
    callee = []
    for e in cs.elts:
        if e.id not in binding or binding[e.id] not in index_by_name:
            raise U(PRO, e, "callee-saved register not bound by registers.py")
        callee.append(index_by_name[binding[e.id]])
    out["callee_saved"] = callee
    pf = psrc.method("X86PrologueEpilogueInsertion", "_process_function")
    push_loops = [n for n in ast.walk(pf) if isinstance(n, ast.For) and calls_in(n, "S_PushOp") and not calls_in(n, "D_PopOp")]
    pop_loops = [n for n in ast.walk(pf) if isinstance(n, ast.For) and calls_in(n, "D_PopOp")
                 and not any(isinstance(c, ast.For) and calls_in(c, "D_PopOp") for c in ast.walk(n) if c is not n)]
    if len(push_loops) != 1 or len(pop_loops) != 1:
        raise U(PRO, pf, "expected one push loop and one pop loop in _process_function")
    used = "used_callee_preserved_registers"
    if ast.unparse(push_loops[0].iter) != used:
        raise U(PRO, push_loops[0].iter, "prologue does not push `for reg in used_callee_preserved_registers`")
    it = ast.unparse(pop_loops[0].iter)
    if it == f"reversed({used})":
        out["pop_reversed"] = True
    elif it == used:
        out["pop_reversed"] = False
    else:
        raise U(PRO, pop_loops[0].iter, "epilogue loop is neither over used nor reversed(used)")
    if "InsertPoint.before(ret_op)" not in ast.unparse(pf) or "isinstance(ret_op, x86_func.RetOp)" not in ast.unparse(pf):
        raise U(PRO, pf, "epilogue is not inserted before every x86_func.RetOp")
    if "InsertPoint.at_start(func.body.blocks[0])" not in ast.unparse(pf):
        raise U(PRO, pf, "prologue is not inserted at the start of the first block")
    sel = [n for n in ast.walk(pf) if isinstance(n, ast.Assign) and ast.unparse(n.targets[0]) == used]
    if len(sel) != 1:
        raise U(PRO, pf, "selection of the used callee-saved registers not found")
    seltxt = ast.unparse(sel[0].value)
    if "res.type in X86_CALLEE_SAVED_REGISTERS" in seltxt and "OrderedSet(" in seltxt:
        out["select_by_index"] = False      # attribute equality: only the 64-bit names are recognised
    elif "index" in seltxt and "X86_CALLEE_SAVED" in seltxt and "OrderedSet(" in seltxt:
        out["select_by_index"] = True       # recognises every width of a callee-saved register, saves the 64-bit one
    else:
        raise U(PRO, sel[0], "unrecognised selection of the used callee-saved registers")
    out["prologue_shifts"] = "memory_offset" in ast.unparse(pf)
    if out["prologue_shifts"] and "STACK_SLOT" not in ast.unparse(pf) and "8" not in ast.unparse(pf):
        raise U(PRO, pf, "memory offsets are touched but not by a multiple of the slot size")
    return out


def render(f) -> str:
    zs = lambda l: "[" + "; ".join(f"({x})" for x in l) + "]"
    lines = [
        "(* GENERATED on every run by harness/translate/c21_tables.py from the working tree of /repo",
        "   (python ast, fail-closed).  Do not edit. *)",
        "From Coq Require Import ZArith List.",
        "Import ListNotations.",
        "Local Open Scope Z_scope.",
        "",
        "(* convert_func_to_x86_func.py *)",
        f"Definition c21_arg_regs : list Z := {zs(f['arg_regs'])}.",
        f"Definition c21_ret_reg : Z := {f['ret_reg']}.",
        f"Definition c21_max_reg_args : Z := {f['max_reg_args']}.",
        f"Definition c21_stack_slot : Z := {f['stack_slot']}.",
        f"(* memory_offset = {f['stack_off_src']}   (i = 0 for the first stack-passed argument) *)",
        f"Definition c21_stack_arg_offset (i : Z) : Z := {f['stack_off']}.",
        "",
        "(* convert_arith_to_x86.py: (arith op code, x86 op code); 1 = addi/add, 2 = muli/imul, 3 = subi/sub *)",
        "Definition c21_binop_table : list (Z * Z) := ["
        + "; ".join(f"({a}, {b})" for a, b, _, _ in f["binop_table"]) + "].",
        "(* " + ", ".join(f"{kn} -> {vn}" for _, _, kn, vn in f["binop_table"]) + " *)",
        f"Definition c21_binop_copies_rhs : bool := {'true' if f['copies_rhs'] else 'false'}.",
        "(* ArithBinaryToX86 raises DiagnosticException for muli on 8-bit integers *)",
        f"Definition c21_rejects_imul8 : bool := {'true' if f['rejects_imul8'] else 'false'}.",
        "",
        "(* prologue_epilogue_insertion.py *)",
        f"Definition c21_callee_saved : list Z := {zs(f['callee_saved'])}.",
        f"Definition c21_pop_reversed : bool := {'true' if f['pop_reversed'] else 'false'}.",
        f"Definition c21_prologue_shifts : bool := {'true' if f['prologue_shifts'] else 'false'}.",
        f"Definition c21_select_by_index : bool := {'true' if f['select_by_index'] else 'false'}.",
        "",
    ]
    return "\n".join(lines)


def generate(root: Path = Path("/repo"), out_dir: Path = Path("/verif/coq/Gen")):
    f = extract(root)
    text = render(f)
    write_if_changed(out_dir / "C21_tables.v", text)
    return {"file": "coq/Gen/C21_tables.v", "sha1": hashlib.sha1(text.encode()).hexdigest()[:12],
            "facts": {k: v for k, v in f.items() if k not in ("index_by_name",)}}


if __name__ == "__main__":
    import json
    print(json.dumps(generate(), indent=1, default=str))
