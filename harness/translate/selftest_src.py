"""Synthetic functions exercising every construct of the py2coq subset.  They are translated on every
C15 run (coq/Gen/C15_selftest.v) and the generated Coq is compared with CPython executing this very
file on exhaustive small + random large inputs: a check of the translator itself, independent of
which constructs xDSL's sources happen to use today."""


def st_if(a: int, b: int) -> int:
    """docstring is skipped"""
    if a < b:
        return a - b
    elif a == b:
        x = a * 2
        x += 1
        return x
    else:
        return b // 3 + b % 3


def st_match(p: int, a: int) -> int:
    match p:
        case 0:
            return a
        case 1:
            return -a
        case 3:
            assert a != 0
            return 7 // a
        case _:
            raise ValueError("no")


def st_match_fallthrough(p: int, a: int) -> int:
    r = a
    match p:
        case 2:
            r = a + 100
        case 5:
            return 5
    return r * 2


def st_bits(a: int, b: int) -> int:
    return ((a & b) | (a ^ 5)) - (~b) + (a << 2) + (b >> 1)


def st_shift(a: int, n: int) -> int:
    return (a << n) + (a >> n)


def st_cmp(a: int, b: int, c: int) -> bool:
    return a < b <= c and not (a == c) or b != c


def st_ifexp(a: int, b: int) -> int:
    m = a if a > b else b
    return max(a, b) - m + min(a, 3) + abs(b) + int(a > 0) + bool(b)


def st_tuple(a: int) -> tuple[int, int]:
    return a // 2, a % 2


def st_usetuple(a: int) -> int:
    q, r = st_tuple(a)
    return q * 2 + r


def st_divmod(a: int, b: int) -> int:
    return a // b + a % b


def st_reassign(a: int, b: int) -> int:
    d = a
    if b > 0:
        d = -d
    if a > 10:
        d = d + b
    return d


def st_boolret(a: int, flag: bool) -> bool:
    if a > 3:
        return flag
    return a == 0


def st_boolarith(a: int, flag: bool) -> int:
    if flag:
        return a + flag
    return (a > 0) + (a > 1) + (flag == (a > 2))


def st_calls(a: int, b: int) -> int:
    lo, hi = st_tuple(a)
    if st_boolret(b, a > 0):
        return st_divmod(a, b) + lo
    return st_if(a, b) - hi


def st_nested(a: int, b: int) -> int:
    t = a
    if a > 0:
        if b > 0:
            t = t + 1
        else:
            assert b != 0
            t = t // b
        t = t * 3
    return t - 1
