(* C03/Enc.v -- encoders for the correspondence check: list-based constructors for IR literals and
   the S-expression of a model run (result + final context as a sorted dict).  No proofs. *)
From Coq Require Import List Arith ZArith Bool.
From XV Require Import Base.Show C03.Model.
Import ListNotations.

Fixpoint ol (l : list op) : ops := match l with [] => ONil | x :: t => OCons x (ol t) end.
Fixpoint bl (l : list block) : blocks := match l with [] => BNil | x :: t => BCons x (bl t) end.
Fixpoint gl (l : list blocks) : regions := match l with [] => GNil | x :: t => GCons x (gl t) end.
(* mk name operands results attrs props succs regions parent ; parent 0 = None, b > 0 = Some b (block ids start at 1) *)
Definition mk (n : nat) (os : list vid) (rs : list (vid * ty)) (a p : nat) (ss : list bid)
              (g : list (list block)) (par : nat) : op :=
  Op n os rs a p ss (gl (map bl g)) (if par =? 0 then None else Some par).
Definition bk (b : bid) (args : list (vid * ty)) (body : list op) : block := Blk b args (ol body).

(* the association list as the dict it denotes: newest binding per key, sorted by key *)
Fixpoint dedupe (seen : list nat) (l : list (nat * nat)) : list (nat * nat) :=
  match l with
  | [] => []
  | (k, v) :: r => if existsb (Nat.eqb k) seen then dedupe seen r else (k, v) :: dedupe (k :: seen) r
  end.
Fixpoint insert (p : nat * nat) (l : list (nat * nat)) : list (nat * nat) :=
  match l with
  | [] => [p]
  | q :: r => if fst p <=? fst q then p :: l else q :: insert p r
  end.
Definition as_dict (l : list (nat * nat)) : list (nat * nat) := fold_right insert [] (dedupe [] l).
Definition enc_pairs (l : list (nat * nat)) : sx := L (map (fun p => L [sN (fst p); sN (snd p)]) (as_dict l)).
Definition enc_res (r : bool * ctx) : sx := L [sB (fst r); enc_pairs (cv (snd r)); enc_pairs (cb (snd r))].

(* both argument orders, each with a fresh context *)
Definition c03_op (cf : cfg) (a b : op) : sx :=
  L [enc_res (equiv_op cf empty_ctx a b); enc_res (equiv_op cf empty_ctx b a)].
Definition c03_block (cf : cfg) (a b : block) : sx :=
  L [enc_res (equiv_block cf empty_ctx a b); enc_res (equiv_block cf empty_ctx b a)].
Definition c03_region (cf : cfg) (a b : list block) : sx :=
  L [enc_res (equiv_region cf empty_ctx (bl a) (bl b)); enc_res (equiv_region cf empty_ctx (bl b) (bl a))].
(* OperationInfo(a) == OperationInfo(b) as used by CSE: 1 / 0 / -1 (ValueError) *)
Definition c03_opinfo (cf : cfg) (a b : op) : sx :=
  match op_info_eq cf a b with Some r => sB r | None => I (-1)%Z end.
(* consumers: schedule_space returns () iff module ~ clone-after-pass ; HashableModule.__eq__ both ways ;
   the 4th component (hashes agree) is 1 whenever the op names in walk order agree -- reported by python only *)
Fixpoint names_op (x : op) : list nat :=
  match x with Op n _ _ _ _ _ g _ => n :: names_regions g end
with names_regions (g : regions) : list nat :=
  match g with GNil => [] | GCons r t => names_blocks r ++ names_regions t end
with names_blocks (r : blocks) : list nat :=
  match r with BNil => [] | BCons k t => names_block k ++ names_blocks t end
with names_block (k : block) : list nat :=
  match k with Blk _ _ body => names_ops body end
with names_ops (l : ops) : list nat :=
  match l with ONil => [] | OCons o t => names_op o ++ names_ops t end.
Definition c03_consumers (cf : cfg) (a b : op) : sx :=
  L [sB (se_op cf a b); sB (se_op cf a b); sB (se_op cf b a); sB (nats_eqb (names_op a) (names_op b))].
