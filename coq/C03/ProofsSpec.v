(* C03/ProofsSpec.v -- the specification the C03 theorems are stated against (iso = existence of
   a bijection on inside values/blocks ...), the side conditions of the partial theorems, list
   lemmas, and the first structural lemma: what a successful run adds to the context. *)
From Coq Require Import List Arith Bool Lia.
From XV Require Import C03.Model.
Import ListNotations.

Scheme op_mind := Induction for op Sort Prop
with ops_mind := Induction for ops Sort Prop
with block_mind := Induction for block Sort Prop
with blocks_mind := Induction for blocks Sort Prop
with regions_mind := Induction for regions Sort Prop.
Combined Scheme ir_mutind from op_mind, ops_mind, block_mind, blocks_mind, regions_mind.

(* ------------------------------------------------------------------------------------------ *)
(** * Inside values / blocks of a piece of IR (in the order the walk meets their definitions) *)

Fixpoint defs_op (x : op) : list vid :=
  match x with Op _ _ rs _ _ _ g _ => defs_regions g ++ map fst rs end
with defs_regions (g : regions) : list vid :=
  match g with GNil => [] | GCons r t => defs_blocks r ++ defs_regions t end
with defs_blocks (r : blocks) : list vid :=
  match r with BNil => [] | BCons k t => defs_block k ++ defs_blocks t end
with defs_block (k : block) : list vid :=
  match k with Blk _ args body => map fst args ++ defs_ops body end
with defs_ops (l : ops) : list vid :=
  match l with ONil => [] | OCons o t => defs_op o ++ defs_ops t end.

Fixpoint blks_op (x : op) : list bid :=
  match x with Op _ _ _ _ _ _ g _ => blks_regions g end
with blks_regions (g : regions) : list bid :=
  match g with GNil => [] | GCons r t => blks_blocks r ++ blks_regions t end
with blks_blocks (r : blocks) : list bid :=
  match r with BNil => [] | BCons k t => blks_block k ++ blks_blocks t end
with blks_block (k : block) : list bid :=
  match k with Blk b _ body => b :: blks_ops body end
with blks_ops (l : ops) : list bid :=
  match l with ONil => [] | OCons o t => blks_op o ++ blks_ops t end.

(* ------------------------------------------------------------------------------------------ *)
(** * The specification: isomorphism *)

(* R is a one-to-one correspondence between the elements of dom and the elements of cod *)
Record bij (R : nat -> nat -> Prop) (dom cod : list nat) : Prop := {
  bij_dom : forall x y, R x y -> In x dom /\ In y cod;
  bij_tot : forall x, In x dom -> exists y, R x y;
  bij_sur : forall y, In y cod -> exists x, R x y;
  bij_fun : forall x y y', R x y -> R x y' -> y = y';
  bij_inj : forall x x' y, R x y -> R x' y -> x = x' }.

Section Match.
  Variable rt : bool.                         (* true: result types must agree (the property) *)
  Variables Rv Rb : nat -> nat -> Prop.       (* the correspondence of values / of blocks *)
  Variables Iva Ivb : list vid.               (* values defined inside the left / right IR *)
  Variables Iba Ibb : list bid.               (* blocks inside the left / right IR *)

  (* a use corresponds: inside -> mapped ; outside -> identical (and outside on both sides) *)
  Definition vcorr (o o' : vid) : Prop := Rv o o' \/ (~ In o Iva /\ ~ In o' Ivb /\ o = o').
  Definition bcorr (s s' : bid) : Prop := Rb s s' \/ (~ In s Iba /\ ~ In s' Ibb /\ s = s').
  Definition rescorr (r r' : vid * ty) : Prop := Rv (fst r) (fst r') /\ (rt = true -> snd r = snd r').
  Definition argcorr (r r' : vid * ty) : Prop := Rv (fst r) (fst r') /\ snd r = snd r'.

  (* every operation agrees on name, operand correspondence, result types, attributes, properties,
     successors and nested regions; every block on argument types.  (The `parent` field is the
     position of the node in its tree and is not part of the comparison.) *)
  Fixpoint m_op (x y : op) {struct x} : Prop :=
    match x, y with
    | Op n os rs a p ss g _, Op n' os' rs' a' p' ss' g' _ =>
        n = n' /\ a = a' /\ p = p' /\ Forall2 vcorr os os' /\ Forall2 rescorr rs rs'
        /\ Forall2 bcorr ss ss' /\ m_regions g g'
    end
  with m_regions (g g' : regions) {struct g} : Prop :=
    match g, g' with
    | GNil, GNil => True
    | GCons r t, GCons r' t' => m_blocks r r' /\ m_regions t t'
    | _, _ => False
    end
  with m_blocks (r r' : blocks) {struct r} : Prop :=
    match r, r' with
    | BNil, BNil => True
    | BCons k t, BCons k' t' => m_block k k' /\ m_blocks t t'
    | _, _ => False
    end
  with m_block (k k' : block) {struct k} : Prop :=
    match k, k' with
    | Blk b args body, Blk b' args' body' => Rb b b' /\ Forall2 argcorr args args' /\ m_ops body body'
    end
  with m_ops (l l' : ops) {struct l} : Prop :=
    match l, l' with
    | ONil, ONil => True
    | OCons o t, OCons o' t' => m_op o o' /\ m_ops t t'
    | _, _ => False
    end.

  (* ---- side conditions of the partial theorems (left IR only, plus Ivb/Ibb for ext_ok) ---- *)

  (* every use satisfies P (operands) / Q (successors) *)
  Fixpoint uses_op (P : vid -> Prop) (Q : bid -> Prop) (x : op) : Prop :=
    match x with
    | Op _ os _ _ _ ss g _ => (forall o, In o os -> P o) /\ (forall s, In s ss -> Q s) /\ uses_regions P Q g
    end
  with uses_regions P Q (g : regions) : Prop :=
    match g with GNil => True | GCons r t => uses_blocks P Q r /\ uses_regions P Q t end
  with uses_blocks P Q (r : blocks) : Prop :=
    match r with BNil => True | BCons k t => uses_block P Q k /\ uses_blocks P Q t end
  with uses_block P Q (k : block) : Prop :=
    match k with Blk _ _ body => uses_ops P Q body end
  with uses_ops P Q (l : ops) : Prop :=
    match l with ONil => True | OCons o t => uses_op P Q o /\ uses_ops P Q t end.

  (* defs precede uses: when an op is visited, each of its operands that is defined inside the
     compared IR is among the values `sv` registered so far (and each successor that is an inside
     block among the blocks `sb` registered so far).  The threading of sv/sb follows the walk:
     a region first registers all its blocks; a block its arguments and itself; an op, after its
     regions, its results. *)
  Fixpoint dpu_op (sv : list vid) (sb : list bid) (x : op) : Prop :=
    match x with
    | Op _ os _ _ _ ss g _ =>
        (forall o, In o os -> In o Iva -> In o sv) /\ (forall s, In s ss -> In s Iba -> In s sb)
        /\ dpu_regions sv sb g
    end
  with dpu_regions sv sb (g : regions) : Prop :=
    match g with
    | GNil => True
    | GCons r t => dpu_blocks sv (blocks_ids r ++ sb) r
                   /\ dpu_regions (defs_blocks r ++ sv) (blks_blocks r ++ sb) t
    end
  with dpu_blocks sv sb (r : blocks) : Prop :=
    match r with
    | BNil => True
    | BCons k t => dpu_block sv sb k /\ dpu_blocks (defs_block k ++ sv) (blks_block k ++ sb) t
    end
  with dpu_block sv sb (k : block) : Prop :=
    match k with Blk b args body => dpu_ops (map fst args ++ sv) (b :: sb) body end
  with dpu_ops sv sb (l : ops) : Prop :=
    match l with
    | ONil => True
    | OCons o t => dpu_op sv sb o /\ dpu_ops (defs_op o ++ sv) (blks_op o ++ sb) t
    end.
End Match.

(* tree well-formedness of the `parent` fields below the root: an op listed in block b has parent b *)
Fixpoint wfp_op (x : op) : Prop :=
  match x with Op _ _ _ _ _ _ g _ => wfp_regions g end
with wfp_regions (g : regions) : Prop :=
  match g with GNil => True | GCons r t => wfp_blocks r /\ wfp_regions t end
with wfp_blocks (r : blocks) : Prop :=
  match r with BNil => True | BCons k t => wfp_block k /\ wfp_blocks t end
with wfp_block (k : block) : Prop :=
  match k with Blk b _ body => wfp_ops b body end
with wfp_ops (b : bid) (l : ops) : Prop :=
  match l with ONil => True | OCons o t => op_parent o = Some b /\ wfp_op o /\ wfp_ops b t end.

(* result types pairwise equal (positionally, wherever both trees have an op) *)
Fixpoint rt_eq_op (x y : op) {struct x} : Prop :=
  match x, y with
  | Op _ _ rs _ _ _ g _, Op _ _ rs' _ _ _ g' _ => map snd rs = map snd rs' /\ rt_eq_regions g g'
  end
with rt_eq_regions (g g' : regions) {struct g} : Prop :=
  match g, g' with GCons r t, GCons r' t' => rt_eq_blocks r r' /\ rt_eq_regions t t' | _, _ => True end
with rt_eq_blocks (r r' : blocks) {struct r} : Prop :=
  match r, r' with BCons k t, BCons k' t' => rt_eq_block k k' /\ rt_eq_blocks t t' | _, _ => True end
with rt_eq_block (k k' : block) {struct k} : Prop :=
  match k, k' with Blk _ _ body, Blk _ _ body' => rt_eq_ops body body' end
with rt_eq_ops (l l' : ops) {struct l} : Prop :=
  match l, l' with OCons o t, OCons o' t' => rt_eq_op o o' /\ rt_eq_ops t t' | _, _ => True end.

(* identities are unique inside one IR tree *)
Definition wf_op (x : op) : Prop := NoDup (defs_op x) /\ NoDup (blks_op x) /\ wfp_op x.
Definition wf_block (k : block) : Prop := NoDup (defs_block k) /\ NoDup (blks_block k) /\ wfp_block k.
Definition wf_region (r : blocks) : Prop := NoDup (defs_blocks r) /\ NoDup (blks_blocks r) /\ wfp_blocks r.

(* THE SPEC.  rt = true is the property's statement; rt = false ignores result types. *)
Definition iso_op (rt : bool) (a b : op) : Prop :=
  exists Rv Rb, bij Rv (defs_op a) (defs_op b) /\ bij Rb (blks_op a) (blks_op b)
    /\ m_op rt Rv Rb (defs_op a) (defs_op b) (blks_op a) (blks_op b) a b.
Definition iso_block (rt : bool) (a b : block) : Prop :=
  exists Rv Rb, bij Rv (defs_block a) (defs_block b) /\ bij Rb (blks_block a) (blks_block b)
    /\ m_block rt Rv Rb (defs_block a) (defs_block b) (blks_block a) (blks_block b) a b.
Definition iso_region (rt : bool) (a b : blocks) : Prop :=
  exists Rv Rb, bij Rv (defs_blocks a) (defs_blocks b) /\ bij Rb (blks_blocks a) (blks_blocks b)
    /\ m_blocks rt Rv Rb (defs_blocks a) (defs_blocks b) (blks_blocks a) (blks_blocks b) a b.

(* side conditions at top level *)
Definition dpu_top_op (a : op) : Prop := dpu_op (defs_op a) (blks_op a) [] [] a.
Definition dpu_top_block (a : block) : Prop := dpu_block (defs_block a) (blks_block a) [] [] a.
Definition dpu_top_region (a : blocks) : Prop :=
  dpu_blocks (defs_blocks a) (blks_blocks a) [] (blocks_ids a) a.
(* an operand/successor of a that is outside a is also outside b *)
Definition ext_ok_op (a b : op) : Prop :=
  uses_op (fun o => ~ In o (defs_op a) -> ~ In o (defs_op b))
          (fun s => ~ In s (blks_op a) -> ~ In s (blks_op b)) a.
Definition ext_ok_block (a b : block) : Prop :=
  uses_block (fun o => ~ In o (defs_block a) -> ~ In o (defs_block b))
             (fun s => ~ In s (blks_block a) -> ~ In s (blks_block b)) a.
Definition ext_ok_region (a b : blocks) : Prop :=
  uses_blocks (fun o => ~ In o (defs_blocks a) -> ~ In o (defs_blocks b))
              (fun s => ~ In s (blks_blocks a) -> ~ In s (blks_blocks b)) a.
Definition detached (a b : op) : Prop := op_parent a = None \/ op_parent b = None.

(* ------------------------------------------------------------------------------------------ *)
(** * List lemmas *)

Lemma combine_app : forall (A B : Type) (a a2 : list A) (b b2 : list B),
  length a = length b -> combine (a ++ a2) (b ++ b2) = combine a b ++ combine a2 b2.
Proof.
  induction a as [|x a IH]; intros a2 b b2 Hl; destruct b as [|y b]; simpl in *; try discriminate; auto.
  f_equal. apply IH. lia.
Qed.

Lemma in_combine_ex_l : forall (l l' : list nat) x, In x l -> length l = length l' ->
  exists y, In (x, y) (combine l l').
Proof.
  induction l as [|a l IH]; destruct l' as [|b l']; simpl; intros x Hin Hl; try contradiction; try discriminate.
  destruct Hin as [->|Hin]; [eexists; left; reflexivity|].
  destruct (IH l' x Hin) as [y Hy]; [lia|]. exists y. right. exact Hy.
Qed.

Lemma in_combine_ex_r : forall (l l' : list nat) y, In y l' -> length l = length l' ->
  exists x, In (x, y) (combine l l').
Proof.
  induction l as [|a l IH]; destruct l' as [|b l']; simpl; intros y Hin Hl; try contradiction; try discriminate.
  destruct Hin as [->|Hin]; [eexists; left; reflexivity|].
  destruct (IH l' y Hin) as [x Hx]; [lia|]. exists x. right. exact Hx.
Qed.

Lemma combine_fun : forall (l l' : list nat) x y y', NoDup l ->
  In (x, y) (combine l l') -> In (x, y') (combine l l') -> y = y'.
Proof.
  induction l as [|a l IH]; destruct l' as [|b l']; simpl; intros x y y' Hnd H1 H2; try contradiction.
  inversion Hnd as [|? ? Hni Hnd']; subst.
  destruct H1 as [H1|H1]; destruct H2 as [H2|H2].
  - congruence.
  - inversion H1; subst. apply in_combine_l in H2. contradiction.
  - inversion H2; subst. apply in_combine_l in H1. contradiction.
  - eapply IH; eauto.
Qed.

Lemma combine_inj : forall (l l' : list nat) x x' y, NoDup l' ->
  In (x, y) (combine l l') -> In (x', y) (combine l l') -> x = x'.
Proof.
  induction l as [|a l IH]; destruct l' as [|b l']; simpl; intros x x' y Hnd H1 H2; try contradiction.
  inversion Hnd as [|? ? Hni Hnd']; subst.
  destruct H1 as [H1|H1]; destruct H2 as [H2|H2].
  - congruence.
  - inversion H1; subst. apply in_combine_r in H2. contradiction.
  - inversion H2; subst. apply in_combine_r in H1. contradiction.
  - eapply IH; eauto.
Qed.

Lemma bij_combine : forall l l', NoDup l -> NoDup l' -> length l = length l' ->
  bij (fun x y => In (x, y) (combine l l')) l l'.
Proof.
  intros l l' H1 H2 Hl. constructor.
  - intros x y H. split; [eapply in_combine_l|eapply in_combine_r]; eauto.
  - intros x H. apply in_combine_ex_l; auto.
  - intros y H. apply in_combine_ex_r; auto.
  - intros x y y' Ha Hb. cbv beta in Ha, Hb. exact (combine_fun l l' x y y' H1 Ha Hb).
  - intros x x' y Ha Hb. cbv beta in Ha, Hb. exact (combine_inj l l' x x' y H2 Ha Hb).
Qed.

Lemma lookup_some_in : forall l k v, lookup l k = Some v -> In (k, v) l.
Proof.
  induction l as [|[k' v'] l IH]; simpl; intros k v H; [discriminate|].
  destruct (k' =? k) eqn:E.
  - apply Nat.eqb_eq in E. inversion H; subst. left; reflexivity.
  - right. apply IH; exact H.
Qed.

Lemma lookup_none_notin : forall l k, lookup l k = None -> ~ In k (map fst l).
Proof.
  induction l as [|[k' v'] l IH]; simpl; intros k H; [tauto|].
  destruct (k' =? k) eqn:E; [discriminate|].
  apply Nat.eqb_neq in E. intros [Hc|Hc]; [contradiction|]. eapply IH; eauto.
Qed.

Lemma in_lookup_some : forall l k v, In (k, v) l -> exists v', lookup l k = Some v'.
Proof.
  intros l k v H. destruct (lookup l k) eqn:E; [eexists; reflexivity|].
  apply lookup_none_notin in E. exfalso. apply E. apply in_map_iff. exists (k, v). auto.
Qed.

Lemma nats_eqb_eq : forall l l', nats_eqb l l' = true <-> l = l'.
Proof.
  induction l as [|a l IH]; destruct l' as [|b l']; simpl; split; intros H; try discriminate; auto.
  - apply andb_true_iff in H. destruct H as [H1 H2]. apply Nat.eqb_eq in H1. apply IH in H2. congruence.
  - inversion H; subst. rewrite Nat.eqb_refl. simpl. apply IH. reflexivity.
Qed.

Lemma blocks_ids_len : forall r, length (blocks_ids r) = blocks_len r.
Proof. induction r; simpl; auto. Qed.

Lemma reg_results_in : forall rs rs' l p,
  In p (reg_results l rs rs') <-> In p (combine (map fst rs) (map fst rs')) \/ In p l.
Proof.
  unfold reg_results. induction rs as [|r rs IH]; destruct rs' as [|r' rs']; simpl; intros l p; try tauto.
  rewrite IH. simpl. tauto.
Qed.

Lemma reg_blocks_in : forall r r' l p,
  In p (reg_blocks l r r') <-> In p (combine (blocks_ids r) (blocks_ids r')) \/ In p l.
Proof.
  unfold reg_blocks. intros r r'. generalize (blocks_ids r) (blocks_ids r'). clear.
  intros i. induction i as [|a i IH]; intros [|b i'] l p; simpl; try tauto.
  rewrite IH. simpl. tauto.
Qed.

Lemma reg_args_true : forall xs ys l l', reg_args l xs ys = (true, l') ->
  (forall p, In p l' <-> In p (combine (map fst xs) (map fst ys)) \/ In p l)
  /\ (length xs = length ys -> map snd xs = map snd ys).
Proof.
  induction xs as [|[a t] xs IH]; destruct ys as [|[a' t'] ys]; simpl; intros l l' H;
    try (inversion H; subst; split; [intros; tauto| intros; try discriminate; reflexivity]).
  destruct (t =? t') eqn:E; simpl in H; [|discriminate].
  apply Nat.eqb_eq in E. subst t'.
  destruct (IH _ _ _ H) as [H1 H2]. split.
  - intros p. rewrite H1. simpl. tauto.
  - intros Hl. f_equal. apply H2. lia.
Qed.

Lemma reg_args_complete : forall xs ys l,
  Forall2 (fun r r' : vid * ty => snd r = snd r') xs ys -> exists l', reg_args l xs ys = (true, l').
Proof.
  induction xs as [|[a t] xs IH]; intros ys l H; inversion H as [|? [a' t'] ? ? Hh Ht]; subst; simpl.
  - eexists; reflexivity.
  - simpl in Hh. subst t'. rewrite Nat.eqb_refl. simpl. apply IH. exact Ht.
Qed.

Lemma all_mapped_true : forall l xs ys, all_mapped l xs ys = true -> length xs = length ys ->
  Forall2 (fun x y => get_or_self l x = y) xs ys.
Proof.
  unfold all_mapped. induction xs as [|x xs IH]; destruct ys as [|y ys]; simpl; intros H Hl; try discriminate.
  - constructor.
  - apply andb_true_iff in H. destruct H as [H1 H2]. apply Nat.eqb_eq in H1.
    constructor; [exact H1|apply IH; [exact H2|lia]].
Qed.

Lemma all_mapped_complete : forall l xs ys,
  Forall2 (fun x y => get_or_self l x = y) xs ys -> all_mapped l xs ys = true.
Proof.
  unfold all_mapped. induction 1 as [|x y xs ys Hh Ht IH]; simpl; auto.
  rewrite Hh, Nat.eqb_refl. exact IH.
Qed.

Lemma Forall2_len : forall (A B : Type) (P : A -> B -> Prop) l l', Forall2 P l l' -> length l = length l'.
Proof. induction 1; simpl; auto. Qed.

(* ------------------------------------------------------------------------------------------ *)
(** * What a successful run adds to the context *)

Definition ext (dx dy : list vid) (bx bz : list bid) (c c' : ctx) : Prop :=
  length dx = length dy /\ length bx = length bz
  /\ (forall p, In p (cv c') <-> In p (combine dx dy) \/ In p (cv c))
  /\ (forall p, In p (cb c') <-> In p (combine bx bz) \/ In p (cb c)).

Lemma ext_refl : forall c, ext [] [] [] [] c c.
Proof. intros c. repeat split; simpl; tauto. Qed.

Lemma ext_trans : forall d1 d1' b1 b1' d2 d2' b2 b2' c c1 c2,
  ext d1 d1' b1 b1' c c1 -> ext d2 d2' b2 b2' c1 c2 ->
  ext (d1 ++ d2) (d1' ++ d2') (b1 ++ b2) (b1' ++ b2') c c2.
Proof.
  intros d1 d1' b1 b1' d2 d2' b2 b2' c c1 c2 (L1 & L2 & V1 & B1) (L3 & L4 & V2 & B2).
  repeat split; try (rewrite !app_length; lia).
  - rewrite V2, V1, combine_app, in_app_iff by exact L1. tauto.
  - rewrite combine_app, in_app_iff by exact L1. rewrite V2, V1. tauto.
  - rewrite B2, B1, combine_app, in_app_iff by exact L2. tauto.
  - rewrite combine_app, in_app_iff by exact L2. rewrite B2, B1. tauto.
Qed.

(* pairs registered twice (a region registers its blocks, then every block registers itself) *)
Lemma ext_absorb : forall d d' i i' b b' c c',
  length i = length i' ->
  (forall p, In p (combine i i') -> In p (combine b b')) ->
  ext d d' (i ++ b) (i' ++ b') c c' -> ext d d' b b' c c'.
Proof.
  intros d d' i i' b b' c c' Hl Hsub (L1 & L2 & V & B).
  repeat split; auto.
  - rewrite !app_length in L2. lia.
  - apply V.
  - apply V.
  - intros H. apply B in H. rewrite combine_app, in_app_iff in H by exact Hl. intuition.
  - intros H. apply B. rewrite combine_app, in_app_iff by exact Hl. tauto.
Qed.

Lemma ext_mono_v : forall d d' b b' c c' p, ext d d' b b' c c' -> In p (cv c) -> In p (cv c').
Proof. intros d d' b b' c c' p (_ & _ & V & _) H. apply V. tauto. Qed.
Lemma ext_mono_b : forall d d' b b' c c' p, ext d d' b b' c c' -> In p (cb c) -> In p (cb c').
Proof. intros d d' b b' c c' p (_ & _ & _ & B) H. apply B. tauto. Qed.

Lemma equiv_regions_cons : forall cf c r t r' t',
  equiv_regions cf c (GCons r t) (GCons r' t') =
  let (ok, c1) := equiv_region cf c r r' in if ok then equiv_regions cf c1 t t' else (false, c1).
Proof. reflexivity. Qed.

Lemma equiv_ext :
  (forall x cf c y c', equiv_op cf c x y = (true, c') ->
     ext (defs_op x) (defs_op y) (blks_op x) (blks_op y) c c')
  /\ (forall l cf c l' c', equiv_ops cf c l l' = (true, c') -> ops_len l = ops_len l' ->
     ext (defs_ops l) (defs_ops l') (blks_ops l) (blks_ops l') c c')
  /\ (forall k cf c k' c', equiv_block cf c k k' = (true, c') ->
     ext (defs_block k) (defs_block k') (blks_block k) (blks_block k') c c')
  /\ (forall r cf c r' c', equiv_blocks cf c r r' = (true, c') -> blocks_len r = blocks_len r' ->
     ext (defs_blocks r) (defs_blocks r') (blks_blocks r) (blks_blocks r') c c'
     /\ (forall p, In p (combine (blocks_ids r) (blocks_ids r')) ->
                   In p (combine (blks_blocks r) (blks_blocks r'))))
  /\ (forall g cf c g' c', equiv_regions cf c g g' = (true, c') -> regions_len g = regions_len g' ->
     ext (defs_regions g) (defs_regions g') (blks_regions g) (blks_regions g') c c').
Proof.
  apply ir_mutind.
  - (* Op *)
    intros n os rs a p ss g IHg par cf c y c' H.
    destruct y as [n' os' rs' a' p' ss' g' par']. cbn [equiv_op] in H.
    destruct (negb (n =? n')); [discriminate|].
    match type of H with (if ?b then _ else _) = _ => destruct b eqn:Hlen end; [discriminate|].
    destruct (parent_fail cf c par par'); [discriminate|].
    destruct (negb (all_mapped (cv c) os os')); [discriminate|].
    destruct (negb (all_mapped (cb c) ss ss')); [discriminate|].
    destruct (equiv_regions cf c g g') as [ok c1] eqn:Hg.
    destruct ok; simpl in H; [|discriminate].
    inversion H; subst c'; clear H.
    repeat (apply orb_false_iff in Hlen; destruct Hlen as [Hlen ?]).
    repeat match goal with Hx : negb (_ =? _) = false |- _ =>
      apply negb_false_iff in Hx; apply Nat.eqb_eq in Hx end.
    specialize (IHg cf c g' c1 Hg ltac:(assumption)).
    cbn [defs_op blks_op].
    rewrite <- (app_nil_r (blks_regions g)), <- (app_nil_r (blks_regions g')).
    eapply ext_trans; [exact IHg|].
    repeat split; simpl; try tauto.
    + rewrite !map_length. assumption.
    + intros Hp. apply reg_results_in in Hp. exact Hp.
    + intros Hp. apply reg_results_in. exact Hp.
  - (* ONil *)
    intros cf c l' c' H Hl. destruct l'; simpl in *; [inversion H; subst; apply ext_refl|discriminate].
  - (* OCons *)
    intros o IHo t IHt cf c l' c' H Hl. destruct l' as [|o' t']; [simpl in Hl; discriminate|].
    cbn [equiv_ops] in H. destruct (equiv_op cf c o o') as [ok c1] eqn:Ho.
    destruct ok; [|discriminate]. simpl in Hl.
    cbn [defs_ops blks_ops]. eapply ext_trans; [eapply IHo; eauto|eapply IHt; eauto].
  - (* Blk *)
    intros b args body IHb cf c k' c' H. destruct k' as [b' args' body'].
    cbn [equiv_block] in H.
    match type of H with (if ?b then _ else _) = _ => destruct b eqn:Hlen end; [discriminate|].
    apply orb_false_iff in Hlen. destruct Hlen as [Hl1 Hl2].
    apply negb_false_iff, Nat.eqb_eq in Hl1. apply negb_false_iff, Nat.eqb_eq in Hl2.
    destruct (reg_args (cv c) args args') as [ok v1] eqn:Ha.
    destruct ok; simpl in H; [|discriminate].
    apply reg_args_true in Ha. destruct Ha as [Ha _].
    specialize (IHb cf _ body' c' H Hl2).
    cbn [defs_block blks_block].
    change (b :: blks_ops body) with ([b] ++ blks_ops body).
    change (b' :: blks_ops body') with ([b'] ++ blks_ops body').
    eapply ext_trans; [|exact IHb].
    repeat split; simpl; try tauto.
    + rewrite !map_length. assumption.
    + apply Ha.
    + apply Ha.
  - (* BNil *)
    intros cf c r' c' H Hl. destruct r'; simpl in H; inversion H; subst.
    + split; [apply ext_refl|simpl; tauto].
    + simpl in Hl. discriminate.
  - (* BCons *)
    intros k IHk t IHt cf c r' c' H Hl. destruct r' as [|k' t']; [simpl in Hl; discriminate|].
    cbn [equiv_blocks] in H. destruct (equiv_block cf c k k') as [ok c1] eqn:Hk.
    destruct ok; [|discriminate]. simpl in Hl.
    specialize (IHk cf c k' c1 Hk).
    destruct (IHt cf c1 t' c' H ltac:(lia)) as [IHt1 IHt2].
    cbn [defs_blocks blks_blocks blocks_ids]. split.
    + eapply ext_trans; eauto.
    + destruct IHk as (_ & Lb & _ & _).
      rewrite combine_app by exact Lb.
      destruct k as [b args body]; destruct k' as [b' args' body']. simpl.
      intros p [Hp|Hp]; [left; exact Hp|].
      right. apply in_app_iff. right. apply IHt2. exact Hp.
  - (* GNil *)
    intros cf c g' c' H Hl. destruct g'; simpl in *; [inversion H; subst; apply ext_refl|discriminate].
  - (* GCons *)
    intros r IHr t IHt cf c g' c' H Hl. destruct g' as [|r' t']; [simpl in Hl; discriminate|].
    rewrite equiv_regions_cons in H. unfold equiv_region, region_pre in H.
    destruct (negb (blocks_len r =? blocks_len r')) eqn:Hbl; [discriminate|].
    apply negb_false_iff, Nat.eqb_eq in Hbl.
    match type of H with (let (_, _) := ?e in _) = _ => destruct e as [ok c1] eqn:Hr end.
    destruct ok; [|discriminate]. simpl in Hl.
    destruct (IHr cf _ r' c1 Hr Hbl) as [IHr1 IHr2].
    specialize (IHt cf c1 t' c' H ltac:(lia)).
    cbn [defs_regions blks_regions].
    eapply ext_trans; [|exact IHt].
    eapply ext_absorb with (i := blocks_ids r) (i' := blocks_ids r');
      [rewrite !blocks_ids_len; exact Hbl|exact IHr2|].
    change (defs_blocks r) with ([] ++ defs_blocks r).
    change (defs_blocks r') with ([] ++ defs_blocks r').
    eapply ext_trans; [|exact IHr1].
    repeat split; simpl; try tauto.
    + rewrite !blocks_ids_len; exact Hbl.
    + intros Hp. apply reg_blocks_in in Hp. exact Hp.
    + intros Hp. apply reg_blocks_in. exact Hp.
Qed.
