(* C03/ProofsMain.v -- symmetry of the spec, the clone model is isomorphic to its source, the
   theorems for the two configurations (unchanged tree / repaired), refutation witnesses. *)
From Coq Require Import List Arith Bool Lia.
From XV Require Import C03.Model C03.ProofsSpec C03.ProofsSound C03.ProofsComplete.
Import ListNotations.

(* ------------------------------------------------------------------------------------------ *)
(** * iso is symmetric *)

Lemma Forall2_flip : forall (A B : Type) (P : A -> B -> Prop) l l',
  Forall2 P l l' -> Forall2 (fun y x => P x y) l' l.
Proof. induction 1; constructor; auto. Qed.

Lemma bij_flip : forall R d c, bij R d c -> bij (fun y x => R x y) c d.
Proof.
  intros R d c [H1 H2 H3 H4 H5]. constructor; intros.
  - apply and_comm. apply H1. assumption.
  - apply H3; assumption.
  - apply H2; assumption.
  - eapply H5; eauto.
  - eapply H4; eauto.
Qed.

Section Sym.
  Variable rt : bool.
  Variables Rv Rb : nat -> nat -> Prop.
  Variables Iva Ivb : list vid.
  Variables Iba Ibb : list bid.
  Notation Rv' := (fun y x => Rv x y).
  Notation Rb' := (fun y x => Rb x y).

  Lemma m_sym_all :
    (forall x y, m_op rt Rv Rb Iva Ivb Iba Ibb x y -> m_op rt Rv' Rb' Ivb Iva Ibb Iba y x)
    /\ (forall l l', m_ops rt Rv Rb Iva Ivb Iba Ibb l l' -> m_ops rt Rv' Rb' Ivb Iva Ibb Iba l' l)
    /\ (forall k k', m_block rt Rv Rb Iva Ivb Iba Ibb k k' -> m_block rt Rv' Rb' Ivb Iva Ibb Iba k' k)
    /\ (forall r r', m_blocks rt Rv Rb Iva Ivb Iba Ibb r r' -> m_blocks rt Rv' Rb' Ivb Iva Ibb Iba r' r)
    /\ (forall g g', m_regions rt Rv Rb Iva Ivb Iba Ibb g g' -> m_regions rt Rv' Rb' Ivb Iva Ibb Iba g' g).
  Proof.
    apply ir_mutind.
    - intros n os rs a p ss g IHg par y H. destruct y as [n' os' rs' a' p' ss' g' par'].
      cbn [m_op] in *. destruct H as (En & Ea & Ep & Hos & Hrs & Hss & Hg).
      repeat split; auto.
      + apply Forall2_flip in Hos. eapply Forall2_impl'; [exact Hos|].
        intros o' o [H|(H1 & H2 & H3)]; [left; exact H|right; auto].
      + apply Forall2_flip in Hrs. eapply Forall2_impl'; [exact Hrs|].
        intros r' r [H1 H2]. split; [exact H1|]. intros E. symmetry. auto.
      + apply Forall2_flip in Hss. eapply Forall2_impl'; [exact Hss|].
        intros o' o [H|(H1 & H2 & H3)]; [left; exact H|right; auto].
      + apply IHg. exact Hg.
    - intros l' H. destruct l'; simpl in *; tauto.
    - intros o IHo t IHt l' H. destruct l' as [|o' t']; simpl in *; [tauto|].
      destruct H as [H1 H2]; split; [apply IHo; exact H1|apply IHt; exact H2].
    - intros b args body IHb k' H. destruct k' as [b' args' body']. cbn [m_block] in *.
      destruct H as (Hb & Hargs & Hbody). split; [exact Hb|]. split; [|apply IHb; exact Hbody].
      apply Forall2_flip in Hargs. eapply Forall2_impl'; [exact Hargs|].
      intros r' r [H1 H2]. split; auto.
    - intros r' H. destruct r'; simpl in *; tauto.
    - intros k IHk t IHt r' H. destruct r' as [|k' t']; simpl in *; [tauto|].
      destruct H as [H1 H2]; split; [apply IHk; exact H1|apply IHt; exact H2].
    - intros g' H. destruct g'; simpl in *; tauto.
    - intros r IHr t IHt g' H. destruct g' as [|r' t']; simpl in *; [tauto|].
      destruct H as [H1 H2]; split; [apply IHr; exact H1|apply IHt; exact H2].
  Qed.
End Sym.

Theorem iso_op_sym : forall rt a b, iso_op rt a b -> iso_op rt b a.
Proof.
  intros rt a b (Rv & Rb & Bv & Bb & Hm).
  exists (fun y x => Rv x y), (fun y x => Rb x y).
  split; [apply bij_flip; exact Bv|]. split; [apply bij_flip; exact Bb|].
  apply (proj1 (m_sym_all rt Rv Rb _ _ _ _)). exact Hm.
Qed.

Theorem iso_block_sym : forall rt a b, iso_block rt a b -> iso_block rt b a.
Proof.
  intros rt a b (Rv & Rb & Bv & Bb & Hm).
  exists (fun y x => Rv x y), (fun y x => Rb x y).
  split; [apply bij_flip; exact Bv|]. split; [apply bij_flip; exact Bb|].
  apply (proj1 (proj2 (proj2 (m_sym_all rt Rv Rb _ _ _ _)))). exact Hm.
Qed.

Theorem iso_region_sym : forall rt a b, iso_region rt a b -> iso_region rt b a.
Proof.
  intros rt a b (Rv & Rb & Bv & Bb & Hm).
  exists (fun y x => Rv x y), (fun y x => Rb x y).
  split; [apply bij_flip; exact Bv|]. split; [apply bij_flip; exact Bb|].
  apply (proj1 (proj2 (proj2 (proj2 (m_sym_all rt Rv Rb _ _ _ _))))). exact Hm.
Qed.

(* symmetry of the check, through sound + complete *)
Theorem sym_op_gen : forall cf a b,
  wf_op a -> wf_op b -> dpu_top_op a -> dpu_top_op b -> ext_ok_op a b -> root_parent_ok cf b a ->
  se_op cf a b = true -> se_op cf b a = true.
Proof.
  intros cf a b (N1 & N2 & W1) (N3 & N4 & W2) Da Db He Hp H.
  apply complete_op_gen with (rt := cmp_rt cf); auto.
  apply iso_op_sym. apply sound_op_gen with (cf := cf); auto.
  intros E1 E2. congruence.
Qed.

Theorem sym_block_gen : forall cf a b,
  wf_block a -> wf_block b -> dpu_top_block a -> dpu_top_block b -> ext_ok_block a b ->
  se_block cf a b = true -> se_block cf b a = true.
Proof.
  intros cf a b (N1 & N2 & W1) (N3 & N4 & W2) Da Db He H.
  apply complete_block_gen with (rt := cmp_rt cf); auto.
  apply iso_block_sym. apply sound_block_gen with (cf := cf); auto.
  intros E1 E2. congruence.
Qed.

Theorem sym_region_gen : forall cf a b,
  wf_region a -> wf_region b -> dpu_top_region a -> dpu_top_region b -> ext_ok_region a b ->
  se_region cf a b = true -> se_region cf b a = true.
Proof.
  intros cf a b (N1 & N2 & W1) (N3 & N4 & W2) Da Db He H.
  apply complete_region_gen with (rt := cmp_rt cf); auto.
  apply iso_region_sym. apply sound_region_gen with (cf := cf); auto.
  intros E1 E2. congruence.
Qed.

(* ------------------------------------------------------------------------------------------ *)
(** * The clone model *)

Section CloneProofs.
  Variables (fv : vid -> vid) (fb : bid -> bid).

  Lemma map_fst_ren : forall l, map fst (ren_res fv l) = map fv (map fst l).
  Proof. intros l. unfold ren_res. rewrite !map_map. reflexivity. Qed.

  Lemma defs_blks_clone :
    (forall x, defs_op (clone_op fv fb x) = map fv (defs_op x) /\ blks_op (clone_op fv fb x) = map fb (blks_op x))
    /\ (forall l, defs_ops (clone_ops fv fb l) = map fv (defs_ops l) /\ blks_ops (clone_ops fv fb l) = map fb (blks_ops l))
    /\ (forall k, defs_block (clone_block fv fb k) = map fv (defs_block k) /\ blks_block (clone_block fv fb k) = map fb (blks_block k))
    /\ (forall r, defs_blocks (clone_blocks fv fb r) = map fv (defs_blocks r) /\ blks_blocks (clone_blocks fv fb r) = map fb (blks_blocks r))
    /\ (forall g, defs_regions (clone_regions fv fb g) = map fv (defs_regions g) /\ blks_regions (clone_regions fv fb g) = map fb (blks_regions g)).
  Proof.
    apply ir_mutind.
    - intros n os rs a p ss g [H1 H2] par. simpl.
      rewrite H1, H2, map_app, map_fst_ren. auto.
    - simpl. auto.
    - intros o [H1 H2] t [H3 H4]. simpl. rewrite H1, H2, H3, H4, !map_app. auto.
    - intros b args body [H1 H2]. simpl.
      rewrite H1, H2, map_app, map_fst_ren. auto.
    - simpl. auto.
    - intros k [H1 H2] t [H3 H4]. simpl. rewrite H1, H2, H3, H4, !map_app. auto.
    - simpl. auto.
    - intros r [H1 H2] t [H3 H4]. simpl. rewrite H1, H2, H3, H4, !map_app. auto.
  Qed.

  Lemma wfp_clone :
    (forall x, wfp_op x -> wfp_op (clone_op fv fb x))
    /\ (forall l, forall b, wfp_ops b l -> wfp_ops (fb b) (clone_ops fv fb l))
    /\ (forall k, wfp_block k -> wfp_block (clone_block fv fb k))
    /\ (forall r, wfp_blocks r -> wfp_blocks (clone_blocks fv fb r))
    /\ (forall g, wfp_regions g -> wfp_regions (clone_regions fv fb g)).
  Proof.
    apply ir_mutind.
    - intros n os rs a p ss g IH par H. simpl in *. auto.
    - simpl. auto.
    - intros o IHo t IHt b (Hp & Ho & Ht). simpl. repeat split; auto.
      destruct o. simpl in *. rewrite Hp. reflexivity.
    - intros b args body IH H. simpl in *. auto.
    - simpl. auto.
    - intros k IHk t IHt [H1 H2]. simpl. split; auto.
    - simpl. auto.
    - intros r IHr t IHt [H1 H2]. simpl. split; auto.
  Qed.

  Variable rt : bool.
  Variables Iva Ivb : list vid.
  Variables Iba Ibb : list bid.
  Hypothesis Hout_v : forall o, ~ In o Iva -> fv o = o.
  Hypothesis Hout_b : forall s, ~ In s Iba -> fb s = s.
  Notation Rv := (fun o o' => In o Iva /\ o' = fv o).
  Notation Rb := (fun s s' => In s Iba /\ s' = fb s).

  Lemma use_clone : forall (f : nat -> nat) (Ia Ib : list nat) o,
    (forall x, ~ In x Ia -> f x = x) -> (~ In o Ia -> ~ In o Ib) ->
    (In o Ia /\ f o = f o) \/ (~ In o Ia /\ ~ In (f o) Ib /\ o = f o).
  Proof.
    intros f Ia Ib o Hout Hfresh. destruct (in_dec Nat.eq_dec o Ia) as [Hi|Hn]; [left; auto|].
    right. rewrite (Hout o Hn). auto.
  Qed.

  Lemma Forall2_map_r : forall (A B : Type) (P : A -> B -> Prop) (f : A -> B) l,
    (forall x, In x l -> P x (f x)) -> Forall2 P l (map f l).
  Proof. induction l; simpl; intros H; constructor; auto. Qed.

  Lemma m_clone_all :
    (forall x, incl (defs_op x) Iva -> incl (blks_op x) Iba -> uses_op (Pext Iva Ivb) (Qext Iba Ibb) x ->
       m_op rt Rv Rb Iva Ivb Iba Ibb x (clone_op fv fb x))
    /\ (forall l, incl (defs_ops l) Iva -> incl (blks_ops l) Iba -> uses_ops (Pext Iva Ivb) (Qext Iba Ibb) l ->
       m_ops rt Rv Rb Iva Ivb Iba Ibb l (clone_ops fv fb l))
    /\ (forall k, incl (defs_block k) Iva -> incl (blks_block k) Iba -> uses_block (Pext Iva Ivb) (Qext Iba Ibb) k ->
       m_block rt Rv Rb Iva Ivb Iba Ibb k (clone_block fv fb k))
    /\ (forall r, incl (defs_blocks r) Iva -> incl (blks_blocks r) Iba -> uses_blocks (Pext Iva Ivb) (Qext Iba Ibb) r ->
       m_blocks rt Rv Rb Iva Ivb Iba Ibb r (clone_blocks fv fb r))
    /\ (forall g, incl (defs_regions g) Iva -> incl (blks_regions g) Iba -> uses_regions (Pext Iva Ivb) (Qext Iba Ibb) g ->
       m_regions rt Rv Rb Iva Ivb Iba Ibb g (clone_regions fv fb g)).
  Proof.
    apply ir_mutind.
    - intros n os rs a p ss g IHg par Hi1 Hi2 (Huo & Hus & Hug). simpl in Hi1, Hi2.
      apply incl_app_inv in Hi1. destruct Hi1 as [Hi1 Hi1'].
      simpl. split; [reflexivity|]. split; [reflexivity|]. split; [reflexivity|].
      split; [|split; [|split; [|apply IHg; assumption]]].
      + apply Forall2_map_r. intros o Ho. apply use_clone; [exact Hout_v|apply Huo; exact Ho].
      + unfold ren_res. apply Forall2_map_r. intros r Hr.
        split; [split; [apply Hi1'; apply in_map; exact Hr|reflexivity]|intros _; reflexivity].
      + apply Forall2_map_r. intros o Ho. apply use_clone; [exact Hout_b|apply Hus; exact Ho].
    - intros; simpl; auto.
    - intros o IHo t IHt Hi1 Hi2 [Hu1 Hu2]. simpl in Hi1, Hi2.
      apply incl_app_inv in Hi1. apply incl_app_inv in Hi2. destruct Hi1 as [A1 A2], Hi2 as [B1 B2].
      simpl. split; [apply IHo; assumption|apply IHt; assumption].
    - intros b args body IHb Hi1 Hi2 Hu. simpl in Hi1, Hi2, Hu.
      apply incl_app_inv in Hi1. destruct Hi1 as [Hi1 Hi1'].
      simpl. split; [|split].
      + split; [apply Hi2; simpl; auto|reflexivity].
      + unfold ren_res. apply Forall2_map_r. intros r Hr.
        split; [split; [apply Hi1; apply in_map; exact Hr|reflexivity]|reflexivity].
      + apply IHb; auto. intros z Hz. apply Hi2. simpl. auto.
    - intros; simpl; auto.
    - intros k IHk t IHt Hi1 Hi2 [Hu1 Hu2]. simpl in Hi1, Hi2.
      apply incl_app_inv in Hi1. apply incl_app_inv in Hi2. destruct Hi1 as [A1 A2], Hi2 as [B1 B2].
      simpl. split; [apply IHk; assumption|apply IHt; assumption].
    - intros; simpl; auto.
    - intros r IHr t IHt Hi1 Hi2 [Hu1 Hu2]. simpl in Hi1, Hi2.
      apply incl_app_inv in Hi1. apply incl_app_inv in Hi2. destruct Hi1 as [A1 A2], Hi2 as [B1 B2].
      simpl. split; [apply IHr; assumption|apply IHt; assumption].
  Qed.
End CloneProofs.

Lemma defs_detach : forall x, defs_op (detach x) = defs_op x /\ blks_op (detach x) = blks_op x.
Proof. intros []. auto. Qed.

Lemma m_op_detach : forall rt Rv Rb Iva Ivb Iba Ibb x y,
  m_op rt Rv Rb Iva Ivb Iba Ibb x y -> m_op rt Rv Rb Iva Ivb Iba Ibb x (detach y).
Proof. intros rt Rv Rb Iva Ivb Iba Ibb [] []. simpl. auto. Qed.

Lemma bij_map : forall (f : nat -> nat) (l : list nat),
  (forall x y, In x l -> In y l -> f x = f y -> x = y) ->
  bij (fun o o' => In o l /\ o' = f o) l (map f l).
Proof.
  intros f l Hinj. constructor.
  - intros x y [H ->]. split; [exact H|apply in_map; exact H].
  - intros x H. exists (f x). auto.
  - intros y H. apply in_map_iff in H. destruct H as (x & E & H). exists x. auto.
  - intros x y y' [_ ->] [_ ->]. reflexivity.
  - intros x x' y [H1 ->] [H2 E]. apply Hinj; auto.
Qed.

(* the conditions on the renaming: identity outside the cloned IR, injective inside *)
Definition renaming_ok (fv : vid -> vid) (fb : bid -> bid) (a : op) : Prop :=
  (forall o, ~ In o (defs_op a) -> fv o = o) /\ (forall s, ~ In s (blks_op a) -> fb s = s)
  /\ (forall x y, In x (defs_op a) -> In y (defs_op a) -> fv x = fv y -> x = y)
  /\ (forall x y, In x (blks_op a) -> In y (blks_op a) -> fb x = fb y -> x = y).

Lemma defs_clone_root : forall fv fb a,
  defs_op (clone_root fv fb a) = map fv (defs_op a) /\ blks_op (clone_root fv fb a) = map fb (blks_op a).
Proof.
  intros fv fb a. unfold clone_root. destruct (defs_detach (clone_op fv fb a)) as [E1 E2].
  rewrite E1, E2. apply (proj1 (defs_blks_clone fv fb)).
Qed.

(* freshness of the new ids is ext_ok_op a (clone): no outside use of a is one of the new ids *)
Theorem iso_clone : forall rt fv fb a,
  renaming_ok fv fb a -> ext_ok_op a (clone_root fv fb a) -> iso_op rt a (clone_root fv fb a).
Proof.
  intros rt fv fb a (Ho1 & Ho2 & Hi1 & Hi2) He.
  destruct (defs_clone_root fv fb a) as [E1 E2].
  exists (fun o o' => In o (defs_op a) /\ o' = fv o), (fun s s' => In s (blks_op a) /\ s' = fb s).
  rewrite E1, E2. split; [apply bij_map; exact Hi1|]. split; [apply bij_map; exact Hi2|].
  unfold clone_root. apply m_op_detach.
  apply (proj1 (m_clone_all fv fb rt _ _ _ _ Ho1 Ho2)); try apply incl_refl.
  unfold ext_ok_op in He. rewrite E1, E2 in He. exact He.
Qed.

Theorem clone_op_gen : forall cf fv fb a,
  wfp_op a -> dpu_top_op a -> renaming_ok fv fb a -> ext_ok_op a (clone_root fv fb a) ->
  se_op cf a (clone_root fv fb a) = true.
Proof.
  intros cf fv fb a W D R E.
  apply complete_op_gen with (rt := true); auto.
  - unfold clone_root. assert (X := proj1 (wfp_clone fv fb) a W). destruct (clone_op fv fb a). exact X.
  - intros _. right. unfold clone_root. destruct (clone_op fv fb a). reflexivity.
  - apply iso_clone; assumption.
Qed.

(* ------------------------------------------------------------------------------------------ *)
(** * Theorems, generic in the configuration (so that they survive a change of cfg_repo) *)

(* -- valid for every configuration (the extra hypotheses make up for the missing repairs) -- *)
Theorem sound_partial : forall cf a b,
  wf_op a -> wf_op b -> dpu_top_op a -> ext_ok_op a b -> rt_eq_op a b ->
  se_op cf a b = true -> iso_op true a b.
Proof. intros cf a b (N1 & N2 & _) (N3 & N4 & _) D E R H. apply sound_op_gen with (cf := cf); auto. Qed.

Theorem sound_upto_rt : forall cf a b,          (* without rt_eq: isomorphic up to result types *)
  wf_op a -> wf_op b -> dpu_top_op a -> ext_ok_op a b -> se_op cf a b = true -> iso_op false a b.
Proof.
  intros cf a b (N1 & N2 & _) (N3 & N4 & _) D E H.
  apply sound_op_gen with (cf := cf); auto. intros X; discriminate.
Qed.

Theorem complete_partial : forall cf a b,
  wf_op a -> wf_op b -> dpu_top_op a -> detached a b -> iso_op true a b -> se_op cf a b = true.
Proof.
  intros cf a b (_ & _ & W1) (_ & _ & W2) D P I.
  apply complete_op_gen with (rt := true); auto. intros _. exact P.
Qed.

Theorem refl_partial : forall cf a, op_parent a = None -> wfp_op a -> se_op cf a a = true.
Proof. intros cf a P W. apply refl_op_gen. auto. Qed.
Theorem refl_block : forall cf a, wfp_block a -> se_block cf a a = true.
Proof. intros cf a W. apply refl_block_gen. auto. Qed.
Theorem refl_region : forall cf a, wfp_blocks a -> se_region cf a a = true.
Proof. intros cf a W. apply refl_region_gen. auto. Qed.

Theorem sym_partial : forall cf a b,
  wf_op a -> wf_op b -> dpu_top_op a -> dpu_top_op b -> ext_ok_op a b -> detached a b ->
  se_op cf a b = true -> se_op cf b a = true.
Proof.
  intros cf a b Wa Wb Da Db E P H. apply sym_op_gen; auto.
  intros _. destruct P; [right|left]; assumption.
Qed.

(* -- with repair 1 (result types compared) -- *)
Theorem sound_fix1 : forall cf a b, cmp_rt cf = true ->
  wf_op a -> wf_op b -> dpu_top_op a -> ext_ok_op a b -> se_op cf a b = true -> iso_op true a b.
Proof.
  intros cf a b F (N1 & N2 & _) (N3 & N4 & _) D E H.
  apply sound_op_gen with (cf := cf); auto. intros _ X. congruence.
Qed.
Theorem sound_block_fix1 : forall cf a b, cmp_rt cf = true ->
  wf_block a -> wf_block b -> dpu_top_block a -> ext_ok_block a b -> se_block cf a b = true -> iso_block true a b.
Proof.
  intros cf a b F (N1 & N2 & _) (N3 & N4 & _) D E H.
  apply sound_block_gen with (cf := cf); auto. intros _ X. congruence.
Qed.
Theorem sound_region_fix1 : forall cf a b, cmp_rt cf = true ->
  wf_region a -> wf_region b -> dpu_top_region a -> ext_ok_region a b -> se_region cf a b = true -> iso_region true a b.
Proof.
  intros cf a b F (N1 & N2 & _) (N3 & N4 & _) D E H.
  apply sound_region_gen with (cf := cf); auto. intros _ X. congruence.
Qed.

(* -- with repair 3 (parent compared only when it is in the context) -- *)
Theorem complete_fix3 : forall cf a b, parent_strict cf = false ->
  wf_op a -> wf_op b -> dpu_top_op a -> iso_op true a b -> se_op cf a b = true.
Proof.
  intros cf a b F (_ & _ & W1) (_ & _ & W2) D I.
  apply complete_op_gen with (rt := true); auto. intros X. congruence.
Qed.
Theorem refl_fix3 : forall cf a, parent_strict cf = false -> se_op cf a a = true.
Proof. intros cf a F. apply refl_op_gen. intros X. congruence. Qed.
Theorem refl_block_fix3 : forall cf a, parent_strict cf = false -> se_block cf a a = true.
Proof. intros cf a F. apply refl_block_gen. intros X. congruence. Qed.
Theorem refl_region_fix3 : forall cf a, parent_strict cf = false -> se_region cf a a = true.
Proof. intros cf a F. apply refl_region_gen. intros X. congruence. Qed.
Theorem sym_fix3 : forall cf a b, parent_strict cf = false ->
  wf_op a -> wf_op b -> dpu_top_op a -> dpu_top_op b -> ext_ok_op a b ->
  se_op cf a b = true -> se_op cf b a = true.
Proof. intros cf a b F Wa Wb Da Db E H. apply sym_op_gen; auto. intros X. congruence. Qed.

(* -- block / region roots (no root parent check is involved), every configuration -- *)
Theorem complete_block : forall cf a b,
  wf_block a -> wf_block b -> dpu_top_block a -> iso_block true a b -> se_block cf a b = true.
Proof. intros cf a b (_ & _ & W1) (_ & _ & W2) D I. apply complete_block_gen with (rt := true); auto. Qed.
Theorem complete_region : forall cf a b,
  wf_region a -> wf_region b -> dpu_top_region a -> iso_region true a b -> se_region cf a b = true.
Proof. intros cf a b (_ & _ & W1) (_ & _ & W2) D I. apply complete_region_gen with (rt := true); auto. Qed.
Theorem sound_block_partial : forall cf a b,
  wf_block a -> wf_block b -> dpu_top_block a -> ext_ok_block a b -> rt_eq_block a b ->
  se_block cf a b = true -> iso_block true a b.
Proof. intros cf a b (N1 & N2 & _) (N3 & N4 & _) D E R H. apply sound_block_gen with (cf := cf); auto. Qed.
Theorem sound_region_partial : forall cf a b,
  wf_region a -> wf_region b -> dpu_top_region a -> ext_ok_region a b -> rt_eq_blocks a b ->
  se_region cf a b = true -> iso_region true a b.
Proof. intros cf a b (N1 & N2 & _) (N3 & N4 & _) D E R H. apply sound_region_gen with (cf := cf); auto. Qed.

(* ------------------------------------------------------------------------------------------ *)
(** * Witnesses *)

Ltac conc := repeat (first [progress simpl | progress intros | split | constructor]);
             try solve [intuition (subst; simpl in *; try lia; try discriminate; try tauto)].

(* (1) result types differ: test.op() : i32  vs  test.op() : i64 *)
Definition w1_a : op := Op 0 [] [(1, 0)] 0 0 [] GNil None.
Definition w1_b : op := Op 0 [] [(2, 1)] 0 0 [] GNil None.

Lemma w1_facts : wf_op w1_a /\ wf_op w1_b /\ dpu_top_op w1_a /\ ext_ok_op w1_a w1_b /\ detached w1_a w1_b
  /\ se_op cfg_original w1_a w1_b = true /\ ~ iso_op true w1_a w1_b /\ se_op cfg_fixed w1_a w1_b = false.
Proof.
  repeat split; try (vm_compute; reflexivity); try (left; reflexivity); try solve [conc].
  intros (Rv & Rb & _ & _ & Hm). simpl in Hm. destruct Hm as (_ & _ & _ & _ & Hr & _).
  inversion Hr as [|? ? ? ? [_ Ht] _]; subst. simpl in Ht. specialize (Ht eq_refl). discriminate.
Qed.

(* (2) use before def (graph region): module { "use"(%d) ; %d = "def"() } vs its clone *)
Definition w2_a : op :=
  Op 9 [] [] 0 0 []
     (GCons (BCons (Blk 1 [] (OCons (Op 0 [5] [] 0 0 [] GNil (Some 1))
                             (OCons (Op 1 [] [(5, 0)] 0 0 [] GNil (Some 1)) ONil))) BNil) GNil) None.
Definition w2_fv (o : vid) : vid := if o =? 5 then 15 else o.
Definition w2_fb (s : bid) : bid := if s =? 1 then 11 else s.

Lemma w2_renaming : renaming_ok w2_fv w2_fb w2_a.
Proof.
  unfold renaming_ok, w2_fv, w2_fb. simpl. repeat split.
  - intros o H. destruct (o =? 5) eqn:E; [apply Nat.eqb_eq in E; subst; exfalso; apply H; auto|reflexivity].
  - intros o H. destruct (o =? 1) eqn:E; [apply Nat.eqb_eq in E; subst; exfalso; apply H; auto|reflexivity].
  - intros x y [Hx|[]] [Hy|[]]. congruence.
  - intros x y [Hx|[]] [Hy|[]]. congruence.
Qed.

Lemma w2_ext : ext_ok_op w2_a (clone_root w2_fv w2_fb w2_a).
Proof. vm_compute. intuition. Qed.

Lemma w2_wf : wf_op w2_a /\ wf_op (clone_root w2_fv w2_fb w2_a).
Proof. split; repeat split; simpl; try (repeat constructor; simpl; tauto); auto. Qed.

Lemma w2_facts : forall cf,
  se_op cf w2_a w2_a = true /\ se_op cf w2_a (clone_root w2_fv w2_fb w2_a) = false
  /\ iso_op true w2_a (clone_root w2_fv w2_fb w2_a).
Proof.
  intros [[] []]; (split; [vm_compute; reflexivity|split; [vm_compute; reflexivity|]]);
    apply iso_clone; [apply w2_renaming|apply w2_ext| apply w2_renaming|apply w2_ext
                      | apply w2_renaming|apply w2_ext| apply w2_renaming|apply w2_ext].
Qed.

(* (3) an op attached to a block compared with itself *)
Definition w3_a : op := Op 0 [] [] 0 0 [] GNil (Some 7).
Lemma w3_facts : wfp_op w3_a /\ se_op cfg_original w3_a w3_a = false /\ se_op cfg_fixed w3_a w3_a = true.
Proof. repeat split; vm_compute; auto. Qed.

(* (4) two blocks of one region, the first dominating the second:
       ^b1: %5 = "def"() ; "use"(%5)         ^b2: %6 = "def"() ; "use"(%5)
   b2 ~ b1 is reported (the outside operand %5 of b2 is compared by identity with b1's own %5),
   b1 ~ b2 is not; they are not isomorphic *)
Definition w4_b1 : block :=
  Blk 1 [] (OCons (Op 1 [] [(5, 0)] 0 0 [] GNil (Some 1)) (OCons (Op 0 [5] [] 0 0 [] GNil (Some 1)) ONil)).
Definition w4_b2 : block :=
  Blk 2 [] (OCons (Op 1 [] [(6, 0)] 0 0 [] GNil (Some 2)) (OCons (Op 0 [5] [] 0 0 [] GNil (Some 2)) ONil)).

Lemma w4_facts : forall cf,
  wf_block w4_b1 /\ wf_block w4_b2 /\ dpu_top_block w4_b1 /\ dpu_top_block w4_b2
  /\ se_block cf w4_b2 w4_b1 = true /\ se_block cf w4_b1 w4_b2 = false /\ ~ iso_block true w4_b2 w4_b1.
Proof.
  intros cf. repeat split; try (destruct cf as [[] []]; vm_compute; reflexivity); try solve [conc].
  intros (Rv & Rb & Bv & _ & Hm). simpl in Hm.
  destruct Hm as (_ & _ & (_ & _ & _ & _ & Hr & _) & (_ & _ & _ & Hu & _) & _).
  inversion Hr as [|? ? ? ? [Hr1 _] _]; subst. simpl in Hr1.
  inversion Hu as [|? ? ? ? Hc _]; subst. destruct Hc as [Hc|(_ & Hc & _)].
  - destruct (bij_dom _ _ _ Bv _ _ Hc) as [Hd _]. simpl in Hd. intuition discriminate.
  - apply Hc. simpl. auto.
Qed.

(* non-vacuity: a nested IR with block arguments, a successor, an outside operand (40) and backward
   references, all side conditions hold, equivalent to its clone and to itself, in both configurations *)
Definition nv_a : op :=
  Op 9 [40] [(1, 0)] 3 4 []
     (GCons (BCons (Blk 1 [(2, 0); (3, 1)]
                        (OCons (Op 0 [2; 40] [(4, 0)] 1 0 [] GNil (Some 1))
                        (OCons (Op 2 [4] [] 0 0 [2]
                                   (GCons (BCons (Blk 3 [] (OCons (Op 0 [4; 3] [(6, 1)] 0 0 [] GNil (Some 3)) ONil)) BNil) GNil)
                                   (Some 1)) ONil)))
            (BCons (Blk 2 [(5, 0)] (OCons (Op 2 [5; 4] [] 0 0 [1] GNil (Some 2)) ONil)) BNil)) GNil) None.
Definition nv_fv (o : vid) : vid := if (1 <=? o) && (o <=? 6) then o + 20 else o.
Definition nv_fb (s : bid) : bid := if (1 <=? s) && (s <=? 3) then s + 20 else s.

Lemma nv_wf : wf_op nv_a.
Proof.
  unfold wf_op. split; [|split].
  - vm_compute. repeat constructor; simpl; intuition discriminate.
  - vm_compute. repeat constructor; simpl; intuition discriminate.
  - simpl. tauto.
Qed.

Lemma nv_dpu : dpu_top_op nv_a.
Proof.
  unfold dpu_top_op. simpl.
  repeat split; intros z Hz Hi; simpl in *;
    repeat (destruct Hz as [Hz|Hz]; [subst z; simpl in *; intuition discriminate|]); try contradiction.
Qed.

Lemma nv_ren : renaming_ok nv_fv nv_fb nv_a.
Proof.
  unfold renaming_ok. simpl. repeat split.
  - intros o H. unfold nv_fv.
    destruct ((1 <=? o) && (o <=? 6)) eqn:E; [|reflexivity]. exfalso.
    apply andb_true_iff in E. destruct E as [E1 E2]. apply Nat.leb_le in E1, E2. apply H.
    assert (X : o = 1 \/ o = 2 \/ o = 3 \/ o = 4 \/ o = 5 \/ o = 6) by lia. intuition.
  - intros o H. unfold nv_fb.
    destruct ((1 <=? o) && (o <=? 3)) eqn:E; [|reflexivity]. exfalso.
    apply andb_true_iff in E. destruct E as [E1 E2]. apply Nat.leb_le in E1, E2. apply H.
    assert (X : o = 1 \/ o = 2 \/ o = 3) by lia. intuition.
  - intros x y Hx Hy. unfold nv_fv. intuition (subst; simpl in *; try lia).
  - intros x y Hx Hy. unfold nv_fb. intuition (subst; simpl in *; try lia).
Qed.

Lemma nv_ext : ext_ok_op nv_a (clone_root nv_fv nv_fb nv_a).
Proof.
  unfold ext_ok_op. vm_compute.
  repeat split; intros z Hz Hn Hi;
    repeat (destruct Hz as [Hz|Hz]; [subst z; intuition discriminate|]); try contradiction.
Qed.

Lemma nv_facts :
  wf_op nv_a /\ dpu_top_op nv_a /\ renaming_ok nv_fv nv_fb nv_a /\ ext_ok_op nv_a (clone_root nv_fv nv_fb nv_a)
  /\ se_op cfg_original nv_a (clone_root nv_fv nv_fb nv_a) = true
  /\ se_op cfg_fixed nv_a (clone_root nv_fv nv_fb nv_a) = true
  /\ se_op cfg_original (clone_root nv_fv nv_fb nv_a) nv_a = true
  /\ se_op cfg_original nv_a nv_a = true.
Proof.
  split; [exact nv_wf|]. split; [exact nv_dpu|]. split; [exact nv_ren|]. split; [exact nv_ext|].
  repeat split; vm_compute; reflexivity.
Qed.

(* ------------------------------------------------------------------------------------------ *)
(** * Refutations of the original code = cfg_original (statements repeated in Props/C03.v) *)

Lemma sound_refuted_lemma : exists a b,
  wf_op a /\ wf_op b /\ dpu_top_op a /\ ext_ok_op a b /\ detached a b
  /\ se_op cfg_original a b = true /\ ~ iso_op true a b.
Proof. exists w1_a, w1_b. pose proof w1_facts as H. tauto. Qed.

Lemma complete_refuted_lemma : exists a b,
  wf_op a /\ wf_op b /\ detached a b /\ iso_op true a b /\ se_op cfg_original a b = false.
Proof.
  exists w2_a, (clone_root w2_fv w2_fb w2_a).
  pose proof w2_wf as [H1 H2]. pose proof (w2_facts cfg_original) as (_ & H3 & H4).
  repeat split; try assumption; apply H1 || apply H2 || (left; reflexivity).
Qed.

Lemma refl_refuted_lemma : exists a, wfp_op a /\ se_op cfg_original a a = false.
Proof. exists w3_a. pose proof w3_facts as H. tauto. Qed.

Lemma sym_refuted_lemma : exists a b,
  wf_block a /\ wf_block b /\ dpu_top_block a /\ dpu_top_block b
  /\ se_block cfg_original a b = true /\ se_block cfg_original b a = false /\ ~ iso_block true a b.
Proof. exists w4_b2, w4_b1. pose proof (w4_facts cfg_original) as H. tauto. Qed.

Lemma clone_refuted_lemma : exists a fv fb,
  wf_op a /\ renaming_ok fv fb a /\ ext_ok_op a (clone_root fv fb a)
  /\ se_op cfg_original a a = true /\ se_op cfg_original a (clone_root fv fb a) = false.
Proof.
  exists w2_a, w2_fv, w2_fb. pose proof w2_wf as [H1 _]. pose proof (w2_facts cfg_original) as (H2 & H3 & _).
  pose proof w2_renaming. pose proof w2_ext. tauto.
Qed.

Lemma fixed_forward_ref_persists_lemma : exists a fv fb,
  wf_op a /\ renaming_ok fv fb a /\ ext_ok_op a (clone_root fv fb a)
  /\ iso_op true a (clone_root fv fb a) /\ se_op cfg_fixed a (clone_root fv fb a) = false.
Proof.
  exists w2_a, w2_fv, w2_fb. pose proof w2_wf as [H1 _]. pose proof (w2_facts cfg_fixed) as (_ & H3 & H4).
  pose proof w2_renaming. pose proof w2_ext. tauto.
Qed.

Lemma fixed_outside_operand_persists_lemma : exists a b,
  wf_block a /\ wf_block b /\ dpu_top_block a /\ dpu_top_block b
  /\ se_block cfg_fixed a b = true /\ se_block cfg_fixed b a = false /\ ~ iso_block true a b.
Proof. exists w4_b2, w4_b1. pose proof (w4_facts cfg_fixed) as H. tauto. Qed.

