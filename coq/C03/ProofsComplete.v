(* C03/ProofsComplete.v -- completeness (isomorphic IR is reported equivalent when defs precede
   uses on the left and the parent check at the root passes) and reflexivity. *)
From Coq Require Import List Arith Bool Lia.
From XV Require Import C03.Model C03.ProofsSpec C03.ProofsSound.
Import ListNotations.

Lemma in_combine_map_inv : forall (A B : Type) (f : A -> B) l l' p,
  In p (combine (map f l) (map f l')) -> exists x y, p = (f x, f y) /\ In (x, y) (combine l l').
Proof.
  induction l as [|a l IH]; destruct l' as [|b l']; simpl; intros p H; try contradiction.
  destruct H as [H|H].
  - exists a, b. auto.
  - destruct (IH _ _ H) as (x & y & E & Hi). exists x, y. auto.
Qed.

Lemma Forall2_impl' : forall (A B : Type) (P Q : A -> B -> Prop) l l',
  Forall2 P l l' -> (forall x y, P x y -> Q x y) -> Forall2 Q l l'.
Proof. induction 1; intros HI; constructor; auto. Qed.

Lemma Forall2_map_eq : forall (A B C : Type) (f : A -> C) (g : B -> C) l l',
  Forall2 (fun x y => f x = g y) l l' -> map f l = map g l'.
Proof. induction 1; simpl; congruence. Qed.

Section Complete.
  Variable cf : cfg.
  Variable rt : bool.
  Variables Rv Rb : nat -> nat -> Prop.
  Variables Iva Ivb : list vid.
  Variables Iba Ibb : list bid.
  Hypothesis Hfv : forall x y y', Rv x y -> Rv x y' -> y = y'.
  Hypothesis Hfb : forall x y y', Rb x y -> Rb x y' -> y = y'.
  Hypothesis Hdv : forall x y, Rv x y -> In x Iva.
  Hypothesis Hdb : forall x y, Rb x y -> In x Iba.
  Hypothesis Hrt : cmp_rt cf = true -> rt = true.

  Notation M_op := (m_op rt Rv Rb Iva Ivb Iba Ibb).
  Notation M_ops := (m_ops rt Rv Rb Iva Ivb Iba Ibb).
  Notation M_block := (m_block rt Rv Rb Iva Ivb Iba Ibb).
  Notation M_blocks := (m_blocks rt Rv Rb Iva Ivb Iba Ibb).
  Notation M_regions := (m_regions rt Rv Rb Iva Ivb Iba Ibb).
  Notation IR := (in_rel Rv Rb).

  Lemma m_ops_len : forall l l', M_ops l l' -> ops_len l = ops_len l'.
  Proof. induction l as [|o t IH]; intros [|o' t'] H; simpl in *; try contradiction; auto. destruct H as [_ H]. f_equal. apply IH. exact H. Qed.
  Lemma m_blocks_len : forall l l', M_blocks l l' -> blocks_len l = blocks_len l'.
  Proof. induction l as [|o t IH]; intros [|o' t'] H; simpl in *; try contradiction; auto. destruct H as [_ H]. f_equal. apply IH. exact H. Qed.
  Lemma m_regions_len : forall l l', M_regions l l' -> regions_len l = regions_len l'.
  Proof. induction l as [|o t IH]; intros [|o' t'] H; simpl in *; try contradiction; auto. destruct H as [_ H]. f_equal. apply IH. exact H. Qed.

  Lemma m_blocks_ids : forall r r', M_blocks r r' ->
    forall p, In p (combine (blocks_ids r) (blocks_ids r')) -> Rb (fst p) (snd p).
  Proof.
    induction r as [|k t IH]; destruct r' as [|k' t']; simpl; intros H p Hp; try contradiction.
    destruct H as [Hk Ht]. destruct Hp as [Hp|Hp]; [|apply IH with (r' := t'); assumption].
    subst p. destruct k, k'. simpl in *. tauto.
  Qed.

  Lemma use_complete : forall (l : list (nat * nat)) (R : nat -> nat -> Prop) (Ia Ib seen : list nat) o o',
    R o o' \/ (~ In o Ia /\ ~ In o' Ib /\ o = o') ->
    (forall p, In p l -> R (fst p) (snd p)) ->
    (forall x y y', R x y -> R x y' -> y = y') -> (forall x y, R x y -> In x Ia) ->
    (In o Ia -> In o seen) -> (forall x, In x seen -> In x (map fst l)) ->
    get_or_self l o = o'.
  Proof.
    intros l R Ia Ib seen o o' Hc HR Hf Hd Hs Hcov. unfold get_or_self.
    destruct (lookup l o) as [q|] eqn:E.
    - apply lookup_some_in in E. apply HR in E. simpl in E.
      destruct Hc as [Hc|(Hn & _ & _)]; [eapply Hf; eauto|]. exfalso. apply Hn. eapply Hd; eauto.
    - apply lookup_none_notin in E.
      destruct Hc as [Hc|(_ & _ & Hc)]; [|exact Hc]. exfalso. apply E, Hcov, Hs. eapply Hd; eauto.
  Qed.

  Lemma parent_ok_in : forall c b b', IR c -> In (b, b') (cb c) ->
    parent_fail cf c (Some b) (Some b') = false.
  Proof.
    intros c b b' [_ HRb] Hin. unfold parent_fail.
    destruct (in_lookup_some _ _ _ Hin) as [q Hq]. rewrite Hq.
    apply lookup_some_in in Hq. apply HRb in Hq. apply HRb in Hin. simpl in *.
    rewrite (Hfb _ _ _ Hq Hin). rewrite Nat.eqb_refl. reflexivity.
  Qed.

  Lemma complete_all :
    (forall x c y sv sb, M_op x y -> IR c -> dpu_op Iva Iba sv sb x -> covers c sv sb ->
       parent_fail cf c (op_parent x) (op_parent y) = false -> wfp_op x -> wfp_op y ->
       exists c', equiv_op cf c x y = (true, c') /\ IR c')
    /\ (forall l c l' sv sb b b', M_ops l l' -> IR c -> dpu_ops Iva Iba sv sb l -> covers c sv sb ->
       wfp_ops b l -> wfp_ops b' l' -> In (b, b') (cb c) ->
       exists c', equiv_ops cf c l l' = (true, c') /\ IR c')
    /\ (forall k c k' sv sb, M_block k k' -> IR c -> dpu_block Iva Iba sv sb k -> covers c sv sb ->
       wfp_block k -> wfp_block k' ->
       exists c', equiv_block cf c k k' = (true, c') /\ IR c')
    /\ (forall r c r' sv sb, M_blocks r r' -> IR c -> dpu_blocks Iva Iba sv sb r -> covers c sv sb ->
       wfp_blocks r -> wfp_blocks r' ->
       exists c', equiv_blocks cf c r r' = (true, c') /\ IR c')
    /\ (forall g c g' sv sb, M_regions g g' -> IR c -> dpu_regions Iva Iba sv sb g -> covers c sv sb ->
       wfp_regions g -> wfp_regions g' ->
       exists c', equiv_regions cf c g g' = (true, c') /\ IR c').
  Proof.
    apply ir_mutind.
    - (* Op *)
      intros n os rs a p ss g IHg par c y sv sb Hm HR Hd Hc Hpar Hw Hw'.
      destruct y as [n' os' rs' a' p' ss' g' par']. cbn [m_op] in Hm.
      destruct Hm as (En & Ea & Ep & Hos & Hrs & Hss & Hg). subst n' a' p'.
      destruct Hd as (Hdo & Hds & Hdg). destruct Hc as [Hc1 Hc2].
      simpl in Hpar, Hw, Hw'.
      destruct (IHg c g' sv sb Hg HR Hdg (conj Hc1 Hc2) Hw Hw') as (c1 & Eg & HR1).
      assert (El1 := Forall2_len _ _ _ _ _ Hos). assert (El2 := Forall2_len _ _ _ _ _ Hrs).
      assert (El3 := Forall2_len _ _ _ _ _ Hss). assert (El4 := m_regions_len _ _ Hg).
      assert (Hty : cmp_rt cf && negb (nats_eqb (map snd rs) (map snd rs')) = false).
      { destruct (cmp_rt cf) eqn:Ecmp; [|reflexivity]. simpl. apply negb_false_iff, nats_eqb_eq.
        apply Forall2_map_eq. eapply Forall2_impl'; [exact Hrs|]. intros r r' [_ Ht]. apply Ht, Hrt. reflexivity. }
      assert (Ho : all_mapped (cv c) os os' = true).
      { apply all_mapped_complete. eapply Forall2_in_impl; [exact Hos|]. intros o o' Hio _ Hcorr.
        destruct HR as [HRv _].
        apply (use_complete (cv c) Rv Iva Ivb sv o o' Hcorr HRv Hfv Hdv); auto. }
      assert (Hs : all_mapped (cb c) ss ss' = true).
      { apply all_mapped_complete. eapply Forall2_in_impl; [exact Hss|]. intros s s' His _ Hcorr.
        destruct HR as [_ HRb].
        apply (use_complete (cb c) Rb Iba Ibb sb s s' Hcorr HRb Hfb Hdb); auto. }
      cbn [equiv_op]. rewrite Nat.eqb_refl. cbn [negb].
      rewrite <- El1, <- El2, <- El3, <- El4, !Nat.eqb_refl, Hty. cbn [negb orb].
      rewrite Hpar, Ho, Hs. cbn [negb]. rewrite Eg. cbn [negb].
      eexists. split; [reflexivity|].
      destruct HR1 as [HRv1 HRb1]. split; cbn [cv cb]; [|exact HRb1].
      intros q Hq. apply reg_results_in in Hq. destruct Hq as [Hq|Hq]; [|apply HRv1; exact Hq].
      apply in_combine_map_inv in Hq. destruct Hq as (r & r' & -> & Hin).
      apply (Forall2_combine_inv _ _ _ _ _ Hrs) in Hin. destruct Hin as [Hin _]. exact Hin.
    - (* ONil *)
      intros c l' sv sb b b' Hm HR _ _ _ _ _. destruct l'; simpl in Hm; [|contradiction].
      exists c. auto.
    - (* OCons *)
      intros o IHo t IHt c l' sv sb b b' Hm HR Hd Hc Hw Hw' Hin.
      destruct l' as [|o' t']; simpl in Hm; [contradiction|]. destruct Hm as [Hmo Hmt].
      destruct Hd as [Hd1 Hd2]. destruct Hw as (Hp & Hwo & Hwt). destruct Hw' as (Hp' & Hwo' & Hwt').
      assert (Hpar : parent_fail cf c (op_parent o) (op_parent o') = false).
      { rewrite Hp, Hp'. apply parent_ok_in; assumption. }
      destruct (IHo c o' sv sb Hmo HR Hd1 Hc Hpar Hwo Hwo') as (c1 & Eo & HR1).
      assert (Xo := proj1 equiv_ext o cf c o' c1 Eo).
      destruct (IHt c1 t' _ _ b b' Hmt HR1 Hd2 (covers_ext _ _ _ _ _ _ _ _ Hc Xo) Hwt Hwt'
                  (ext_mono_b _ _ _ _ _ _ _ Xo Hin)) as (c2 & Et & HR2).
      exists c2. cbn [equiv_ops]. rewrite Eo. auto.
    - (* Blk *)
      intros b args body IHb c k' sv sb Hm HR Hd Hc Hw Hw'. destruct k' as [b' args' body'].
      cbn [m_block] in Hm. destruct Hm as (Hb & Hargs & Hbody).
      simpl in Hd, Hw, Hw'.
      assert (El1 := Forall2_len _ _ _ _ _ Hargs). assert (El2 := m_ops_len _ _ Hbody).
      destruct (reg_args_complete args args' (cv c)) as [v1 Ha].
      { eapply Forall2_impl'; [exact Hargs|]. intros r r' [_ Ht]. exact Ht. }
      assert (Epre := block_pre_ext c args args' v1 b b' Ha El1).
      destruct (reg_args_true _ _ _ _ Ha) as [Ha1 _].
      assert (HR0 : IR (Ctx v1 ((b, b') :: cb c))).
      { destruct HR as [HRv HRb]. split; cbn [cv cb].
        - intros q Hq. apply Ha1 in Hq. destruct Hq as [Hq|Hq]; [|apply HRv; exact Hq].
          apply in_combine_map_inv in Hq. destruct Hq as (r & r' & -> & Hin).
          apply (Forall2_combine_inv _ _ _ _ _ Hargs) in Hin. destruct Hin as [Hin _]. exact Hin.
        - intros q [Hq|Hq]; [subst q; exact Hb|apply HRb; exact Hq]. }
      destruct (IHb _ body' _ _ b b' Hbody HR0 Hd (covers_ext _ _ _ _ _ _ _ _ Hc Epre) Hw Hw')
        as (c2 & Eb & HR2); [simpl; auto|].
      exists c2. cbn [equiv_block]. rewrite <- El1, <- El2, !Nat.eqb_refl. cbn [negb orb].
      rewrite Ha. cbn [negb]. auto.
    - (* BNil *)
      intros c r' sv sb Hm HR _ _ _ _. destruct r'; simpl in Hm; [|contradiction]. exists c. auto.
    - (* BCons *)
      intros k IHk t IHt c r' sv sb Hm HR Hd Hc Hw Hw'.
      destruct r' as [|k' t']; simpl in Hm; [contradiction|]. destruct Hm as [Hmk Hmt].
      destruct Hd as [Hd1 Hd2]. destruct Hw as [Hwk Hwt]. destruct Hw' as [Hwk' Hwt'].
      destruct (IHk c k' sv sb Hmk HR Hd1 Hc Hwk Hwk') as (c1 & Ek & HR1).
      assert (Xk := proj1 (proj2 (proj2 equiv_ext)) k cf c k' c1 Ek).
      destruct (IHt c1 t' _ _ Hmt HR1 Hd2 (covers_ext _ _ _ _ _ _ _ _ Hc Xk) Hwt Hwt') as (c2 & Et & HR2).
      exists c2. cbn [equiv_blocks]. rewrite Ek. auto.
    - (* GNil *)
      intros c g' sv sb Hm HR _ _ _ _. destruct g'; simpl in Hm; [|contradiction]. exists c. auto.
    - (* GCons *)
      intros r IHr t IHt c g' sv sb Hm HR Hd Hc Hw Hw'.
      destruct g' as [|r' t']; simpl in Hm; [contradiction|]. destruct Hm as [Hmr Hmt].
      destruct Hd as [Hd1 Hd2]. destruct Hw as [Hwr Hwt]. destruct Hw' as [Hwr' Hwt'].
      assert (Hbl := m_blocks_len _ _ Hmr).
      assert (Epre := region_pre_ext c r r' Hbl).
      assert (HR0 : IR (Ctx (cv c) (reg_blocks (cb c) r r'))).
      { destruct HR as [HRv HRb]. split; cbn [cv cb]; [exact HRv|].
        intros q Hq. apply reg_blocks_in in Hq. destruct Hq as [Hq|Hq]; [|apply HRb; exact Hq].
        eapply m_blocks_ids; eauto. }
      assert (Hc0 := covers_ext _ _ _ _ _ _ _ _ Hc Epre). simpl in Hc0.
      destruct (IHr _ r' _ _ Hmr HR0 Hd1 Hc0 Hwr Hwr') as (c1 & Er & HR1).
      destruct (proj1 (proj2 (proj2 (proj2 equiv_ext))) r cf _ r' c1 Er Hbl) as [Xr _].
      assert (Hc1 : covers c1 (defs_blocks r ++ sv) (blks_blocks r ++ sb)).
      { eapply covers_incl; [eapply covers_ext; [exact Hc0|exact Xr]|apply incl_refl|].
        intros z Hz. apply in_app_iff in Hz. apply in_app_iff.
        destruct Hz as [Hz|Hz]; [left; exact Hz|right; apply in_app_iff; right; exact Hz]. }
      destruct (IHt c1 t' _ _ Hmt HR1 Hd2 Hc1 Hwt Hwt') as (c2 & Et & HR2).
      exists c2. rewrite equiv_regions_cons. unfold equiv_region, region_pre.
      rewrite Hbl, Nat.eqb_refl. cbn [negb]. rewrite Er. auto.
  Qed.
End Complete.

(* ---- top level ---- *)

Definition root_parent_ok (cf : cfg) (a b : op) : Prop := parent_strict cf = true -> detached a b.

Lemma parent_fail_top : forall cf a b, root_parent_ok cf a b ->
  parent_fail cf empty_ctx (op_parent a) (op_parent b) = false.
Proof.
  intros cf a b H. unfold root_parent_ok in H. unfold parent_fail. destruct (op_parent a) eqn:Ea; [|reflexivity].
  destruct (op_parent b) eqn:Eb; [|reflexivity]. simpl.
  destruct (parent_strict cf); [|reflexivity].
  destruct (H eq_refl) as [X|X]; congruence.
Qed.

Lemma in_rel_empty : forall Rv Rb, in_rel Rv Rb empty_ctx.
Proof. intros. split; intros p H; inversion H. Qed.

Theorem complete_op_gen : forall cf rt a b,
  (cmp_rt cf = true -> rt = true) -> wfp_op a -> wfp_op b -> dpu_top_op a -> root_parent_ok cf a b ->
  iso_op rt a b -> se_op cf a b = true.
Proof.
  intros cf rt a b Hrt Wa Wb Hd Hp (Rv & Rb & Bv & Bb & Hm).
  destruct (proj1 (complete_all cf rt Rv Rb _ _ _ _ (bij_fun _ _ _ Bv) (bij_fun _ _ _ Bb)
              (fun x y H => proj1 (bij_dom _ _ _ Bv x y H)) (fun x y H => proj1 (bij_dom _ _ _ Bb x y H)) Hrt)
              a empty_ctx b [] [] Hm (in_rel_empty _ _) Hd (covers_nil _) (parent_fail_top _ _ _ Hp) Wa Wb)
    as (c' & E & _).
  unfold se_op. rewrite E. reflexivity.
Qed.

Theorem complete_block_gen : forall cf rt a b,
  (cmp_rt cf = true -> rt = true) -> wfp_block a -> wfp_block b -> dpu_top_block a ->
  iso_block rt a b -> se_block cf a b = true.
Proof.
  intros cf rt a b Hrt Wa Wb Hd (Rv & Rb & Bv & Bb & Hm).
  destruct (proj1 (proj2 (proj2 (complete_all cf rt Rv Rb _ _ _ _ (bij_fun _ _ _ Bv) (bij_fun _ _ _ Bb)
              (fun x y H => proj1 (bij_dom _ _ _ Bv x y H)) (fun x y H => proj1 (bij_dom _ _ _ Bb x y H)) Hrt)))
              a empty_ctx b [] [] Hm (in_rel_empty _ _) Hd (covers_nil _) Wa Wb)
    as (c' & E & _).
  unfold se_block. rewrite E. reflexivity.
Qed.

Theorem complete_region_gen : forall cf rt a b,
  (cmp_rt cf = true -> rt = true) -> wfp_blocks a -> wfp_blocks b -> dpu_top_region a ->
  iso_region rt a b -> se_region cf a b = true.
Proof.
  intros cf rt a b Hrt Wa Wb Hd (Rv & Rb & Bv & Bb & Hm).
  assert (Hfv := bij_fun _ _ _ Bv). assert (Hfb := bij_fun _ _ _ Bb).
  assert (Hdv := fun x y H => proj1 (bij_dom _ _ _ Bv x y H)).
  assert (Hdb := fun x y H => proj1 (bij_dom _ _ _ Bb x y H)).
  assert (Hbl := m_blocks_len _ _ _ _ _ _ _ _ _ Hm).
  assert (Epre := region_pre_ext empty_ctx a b Hbl).
  assert (HR0 : in_rel Rv Rb (Ctx [] (reg_blocks [] a b))).
  { split; cbn [cv cb]; [intros p H; inversion H|].
    intros q Hq. apply reg_blocks_in in Hq. destruct Hq as [Hq|Hq]; [|inversion Hq].
    eapply m_blocks_ids; eauto. }
  assert (Hc0 := covers_ext _ _ _ _ _ _ _ _ (covers_nil empty_ctx) Epre). simpl in Hc0.
  rewrite app_nil_r in Hc0.
  destruct (proj1 (proj2 (proj2 (proj2 (complete_all cf rt Rv Rb _ _ _ _ Hfv Hfb Hdv Hdb Hrt))))
              a _ b _ _ Hm HR0 Hd Hc0 Wa Wb) as (c' & E & _).
  unfold se_region, equiv_region, region_pre. rewrite Hbl, Nat.eqb_refl. cbn [negb].
  simpl cv. simpl cb. rewrite E. reflexivity.
Qed.

(* ------------------------------------------------------------------------------------------ *)
(** * Reflexivity (no scoping hypothesis: forward references and graph regions included) *)

Definition idctx (c : ctx) : Prop :=
  (forall p, In p (cv c) -> fst p = snd p) /\ (forall p, In p (cb c) -> fst p = snd p).

Lemma get_id : forall l o, (forall p : nat * nat, In p l -> fst p = snd p) -> get_or_self l o = o.
Proof.
  intros l o H. unfold get_or_self. destruct (lookup l o) eqn:E; [|reflexivity].
  apply lookup_some_in in E. apply H in E. simpl in E. auto.
Qed.

Lemma all_mapped_id : forall l xs, (forall p : nat * nat, In p l -> fst p = snd p) -> all_mapped l xs xs = true.
Proof.
  intros l xs H. apply all_mapped_complete. induction xs; constructor; auto. apply get_id. exact H.
Qed.

Lemma nats_eqb_refl : forall l, nats_eqb l l = true.
Proof. intros l. apply nats_eqb_eq. reflexivity. Qed.

Lemma combine_same : forall (A : Type) (l : list A) p, In p (combine l l) -> fst p = snd p.
Proof. induction l; simpl; intros p H; [contradiction|]. destruct H as [H|H]; [subst; reflexivity|auto]. Qed.

Section Refl.
  Variable cf : cfg.

  Lemma parent_refl : forall c p, idctx c ->
    (parent_strict cf = true -> forall b, p = Some b -> In (b, b) (cb c)) ->
    parent_fail cf c p p = false.
  Proof.
    intros c p [_ Hid] H. unfold parent_fail. destruct p as [b|]; [|reflexivity].
    destruct (lookup (cb c) b) as [q|] eqn:E.
    - apply lookup_some_in in E. apply Hid in E. simpl in E. subst q. rewrite Nat.eqb_refl. reflexivity.
    - destruct (parent_strict cf) eqn:Es; [|reflexivity].
      exfalso. apply lookup_none_notin in E. apply E. eapply in_map_fst. apply (H eq_refl b eq_refl).
  Qed.

  Lemma refl_all :
    (forall x c, idctx c -> parent_fail cf c (op_parent x) (op_parent x) = false ->
       (parent_strict cf = true -> wfp_op x) ->
       exists c', equiv_op cf c x x = (true, c') /\ idctx c')
    /\ (forall l c b, idctx c -> (parent_strict cf = true -> wfp_ops b l /\ In (b, b) (cb c)) ->
       exists c', equiv_ops cf c l l = (true, c') /\ idctx c')
    /\ (forall k c, idctx c -> (parent_strict cf = true -> wfp_block k) ->
       exists c', equiv_block cf c k k = (true, c') /\ idctx c')
    /\ (forall r c, idctx c -> (parent_strict cf = true -> wfp_blocks r) ->
       exists c', equiv_blocks cf c r r = (true, c') /\ idctx c')
    /\ (forall g c, idctx c -> (parent_strict cf = true -> wfp_regions g) ->
       exists c', equiv_regions cf c g g = (true, c') /\ idctx c').
  Proof.
    apply ir_mutind.
    - (* Op *)
      intros n os rs a p ss g IHg par c Hid Hpar Hw. simpl in Hpar, Hw.
      destruct (IHg c Hid Hw) as (c1 & Eg & Hid1).
      cbn [equiv_op]. rewrite !Nat.eqb_refl, nats_eqb_refl, andb_false_r. cbn [negb orb].
      destruct Hid as [Hi1 Hi2].
      rewrite Hpar, (all_mapped_id _ os Hi1), (all_mapped_id _ ss Hi2). cbn [negb]. rewrite Eg. cbn [negb].
      eexists. split; [reflexivity|]. destruct Hid1 as [Hj1 Hj2]. split; cbn [cv cb]; [|exact Hj2].
      intros q Hq. apply reg_results_in in Hq. destruct Hq as [Hq|Hq]; [|auto].
      eapply combine_same; eauto.
    - intros c b Hid _. exists c. auto.
    - (* OCons *)
      intros o IHo t IHt c b Hid Hw.
      assert (Hpar : parent_fail cf c (op_parent o) (op_parent o) = false).
      { apply parent_refl; [exact Hid|]. intros Es b0 Eb. destruct (Hw Es) as [(Hp & _ & _) Hin].
        rewrite Hp in Eb. inversion Eb; subst. exact Hin. }
      destruct (IHo c Hid Hpar) as (c1 & Eo & Hid1).
      { intros Es. destruct (Hw Es) as [(_ & X & _) _]. exact X. }
      assert (Xo := proj1 equiv_ext o cf c o c1 Eo).
      destruct (IHt c1 b Hid1) as (c2 & Et & Hid2).
      { intros Es. destruct (Hw Es) as [(_ & _ & X) Hin]. split; [exact X|]. eapply ext_mono_b; eauto. }
      exists c2. cbn [equiv_ops]. rewrite Eo. auto.
    - (* Blk *)
      intros b args body IHb c Hid Hw. simpl in Hw.
      destruct (reg_args_complete args args (cv c)) as [v1 Ha].
      { clear. induction args; constructor; auto. }
      destruct (reg_args_true _ _ _ _ Ha) as [Ha1 _].
      destruct (IHb (Ctx v1 ((b, b) :: cb c)) b) as (c2 & Eb & Hid2).
      { destruct Hid as [Hi1 Hi2]. split; cbn [cv cb].
        - intros q Hq. apply Ha1 in Hq. destruct Hq as [Hq|Hq]; [eapply combine_same; eauto|auto].
        - intros q [Hq|Hq]; [subst; reflexivity|auto]. }
      { intros Es. split; [auto|simpl; auto]. }
      exists c2. cbn [equiv_block]. rewrite !Nat.eqb_refl. cbn [negb orb]. rewrite Ha. cbn [negb]. auto.
    - intros c Hid _. exists c. auto.
    - (* BCons *)
      intros k IHk t IHt c Hid Hw.
      destruct (IHk c Hid) as (c1 & Ek & Hid1); [intros Es; apply (Hw Es)|].
      destruct (IHt c1 Hid1) as (c2 & Et & Hid2); [intros Es; apply (Hw Es)|].
      exists c2. cbn [equiv_blocks]. rewrite Ek. auto.
    - intros c Hid _. exists c. auto.
    - (* GCons *)
      intros r IHr t IHt c Hid Hw.
      destruct (IHr (Ctx (cv c) (reg_blocks (cb c) r r))) as (c1 & Er & Hid1).
      { destruct Hid as [Hi1 Hi2]. split; cbn [cv cb]; [exact Hi1|].
        intros q Hq. apply reg_blocks_in in Hq. destruct Hq as [Hq|Hq]; [eapply combine_same; eauto|auto]. }
      { intros Es; apply (Hw Es). }
      destruct (IHt c1 Hid1) as (c2 & Et & Hid2); [intros Es; apply (Hw Es)|].
      exists c2. rewrite equiv_regions_cons. unfold equiv_region, region_pre.
      rewrite Nat.eqb_refl. cbn [negb]. rewrite Er. auto.
  Qed.
End Refl.

Lemma idctx_empty : idctx empty_ctx.
Proof. split; intros p H; inversion H. Qed.

(* strict parent check (unchanged tree): only for a detached root with consistent parent fields;
   relaxed parent check (repaired): unconditional *)
Theorem refl_op_gen : forall cf a,
  (parent_strict cf = true -> op_parent a = None /\ wfp_op a) -> se_op cf a a = true.
Proof.
  intros cf a H.
  destruct (proj1 (refl_all cf) a empty_ctx idctx_empty) as (c' & E & _).
  - apply parent_fail_top. intros Es. left. apply (H Es).
  - intros Es. apply (H Es).
  - unfold se_op. rewrite E. reflexivity.
Qed.

Theorem refl_block_gen : forall cf a, (parent_strict cf = true -> wfp_block a) -> se_block cf a a = true.
Proof.
  intros cf a H. destruct (proj1 (proj2 (proj2 (refl_all cf))) a empty_ctx idctx_empty H) as (c' & E & _).
  unfold se_block. rewrite E. reflexivity.
Qed.

Theorem refl_region_gen : forall cf a, (parent_strict cf = true -> wfp_blocks a) -> se_region cf a a = true.
Proof.
  intros cf a H.
  destruct (proj1 (proj2 (proj2 (proj2 (refl_all cf)))) a (Ctx [] (reg_blocks [] a a))) as (c' & E & _).
  - split; cbn [cv cb]; [intros p Hp; inversion Hp|].
    intros q Hq. apply reg_blocks_in in Hq. destruct Hq as [Hq|Hq]; [eapply combine_same; eauto|inversion Hq].
  - exact H.
  - unfold se_region, equiv_region, region_pre. rewrite Nat.eqb_refl. cbn [negb]. simpl cv. simpl cb.
    rewrite E. reflexivity.
Qed.
